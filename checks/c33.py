"""C33 IntegerSet behaves as a mathematical set of integers (DESIGN 4, C33).

Oracle: Python ``set`` / ``frozenset`` on the integers the ranges denote.  For ranges far too
wide to enumerate (random part, "wide" mode) the denotation is a Python set of *elementary
segments* (the pieces between all range end points of the two operands); everything else is the
same.  The canonical form (sorted, lo <= hi, next.lo > prev.hi + 1) is installed as an icontract
class invariant on ``IntegerSet`` (checked around every public call and after every constructor,
i.e. on every result); when icontract cannot be imported a plain wrapper around ``__init__``
does the same.  Invariant evaluations are counted, zero makes the run inconclusive.

Every public operation of the class is observed: constructor, ``| & - ^`` and their named
forms, ``in`` / ``contains``, iteration order, ``len`` / ``cardinality``, ``bool`` / ``empty``,
``==`` / ``!=`` (also against foreign types) and ``hash`` consistency.  ``repr`` is called but not
judged (the statement says nothing about it).
"""
from vlib.core import rng, h

PROPERTY = "C33"
U = 7  # universe {0..6}
RULE = ("exhaustive: every ordered pair of the 128 subsets of {0..6}, each operand built from 4 "
        "decompositions (minimal ranges; singleton ints; overlapping/nested/equal-endpoint cover; seeded "
        "shuffle of adjacent pieces with inverted (empty) ranges) -> 16 builds per pair x 8 binary operations; "
        "every constructor argument list of <= 3 items (ints and (lo,hi) incl. inverted) over {0..6} "
        "(thorough: also <= 4 items over {0..4}); per subset all unary observations and the full ==/hash "
        "matrix.  Random: operand pairs over integers up to +-2^70 with end points drawn from a small grid "
        "(adjacent, nested, equal end points, inverted), narrow mode judged by a Python set of ints, wide mode "
        "by a Python set of elementary segments.  Non-trivial = both operands non-empty; exhaustive cases are "
        "distinct by construction, random ones by hash of the argument lists")
ASSUMPTIONS = ["Python set/frozenset algebra, sorted() and big-integer arithmetic are correct",
               "constructor arguments are ints and 2-tuples of ints (the documented input types); bool/float are not generated",
               "wide mode: a range set is represented by the set of elementary segments between all end points of both operands"]
MANIFEST_ENTRY = {
    "text": "IntegerSet union/intersection/difference/symmetric difference, membership, iteration, cardinality, "
            "bool, ==/hash agree with Python set on all pairs of subsets of a 7-element universe built from "
            "overlapping/unsorted/adjacent/empty ranges, on all short constructor argument lists, and on random "
            "sets over integers up to +-2^70; every result is in canonical form (class invariant)",
    "note": "exhaustive only for the stated small spaces; repr is not judged; non-int arguments are outside the quantifier",
    "technique": "runtime monitoring: Python set oracle + icontract class invariant over exhaustive small universe and random big-integer range sets",
}


def EXHAUSTIVE(tier):
    return True


def plan(tier, seed, avoid):
    specs = [{"part": "pairs", "a_from": a, "a_to": a + 8} for a in range(0, 128, 8)]
    specs.append({"part": "unary"})
    specs += [{"part": "ctor", "universe": U, "maxlen": 3, "first_from": f, "first_to": f + 7}
              for f in range(0, 56, 7)]
    if tier != "quick":
        specs += [{"part": "ctor", "universe": 5, "maxlen": 4, "first_from": f, "first_to": f + 5}
                  for f in range(0, 30, 5)]
    n = 5000 if tier == "quick" else 60000
    specs += [{"part": "big", "mode": m, "n": n, "shard": i} for i in range(4) for m in ("narrow", "wide")]
    return specs


def floors(tier):
    # exhaustive parts are deterministic: 524288 binary calls per operation, 178809 constructor lists
    return {"evaluations": 4000000, "observed.invariant_evaluations": 2000000,  # fallback mode evaluates once per constructor only
            "observed.ops.union": 520000, "observed.ops.intersection": 520000,
            "observed.ops.difference": 520000, "observed.ops.symmetric_difference": 520000,
            "observed.ops.contains": 1000000, "observed.ops.iter": 30000, "observed.ops.len": 50000,
            "observed.ops.eq": 500000, "observed.ops.hash": 300000, "observed.ops.bool": 60000,
            "observed.ops.ctor": 180000,
            "observed.shape.adjacent_inputs": 20000, "observed.shape.nested_inputs": 40000,
            "observed.shape.inverted_inputs": 60000, "observed.shape.equal_endpoint_inputs": 30000,
            "observed.shape.unsorted_inputs": 40000,
            "observed.big.wide_cases": 10000, "observed.big.narrow_cases": 10000,
            "observed.big.beyond_64bit": 5000, "distinct_nontrivial": 300000}


# ---- reference -----------------------------------------------------------------

def canon_ok(ranges):
    """sorted, lo <= hi, separated by at least one missing integer"""
    prev = None
    for r in ranges:
        if not (isinstance(r, tuple) and len(r) == 2 and r[0] <= r[1]):
            return False
        if prev is not None and not (r[0] > prev + 1):
            return False
        prev = r[1]
    return isinstance(ranges, tuple)


def canonical_ranges(values):
    """the unique canonical range tuple of a set of ints"""
    out = []
    for v in sorted(values):
        if out and v == out[-1][1] + 1:
            out[-1][1] = v
        else:
            out.append([v, v])
    return tuple((a, b) for a, b in out)


def denote(items):
    s = set()
    for it in items:
        if isinstance(it, int):
            s.add(it)
        else:
            s.update(range(it[0], it[1] + 1))
    return s


def to_args(items):
    return [it if isinstance(it, int) else (it[0], it[1]) for it in items]


def jsonable(items):
    return [it if isinstance(it, int) else [it[0], it[1]] for it in items]


SET_OPS = [
    ("union", "__or__", lambda a, b: a | b),
    ("intersection", "__and__", lambda a, b: a & b),
    ("difference", "__sub__", lambda a, b: a - b),
    ("symmetric_difference", "__xor__", lambda a, b: a ^ b),
]


class InvariantBroken(Exception):
    pass


class Mon:
    def __init__(self, spec):
        self.spec = spec
        self.evals = 0
        self.nontrivial = 0
        self.hashes = []
        self.ops = {}
        self.shape = {}
        self.big = {}
        self.viol = []
        self.samples = []
        self.inv = [0]
        self.mode = None
        self.seen_states = set()
        self.inconclusive = []

    def op(self, name, n=1):
        self.ops[name] = self.ops.get(name, 0) + n

    def bump(self, d, name, n=1):
        d[name] = d.get(name, 0) + n

    def violation(self, summary, case):
        if len(self.viol) < 5:
            case = dict(case)
            rs = {"part": "case", "a": case.get("a_items", []), "b": case.get("b_items", [])}
            self.viol.append({"summary": summary, "case": case, "replay_spec": rs})

    def result(self):
        obs = {"ops": self.ops, "shape": self.shape, "big": self.big,
               "invariant_evaluations": self.inv[0],
               "invariant": {("icontract_shards" if self.mode == "icontract" else "fallback_shards"): 1}}
        res = {"evaluations": self.evals, "observed": obs, "violations": self.viol,
               "samples": self.samples[:2], "inconclusive": self.inconclusive}
        if self.hashes:
            res["nontrivial_hashes"] = self.hashes
        else:
            res["nontrivial_count"] = self.nontrivial
        if self.inv[0] == 0:
            res["inconclusive"] = self.inconclusive + ["class invariant was never evaluated in shard %r" % (self.spec.get("part"),)]
        return res


def install_invariant(mon):
    """Canonical form as a class invariant of the real IntegerSet class (modified in place, so
    every module that already imported the name sees the instrumented class)."""
    from ppci.utils import integer_set as mod

    IS = mod.IntegerSet
    counter = mon.inv

    def canonical(self):
        counter[0] += 1
        return canon_ok(self.ranges)

    try:
        import icontract

        cls = icontract.invariant(canonical, "ranges are sorted, non-empty, non-overlapping, non-adjacent")(IS)
        if cls is not IS or mod.IntegerSet is not IS:
            raise RuntimeError("icontract returned a different class object")
        mon.mode = "icontract"
        mon.inv_error = icontract.ViolationError
    except ImportError:
        orig = IS.__init__

        def __init__(self, *values):
            orig(self, *values)
            if not canonical(self):
                raise InvariantBroken("ranges not canonical: %r" % (self.ranges,))

        IS.__init__ = __init__
        mon.mode = "fallback"
        mon.inv_error = InvariantBroken
    return IS


# ---- observations -----------------------------------------------------------------

def call(mon, case, what, fn):
    """run one ppci call; an exception on a defined input is a refuting event"""
    try:
        return True, fn()
    except mon.inv_error as e:
        mon.violation("%s: class invariant (canonical form) broken: %s" % (what, str(e)[-200:]), case)
    except Exception as e:  # noqa
        mon.violation("%s raised %s: %s" % (what, type(e).__name__, e), case)
    return False, None


def check_result(mon, IS, case, what, R, expect_ranges):
    """R must be an IntegerSet whose state is exactly the canonical form of the expected set."""
    mon.evals += 1
    if not isinstance(R, IS):
        mon.violation("%s returned %s, not an IntegerSet" % (what, type(R).__name__), case)
        return False
    got = R.ranges
    if got != expect_ranges:
        kind = "is not in canonical form" if not canon_ok(got) else "denotes a different set"
        mon.violation("%s = %r %s; Python set gives %r" % (what, got, kind, expect_ranges),
                      dict(case, op=what, got=repr(got), expect=repr(expect_ranges)))
        return False
    return True


def observe_state(mon, IS, case, S, expect_sorted, probes, expect_card=None, iter_limit=None):
    """All unary public operations of S against the expected sorted element list (or, for wide sets,
    expected cardinality + a bounded iteration prefix)."""
    card = len(expect_sorted) if expect_card is None else expect_card
    ok, v = call(mon, case, "cardinality()", S.cardinality)
    mon.op("len")
    mon.evals += 1
    if ok and v != card:
        mon.violation("cardinality() = %r, set has %r elements" % (v, card), case)
    if card < (1 << 62):  # len() of anything larger cannot be returned by Python at all
        ok, v = call(mon, case, "len()", lambda: len(S))
        mon.op("len")
        mon.evals += 1
        if ok and v != card:
            mon.violation("len() = %r, set has %r elements" % (v, card), case)
    for nm, fn, want in (("bool()", lambda: bool(S), card > 0), ("empty()", S.empty, card == 0)):
        ok, v = call(mon, case, nm, fn)
        mon.op("bool")
        mon.evals += 1
        if ok and v is not want:
            mon.violation("%s = %r, expected %r" % (nm, v, want), case)
    # iteration order
    import itertools

    if iter_limit is None:
        ok, v = call(mon, case, "list()", lambda: list(S))
        want = expect_sorted
    else:
        ok, v = call(mon, case, "iteration prefix", lambda: list(itertools.islice(iter(S), iter_limit)))
        want = expect_sorted[:iter_limit]
    mon.op("iter")
    mon.evals += 1
    if ok and v != want:
        mon.violation("iteration yields %r, sorted set is %r" % (v[:20], want[:20]), case)
    # membership, both spellings
    for x, want in probes:
        for nm, fn in (("in", lambda: x in S), ("contains", lambda: S.contains(x))):
            ok, v = call(mon, case, "%r %s" % (x, nm), fn)
            mon.op("contains")
            mon.evals += 1
            if ok and v is not want:
                mon.violation("%r %s S = %r, expected %r (S.ranges=%r)" % (x, nm, v, want, S.ranges), case)
    call(mon, case, "repr()", lambda: repr(S))
    # foreign types never compare equal, and == is reflexive
    for other in (None, 0, (), set(expect_sorted[:50]), tuple(S.ranges), "x"):
        ok, v = call(mon, case, "== %s" % type(other).__name__, lambda: S == other)
        mon.op("eq")
        mon.evals += 1
        if ok and v is not False:
            mon.violation("S == %r is %r" % (other, v), case)
    ok, v = call(mon, case, "S == S", lambda: (S == S, S != S))
    if ok and v != (True, False):
        mon.violation("(S == S, S != S) = %r" % (v,), case)


def observe_result(mon, IS, case, what, R, expect_set, expect_ranges, probes):
    if not check_result(mon, IS, case, what, R, expect_ranges):
        return
    key = R.ranges
    if key in mon.seen_states:  # the state of an IntegerSet is its ranges; observe each state once
        return
    mon.seen_states.add(key)
    exp = sorted(expect_set)
    observe_state(mon, IS, case, R, exp, [(x, x in expect_set) for x in probes])
    # equal sets compare equal and hash equal, however they were built
    ok, T = call(mon, case, "IntegerSet(*singletons)", lambda: IS(*exp))
    if ok:
        ok, v = call(mon, case, "==/hash", lambda: (R == T, T == R, R != T, hash(R) == hash(T)))
        mon.op("eq")
        mon.op("hash")
        mon.evals += 1
        if ok and v != (True, True, False, True):
            mon.violation("%s: result %r vs same set from singletons %r: (==, ==, !=, hash==) = %r" % (
                what, R.ranges, T.ranges, v), case)


def binary(mon, IS, case, A, B, sa, sb, canon_of, probes):
    """the 8 binary spellings on one built pair"""
    a0, b0 = A.ranges, B.ranges
    for name, dunder, setop in SET_OPS:
        want = setop(sa, sb)
        want_r = canon_of(want)
        for spell, fn in ((name, lambda: getattr(A, name)(B)), (dunder, lambda: getattr(A, dunder)(B))):
            ok, R = call(mon, case, "A.%s(B)" % spell, fn)
            mon.op(name)
            if ok:
                observe_result(mon, IS, case, "A.%s(B)" % spell, R, want, want_r, probes)
    if A.ranges != a0 or B.ranges != b0:
        mon.violation("an operation modified its operand: A %r -> %r, B %r -> %r" % (a0, A.ranges, b0, B.ranges), case)
    # ==, != and hash between the operands
    ok, v = call(mon, case, "A == B", lambda: (A == B, A != B, hash(A) == hash(B)))
    mon.op("eq")
    mon.op("hash")
    mon.evals += 1
    same = sa == sb
    if ok and (v[0] is not same or v[1] is same or (same and not v[2])):
        mon.violation("(A == B, A != B, hash equal) = %r but the sets are %s (A.ranges=%r B.ranges=%r)" % (
            v, "equal" if same else "different", A.ranges, B.ranges), case)


# ---- decompositions of a subset of {0..U-1} ------------------------------------

def runs(values):
    return [list(r) for r in canonical_ranges(values)]


def decompositions(values, r):
    """4 argument lists denoting the same set"""
    rs = runs(values)
    d0 = [[lo, hi] for lo, hi in rs]
    d1 = list(sorted(values))
    d2 = []
    for lo, hi in rs:
        if lo == hi:
            d2 += [[lo, lo], lo]
        else:
            mid = (lo + hi) // 2
            d2 += [[lo, hi - 1], [lo + 1, hi], [lo, lo], [mid + 1, hi], [lo, mid]]
            if hi - lo >= 2:
                d2 += [[lo + 1, hi - 1]]
    d3 = []
    for lo, hi in rs:
        x = lo
        while x <= hi:  # random adjacent / overlapping pieces
            y = r.randint(x, hi)
            d3.append(x if (x == y and r.random() < 0.5) else [x, y])
            if r.random() < 0.3 and y > x:
                d3.append([r.randint(x, y), y])
            x = y + 1
    for _ in range(r.randint(1, 3)):  # inverted ranges denote nothing, wherever they lie
        lo = r.randint(-1, U)
        d3.append([lo + r.randint(1, 4), lo])
    r.shuffle(d3)
    return [d0, d1, d2, d3]


def shape_stats(mon, items):
    rs = [(it, it) if isinstance(it, int) else (it[0], it[1]) for it in items]
    good = [x for x in rs if x[0] <= x[1]]
    if len(good) != len(rs):
        mon.bump(mon.shape, "inverted_inputs")
    flags = set()
    for i, a in enumerate(good):
        for b in good[i + 1:]:
            if a[1] + 1 == b[0] or b[1] + 1 == a[0]:
                flags.add("adjacent_inputs")
            if (a[0] <= b[0] and b[1] <= a[1]) or (b[0] <= a[0] and a[1] <= b[1]):
                flags.add("nested_inputs")
            if a[0] == b[0] or a[1] == b[1] or a[0] == b[1] or a[1] == b[0]:
                flags.add("equal_endpoint_inputs")
            if a[0] <= b[1] and b[0] <= a[1]:
                flags.add("overlapping_inputs")
    if good != sorted(good):
        flags.add("unsorted_inputs")
    for f in flags:
        mon.bump(mon.shape, f)


# ---- shards -----------------------------------------------------------------------

def subsets():
    return [frozenset(i for i in range(U) if m >> i & 1) for m in range(1 << U)]


def build_all(mon, IS, seed):
    """every subset in its 4 decompositions: [(items, IntegerSet)]"""
    SETS = subsets()
    built = []
    for m, s in enumerate(SETS):
        decs = decompositions(s, rng(seed, PROPERTY, "dec%d" % m))
        row = []
        for items in decs:
            case = {"a_items": jsonable(items), "b_items": []}
            ok, S = call(mon, case, "IntegerSet(*%r)" % (items,), lambda: IS(*to_args(items)))
            mon.op("ctor")
            row.append((items, S if ok else None))
        built.append(row)
    return SETS, built


def run_pairs(mon, IS, spec):
    SETS, built = build_all(mon, IS, spec["seed"])
    canon = {}

    def canon_of(s):
        s = frozenset(s)
        if s not in canon:
            canon[s] = canonical_ranges(s)
        return canon[s]

    probes = list(range(-2, U + 2))
    for ma in range(spec["a_from"], spec["a_to"]):
        sa = SETS[ma]
        for mb in range(len(SETS)):
            sb = SETS[mb]
            for ia, (items_a, A) in enumerate(built[ma]):
                for ib, (items_b, B) in enumerate(built[mb]):
                    if A is None or B is None:
                        continue
                    case = {"a_items": jsonable(items_a), "b_items": jsonable(items_b),
                            "a_set": sorted(sa), "b_set": sorted(sb)}
                    if not check_result(mon, IS, case, "IntegerSet(*a_items)", A, canon_of(sa)):
                        continue
                    if not check_result(mon, IS, case, "IntegerSet(*b_items)", B, canon_of(sb)):
                        continue
                    binary(mon, IS, case, A, B, sa, sb, canon_of, probes)
                    if sa and sb:
                        mon.nontrivial += 1
                    if len(mon.samples) < 2 and ia == 3 and ib == 2 and len(sa) > 3 and len(sb) > 2 and sa & sb and sa - sb:
                        mon.samples.append({"a_items": jsonable(items_a), "b_items": jsonable(items_b),
                                            "A|B": repr((A | B).ranges), "A&B": repr((A & B).ranges),
                                            "A-B": repr((A - B).ranges), "A^B": repr((A ^ B).ranges)})


def run_unary(mon, IS, spec):
    SETS, built = build_all(mon, IS, spec["seed"])
    probes = list(range(-3, U + 3))
    flat = []
    for m, s in enumerate(SETS):
        r = rng(spec["seed"], PROPERTY, "unary%d" % m)
        variants = list(built[m])
        for _ in range(6):  # more shuffles of the randomised decomposition
            items = decompositions(s, r)[3]
            case = {"a_items": jsonable(items), "b_items": []}
            ok, S = call(mon, case, "IntegerSet(*%r)" % (items,), lambda: IS(*to_args(items)))
            mon.op("ctor")
            variants.append((items, S if ok else None))
        for items, S in variants:
            if S is None:
                continue
            shape_stats(mon, items)
            case = {"a_items": jsonable(items), "b_items": [], "a_set": sorted(s)}
            if not check_result(mon, IS, case, "IntegerSet(*a_items)", S, canonical_ranges(s)):
                continue
            observe_state(mon, IS, case, S, sorted(s), [(x, x in s) for x in probes])
            if s:
                mon.nontrivial += 1
            flat.append((m, items, S))
    # the full ==/hash matrix: equal <=> same subset, equal => same hash, usable as dict key
    table = {}
    for m, items, S in flat:
        ok, _ = call(mon, {"a_items": jsonable(items), "b_items": []}, "dict insert", lambda: table.setdefault(S, m))
        mon.op("hash")
    if len(table) != len(SETS):
        mon.violation("%d differently built IntegerSets of 128 subsets collapse to %d dict keys" % (len(flat), len(table)),
                      {"a_items": [], "b_items": []})
    for m, items, S in flat:
        mon.evals += 1
        if table.get(S) != m:
            mon.violation("dict lookup of a set built from %r finds subset #%r, expected #%r" % (items, table.get(S), m),
                          {"a_items": jsonable(items), "b_items": []})
    for i, (ma, ia, A) in enumerate(flat):
        for mb, ib, B in flat[i % 3::3]:  # a third of the 1280 x 1280 matrix, offsets rotate
            case = {"a_items": jsonable(ia), "b_items": jsonable(ib)}
            ok, v = call(mon, case, "A == B", lambda: (A == B, A != B, hash(A) == hash(B)))
            mon.op("eq")
            mon.op("hash")
            mon.evals += 1
            same = ma == mb
            if ok and (v[0] is not same or v[1] is same or (same and not v[2])):
                mon.violation("(A == B, A != B, hash equal) = %r but the sets are %s (A.ranges=%r B.ranges=%r)" % (
                    v, "equal" if same else "different", A.ranges, B.ranges), case)
    mon.samples.append({"subset": sorted(SETS[0b1011101]), "decompositions": [jsonable(i) for i, _ in built[0b1011101]]})


def ctor_items(universe):
    items = list(range(universe))
    items += [[lo, hi] for lo in range(universe) for hi in range(universe)]
    return items


def run_ctor(mon, IS, spec):
    import itertools

    items = ctor_items(spec["universe"])
    firsts = items[spec["first_from"]:spec["first_to"]]
    probes = list(range(-1, spec["universe"] + 1))
    canon = {}
    for n in range(0, spec["maxlen"] + 1):
        if n == 0:
            seqs = [()] if spec["first_from"] == 0 else []
        else:
            seqs = ((f,) + rest for f in firsts for rest in itertools.product(items, repeat=n - 1))
        for seq in seqs:
            seq = list(seq)
            s = frozenset(denote(seq))
            if s not in canon:
                canon[s] = canonical_ranges(s)
            case = {"a_items": jsonable(seq), "b_items": []}
            ok, S = call(mon, case, "IntegerSet(*%r)" % (seq,), lambda: IS(*to_args(seq)))
            mon.op("ctor")
            if not ok:
                continue
            if n <= 2 or (seq[0] != seq[1]):
                shape_stats(mon, seq)
            observe_result(mon, IS, case, "IntegerSet(*a_items)", S, s, canon[s], probes)
            if len(s) > 0 and n > 1:
                mon.nontrivial += 1
    mon.samples.append({"constructor_items": len(items), "maxlen": spec["maxlen"], "universe": spec["universe"]})


ANCHORS = [0, 1 << 31, -(1 << 31), 1 << 32, 1 << 63, -(1 << 63), 1 << 64, -(1 << 64), (1 << 64) - 1,
           1 << 70, -(1 << 70), (1 << 70) - 7, 10 ** 21]


def gen_items(r, grids, n):
    """argument list with end points from small grids: adjacent, nested, equal end points are
    frequent; both ends of a range come from the same grid"""
    items = []
    for _ in range(n):
        k = r.random()
        grid = r.choice(grids)
        a = r.choice(grid)
        if k < 0.2:
            items.append(a)
        elif k < 0.3:
            items.append([a, a])
        else:
            b = r.choice(grid)
            if k < 0.9 and a > b:
                a, b = b, a
            items.append([a, b])
    if items and r.random() < 0.4:  # an exactly adjacent follower
        it = r.choice(items)
        hi = it if isinstance(it, int) else it[1]
        items.append([hi + 1, hi + 1 + r.choice([0, 0, 1, 3])])
    if items and r.random() < 0.3:  # an exact duplicate
        items.append(r.choice(items))
    r.shuffle(items)
    return items


def run_big(mon, IS, spec):
    mode = spec["mode"]
    for i in range(spec["n"]):
        idx = "%s/%d/%d" % (mode, spec["shard"], i)
        r = rng(spec["seed"], PROPERTY, idx)
        if mode == "narrow":
            grids = []
            for _ in range(r.randint(1, 3)):
                base = r.choice(ANCHORS) + r.choice([0, 0, -13, 5, r.randint(-10 ** 6, 10 ** 6)])
                w = r.choice([4, 8, 14, 24])
                grids.append([base + d for d in range(-w // 2, w // 2 + 1)])
        else:
            pool = set()
            while len(pool) < r.randint(3, 9):
                pool.add(r.choice(ANCHORS) * r.choice([1, 1, 1, -1]) + r.choice([0, 0, -2, -1, 1, 2, r.randint(-99, 99)]))
            grid = sorted(pool)
            grid += [g + d for g in list(grid) for d in (1, -1) if r.random() < 0.4]
            grids = [grid]
        ia = gen_items(r, grids, r.randint(0, 6))
        ib = gen_items(r, grids, r.randint(0, 6))
        one_case(mon, IS, ia, ib, mode)
        shape_stats(mon, ia)
        shape_stats(mon, ib)
        mon.bump(mon.big, mode + "_cases")
        if any(abs(x) >= 1 << 64 for it in ia + ib for x in ([it] if isinstance(it, int) else it)):
            mon.bump(mon.big, "beyond_64bit")
        if len(mon.samples) < 2 and len(ia) > 3 and len(ib) > 2:
            mon.samples.append({"mode": mode, "a_items": jsonable(ia), "b_items": jsonable(ib)})


def one_case(mon, IS, ia, ib, mode):
    case = {"a_items": jsonable(ia), "b_items": jsonable(ib), "mode": mode}
    ok1, A = call(mon, case, "IntegerSet(*a_items)", lambda: IS(*to_args(ia)))
    ok2, B = call(mon, case, "IntegerSet(*b_items)", lambda: IS(*to_args(ib)))
    mon.op("ctor", 2)
    if not (ok1 and ok2):
        return
    if mode == "narrow":
        sa, sb = denote(ia), denote(ib)
        pts = set()
        for it in ia + ib:
            for x in ([it] if isinstance(it, int) else it):
                pts.update((x - 1, x, x + 1))
        probes = sorted(pts)
        if check_result(mon, IS, case, "IntegerSet(*a_items)", A, canonical_ranges(sa)) and \
                check_result(mon, IS, case, "IntegerSet(*b_items)", B, canonical_ranges(sb)):
            mon.seen_states.clear()
            observe_result(mon, IS, case, "IntegerSet(*a_items)", A, sa, canonical_ranges(sa), probes)
            binary(mon, IS, case, A, B, sa, sb, canonical_ranges, probes)
        if sa and sb:
            mon.hashes.append(h([mode, jsonable(ia), jsonable(ib)]))
        return
    # wide: denotation = set of elementary segment indices
    def norm(items):
        rs = [(it, it) if isinstance(it, int) else (it[0], it[1]) for it in items]
        return [x for x in rs if x[0] <= x[1]]

    ra, rb = norm(ia), norm(ib)
    cuts = sorted(set([x[0] for x in ra + rb] + [x[1] + 1 for x in ra + rb]))
    nseg = max(0, len(cuts) - 1)

    def segs(rs):
        return frozenset(i for i in range(nseg) if any(lo <= cuts[i] and cuts[i + 1] - 1 <= hi for lo, hi in rs))

    def ranges_of(ss):
        out = []
        for i in sorted(ss):
            if out and out[-1][1] + 1 == cuts[i]:
                out[-1][1] = cuts[i + 1] - 1
            else:
                out.append([cuts[i], cuts[i + 1] - 1])
        return tuple((a, b) for a, b in out)

    def member(ss, x):
        return any(cuts[i] <= x < cuts[i + 1] for i in ss)

    sa, sb = segs(ra), segs(rb)
    pts = set()
    for c in cuts:
        pts.update((c - 2, c - 1, c, c + 1))
    probes = sorted(pts)

    def check(what, R, ss):
        want = ranges_of(ss)
        if not check_result(mon, IS, case, what, R, want):
            return
        card = sum(b - a + 1 for a, b in want)
        prefix = []
        for a, b in want:
            prefix.extend(range(a, min(b, a + 40) + 1))
            if len(prefix) >= 40:
                break
        prefix = prefix[:40]
        observe_state(mon, IS, dict(case, op=what), R, prefix, [(x, member(ss, x)) for x in probes],
                      expect_card=card, iter_limit=40 if card > 40 else None)

    check("IntegerSet(*a_items)", A, sa)
    check("IntegerSet(*b_items)", B, sb)
    a0, b0 = A.ranges, B.ranges
    for name, dunder, setop in SET_OPS:
        want = setop(sa, sb)
        for spell in (name, dunder):
            ok, R = call(mon, case, "A.%s(B)" % spell, lambda: getattr(A, spell)(B))
            mon.op(name)
            if ok:
                check("A.%s(B)" % spell, R, want)
    if A.ranges != a0 or B.ranges != b0:
        mon.violation("an operation modified its operand", case)
    ok, v = call(mon, case, "A == B", lambda: (A == B, A != B, hash(A) == hash(B)))
    mon.op("eq")
    mon.op("hash")
    mon.evals += 1
    same = ranges_of(sa) == ranges_of(sb)
    if ok and (v[0] is not same or v[1] is same or (same and not v[2])):
        mon.violation("(A == B, A != B, hash equal) = %r but the sets are %s" % (v, "equal" if same else "different"), case)
    if sa and sb:
        mon.hashes.append(h([mode, jsonable(ia), jsonable(ib)]))


def run_shard(spec):
    mon = Mon(spec)
    IS = install_invariant(mon)
    part = spec["part"]
    if part == "pairs":
        run_pairs(mon, IS, spec)
    elif part == "unary":
        run_unary(mon, IS, spec)
    elif part == "ctor":
        run_ctor(mon, IS, spec)
    elif part == "big":
        run_big(mon, IS, spec)
    elif part == "case":  # replay of one recorded case
        mode = "narrow"
        for it in spec["a"] + spec["b"]:
            if not isinstance(it, int) and it[1] - it[0] > 100000:
                mode = "wide"
        one_case(mon, IS, spec["a"], spec["b"], mode)
    return mon.result()
