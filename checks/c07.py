"""C07 instruction read/write annotations match machine semantics (DESIGN C07).

One encoded instruction instance (vlib.isaenum) is executed from a machine
state s by the real executor and ppci's declaration of it
(``used_registers``, ``defined_registers``, ``clobbers``; aliases through
``arch.info.alias``) is judged:

 (a) no register outside the alias closure of defined_registers + clobbers
     changes;
 (b) two states that differ only in one register outside the alias closure of
     used_registers give the same *declared* outputs (exactly the bits of each
     declared register: ``al`` = bits 0..7), the same memory effect and the
     same fault status.

Executors (scope narrowed as DESIGN 1/7: arm, thumb, m68k, mips cannot be
executed in the sandbox):
  x86_64     the host CPU through vlib.x86probe (trampoline loads every GPR but
             rsp, every XMM and the arithmetic flags, runs the bytes, stores
             everything back; scratch area for memory operands; faults caught).
             Every eligible register is perturbed in every state.
  riscv,     vlib.rv32emu single step; the registers the executed semantics
  riscv:rvc  really read (``last_reads``) minus the declared uses are the
             perturbation candidates (a register that is not read cannot
             influence anything), each is perturbed and the outputs compared.

Flags, pc and sp are fixed implicit state: never judged, never perturbed.
Memory-operand address registers are declared uses by construction of the
operand; they are pinned so that the effective address lies in the scratch
area (x86: from ppci's operand structure; riscv: from the emulator's decode).
Skipped and listed in the evidence: control flow, system/privileged, stack
(push/pop and every instance naming the stack pointer), string instructions,
pc-relative and absolute-address operands, instances with relocations
(labels), data directives, pseudo instructions without a single encoding,
RISC-V F/D (not in the emulator), and x86 instances naming ah/ch/dh/bh while
C08's finding x86-high-byte-register-with-rex is open (the encoding addresses
spl/bpl/sil/dil instead).
"""
import os

from vlib.core import rng, h
from checks.c05 import open_keys

PROPERTY = "C07"
RULE = ("vlib.isaenum instances of every x86_64, riscv and riscv:rvc instruction class (all register choices, boundary "
        "immediates/displacements), each executed from several seeded machine states (x86: random / small / boundary "
        "GPRs, random and well-formed floating XMMs, random arithmetic flags, scratch memory; riscv: random / boundary "
        "registers) on the host CPU (vlib.x86probe) or vlib.rv32emu; (a) registers changed vs alias closure of "
        "defined_registers+clobbers, (b) one-register perturbations outside the alias closure of used_registers vs "
        "declared output bits, memory effect, fault; evaluation = one executed probe that was compared; non-trivial = "
        "(class, instance) whose base run changed a register or memory; distinct by (arch, class, assignment)")
ASSUMPTIONS = ["the host CPU implements x86-64; vlib.rv32emu implements RV32IMC (validated by vlib.rv32emu_selftest)",
               "vlib.x86probe's trampoline loads/stores the whole visible register state (self-test: nop leaves it unchanged)",
               "register aliasing is arch.info.alias; the bit range of a sub-register follows its name (al 0..7, ax 0..15, "
               "eax 0..31, xmmN single 0..31, double 0..63)"]
MANIFEST_ENTRY = {
    "text": "Every instruction class of x86_64, riscv and riscv:rvc is instantiated over its operand space and executed "
            "one instruction at a time on the CPU / reference emulator; undeclared register writes and undeclared "
            "register reads (found by single-register perturbation) refute the annotations.",
    "note": "Claimed for x86_64, riscv, riscv:rvc only (no ARM/Thumb/m68k/MIPS emulator in the sandbox). Control-flow, "
            "system, stack-pointer, string, pc-relative/absolute-address, label-carrying instances, data directives "
            "and RISC-V F/D are skipped and listed. Flags, pc, sp are fixed implicit state.",
    "technique": "runtime monitoring: CPU / emulator single-step differential (state perturbation) vs declared use/def sets",
}
SHARD_TIMEOUT = {"quick": 900, "thorough": 3 * 3600}

X86_SKIP_MNEMONICS = {
    "control-flow": {"jmp", "jmpshort", "call", "ret", "jb", "jae", "jz", "jne", "jbe", "ja", "js", "jl", "jge", "jle", "jg",
                     "je", "jnz", "jns"},
    "system": {"int", "syscall"},
    "stack": {"push", "pop"},
    "string": {"rep", "movsb"},
    "data-directive": {"db", "dw", "dd", "dq", "ds", "dcd", ".byte", ".zero", ".align", "align", "section", "global",
                       "type", "repeat", "endrepeat", ".", "dcd2"},
}
RV_CONTROL = {"beq", "bne", "blt", "bge", "bltu", "bgeu", "jal", "jalr", "c.j", "c.jal", "c.jr", "c.jalr", "c.beqz", "c.bnez"}
RV_SYSTEM = {"ecall", "ebreak", "c.ebreak", "fence", "fence.i", "csrrw", "csrrs", "csrrc", "csrrwi", "csrrsi", "csrrci",
             "mret", "sret", "uret", "wfi", "sfence.vma"}
RV_SP = {"c.lwsp", "c.swsp", "c.addi16sp", "c.addi4spn"}
RV_MEM = {"lb", "lh", "lw", "lbu", "lhu", "sb", "sh", "sw"}

# known findings: avoid switches decided on the *instance* (class, operand structure), never on results
RVC_TWO_ADDRESS = {"csub_ins", "cxor_ins", "cor_ins", "cand_ins", "CAddi"}
X86_IMPLICIT_CLASSES = {"Div", "Idiv", "Div32", "Idiv32", "Div16", "Idiv16", "Cdqe", "Cwd", "Cdq", "Cqo"}


def plan(tier, seed, avoid):
    specs = []
    nx = 10 if tier == "quick" else 32
    for k in range(nx):
        specs.append({"part": "x86", "sub": k, "nsub": nx})
    nr = 2 if tier == "quick" else 8
    for t in ("riscv", "riscv:rvc"):
        for k in range(nr):
            specs.append({"part": "rv", "target": t, "sub": k, "nsub": nr})
    return specs


def floors(tier):
    q = tier == "quick"
    return {"evaluations": 25000 if q else 300000, "distinct_nontrivial": 1000 if q else 5000,
            "observed.classes_probed.x86_64": 45, "observed.classes_probed.riscv": 14,
            "observed.classes_probed.riscv:rvc": 16, "observed.perturbations_compared": 20000,
            "observed.memory_effects_compared": 1000, "observed.partial_register_outputs": 200,
            "observed.x86_probe_selftest": 1}


class Mon:
    def __init__(self, spec):
        self.spec = spec
        self.evals = 0
        self.hashes = set()
        self.viol = []
        self.viol_keys = set()
        self.disc = {}
        self.samples = []
        self.inconclusive = []
        self.obs = {"classes_probed": {}, "classes_skipped": {}, "probes_per_class": {}, "instances": {},
                    "perturbations_compared": 0, "base_runs_compared": 0, "memory_effects_compared": 0,
                    "partial_register_outputs": 0, "faulting_base_runs": {}, "x86_probe_selftest": 0,
                    "rv_read_candidates": 0, "instances_skipped": {}}

    def bump(self, d, k, n=1):
        d[k] = d.get(k, 0) + n

    def discard(self, why, n=1):
        self.disc[why] = self.disc.get(why, 0) + n

    def skip_class(self, arch, reason, key):
        self.obs["classes_skipped"].setdefault(arch, {}).setdefault(reason, [])
        if key not in self.obs["classes_skipped"][arch][reason]:
            self.obs["classes_skipped"][arch][reason].append(key)

    def skip_instance(self, arch, reason):
        d = self.obs["instances_skipped"].setdefault(arch, {})
        d[reason] = d.get(reason, 0) + 1

    def violation(self, key, summary, case):
        if key in self.viol_keys or len(self.viol) >= int(os.environ.get("C07_MAXVIOL", "25")):
            return
        self.viol_keys.add(key)
        self.viol.append({"summary": summary[:400], "case": case})

    def result(self):
        return {"evaluations": self.evals, "nontrivial_hashes": sorted(self.hashes), "observed": self.obs,
                "discarded": self.disc, "samples": self.samples[:2], "violations": self.viol,
                "inconclusive": self.inconclusive[:5]}


def setup():
    import logging

    logging.disable(logging.CRITICAL)


# --------------------------------------------------------------------------
# x86-64


def x86_phys(reg):
    """(kind, index, low bit, bits) of a ppci x86-64 register, or None (unknown / rip)."""
    name = reg.name
    cls = type(reg).__name__
    if cls in ("XmmRegisterDouble", "XmmRegisterSingle"):
        return ("x", reg.num, 0, 64 if cls == "XmmRegisterDouble" else 32)
    if cls == "Register64":
        return None if name == "rip" else ("g", reg.num, 0, 64)
    if cls == "Register32":
        return ("g", reg.num, 0, 32)
    if cls == "Register16":
        return ("g", reg.num, 0, 16)
    if cls == "Register8":
        if name in ("ah", "ch", "dh", "bh"):
            return ("g", reg.num - 4, 8, 8)
        return ("g", reg.num, 0, 8)
    return None


def closure(arch, regs):
    out = []
    for r in regs:
        al = arch.info.alias.get(r)
        for a in (al if al is not None else [r]):
            if a not in out:
                out.append(a)
        if r not in out:
            out.append(r)
    return out


def x86_memory_operand(obj):
    """('mem', base reg or None, index reg or None, disp) | ('rip',) | ('abs',) | None (no memory operand)."""
    for op in type(obj).syntax.formal_arguments:
        if not isinstance(op._cls, tuple):
            continue
        v = getattr(obj, op._name, None)
        n = type(v).__name__
        if n == "RmMem":
            return ("mem", v.reg, None, 0)
        if n == "RmMemDisp":
            return ("mem", v.reg, None, v.disp)
        if n == "RmMemDisp2":
            return ("mem", v.regb, v.regi, v.disp)
        if n == "RmRip":
            return ("rip",)
        if n in ("RmAbs", "RmAbsLabel"):
            return ("abs",)
    return None


def x86_class_category(ci):
    m = ci.mnemonic.lower()
    for cat, names in X86_SKIP_MNEMONICS.items():
        if m in names:
            return cat
    return None


def x86_state(r, mem, rsp):
    from vlib import x86probe as xp
    import struct

    gpr = []
    for i in range(16):
        k = r.random()
        if k < 0.5:
            v = r.getrandbits(64)
        elif k < 0.75:
            v = r.randrange(1, 256)
        else:
            v = r.choice([0, 1, 2, 0x7F, 0x80, 0xFF, 0x7FFF, 0x8000, 0xFFFF, 0x7FFFFFFF, 0x80000000, 0xFFFFFFFF,
                          0x7FFFFFFFFFFFFFFF, 0x8000000000000000, 0xFFFFFFFFFFFFFFFF, 1 << r.randrange(64)])
        gpr.append(v)
    xmm = []
    for i in range(16):
        if r.random() < 0.4:
            xmm.append(r.getrandbits(128))
        elif r.random() < 0.5:
            d0 = r.choice([0.0, 1.0, -1.5, 2.5, 100.25, 3.0e-2, 1e10, -7.0, 123456.789])
            d1 = r.choice([0.0, 1.0, -2.25, 1e-5])
            xmm.append(int.from_bytes(struct.pack("<dd", d0, d1), "little"))
        else:
            fs = [r.choice([0.0, 1.0, -1.5, 2.5, 100.25, 3.0e-2, 1e10, -7.0]) for _ in range(4)]
            xmm.append(int.from_bytes(struct.pack("<ffff", *fs), "little"))
    if mem is not None:
        _, base, index, disp = mem
        M = xp.SCRATCH_MID + 16 * r.randrange(-8, 8)
        if index is not None and base is not None and index.num == base.num:
            gpr[base.num] = ((M - disp) // 2) & 0xFFFFFFFFFFFFFFF8
        else:
            iv = 0
            if index is not None:
                iv = 8 * r.randrange(0, 32)
                gpr[index.num] = iv
            if base is not None:
                gpr[base.num] = (M - disp - iv) & 0xFFFFFFFFFFFFFFFF
    return {"gpr": gpr, "xmm": xmm, "flags": r.getrandbits(12), "seed": r.randrange(1, 1 << 30)}


def bits_of(value, lo, n):
    return (value >> lo) & ((1 << n) - 1)


def run_x86(spec, mon):
    from vlib import isaenum, x86probe as xp
    from checks.c05 import x86_inplace_rm_destination

    arch = isaenum.get_arch("x86_64")
    avoid = spec["avoid"]
    c08_open = open_keys("C08")
    tier = spec["tier"]
    n_inst, n_states = (10, 3) if tier == "quick" else (48, 8)
    # self-test of the trampoline: a nop must leave everything unchanged
    r0 = rng(spec["seed"], PROPERTY, "selftest")
    st = x86_state(r0, None, None)
    res = xp.run_probes([dict(st, code=b"\x90")], tag="c07st")[0]
    same = res.get("fault") == 0 and all(res["gpr"][i] == st["gpr"][i] for i in range(16) if i != 4) \
        and res["xmm"] == st["xmm"] and res["mem"] is None and res["flags"] == st["flags"] & xp.FLAG_MASK \
        and res["gpr"][4] == xp.PROBE_RSP
    if not same:
        mon.inconclusive.append("x86probe self-test failed: nop changed the state (%r)" % (res.get("fault"),))
        return
    mon.obs["x86_probe_selftest"] += 1

    classes = isaenum.classes("x86_64")
    mine = [ci for i, ci in enumerate(classes) if i % spec["nsub"] == spec["sub"]]
    en = isaenum.Enumerator("x86_64", rng(spec["seed"], PROPERTY, "x86/enum/%d" % spec["sub"]))
    jobs = []      # (meta, probe)
    metas = []

    def flush():
        if not jobs:
            return
        results = xp.run_probes([p for _, p in jobs], tag="c07")
        judge_x86(mon, arch, [m for m, _ in jobs], [p for _, p in jobs], results)
        del jobs[:]

    for ci in mine:
        cat = x86_class_category(ci)
        if cat is not None:
            mon.skip_class("x86_64", cat, ci.key)
            continue
        if "x86-implicit-register-operands-undeclared" in avoid and ci.cls.__name__ in X86_IMPLICIT_CLASSES:
            mon.skip_class("x86_64", "avoid:x86-implicit-register-operands-undeclared", ci.key)
            continue
        is_cl_shift = ci.cls.syntax.syntax[-1] == "cl" if ci.cls.syntax.syntax else False
        if "x86-shift-count-cl-undeclared" in avoid and is_cl_shift:
            mon.skip_class("x86_64", "avoid:x86-shift-count-cl-undeclared", ci.key)
            continue
        probed = 0
        for k, inst in enumerate(isaenum.instances(en, ci, n_inst)):
            if inst.obj is None:
                mon.skip_instance("x86_64", "construction-refused")
                continue
            if isaenum.is_virtual(inst.obj):
                mon.skip_class("x86_64", "virtual-pseudo-instruction", ci.key)
                break
            try:
                obj = inst.fresh()
                code = bytes(obj.encode())
                relocs = list(obj.relocations())
                uses = list(obj.used_registers)
                defs = list(obj.defined_registers)
                clob = list(obj.clobbers)
                regs = list(obj.registers)
            except Exception as e:  # noqa  not encodable operand combination: C10's business
                mon.skip_instance("x86_64", "cannot-encode")
                continue
            if relocs:
                mon.skip_instance("x86_64", "relocation(label)")
                continue
            if not 0 < len(code) <= 15:
                mon.skip_instance("x86_64", "length")
                continue
            allregs = regs + uses + defs + clob
            phys = [x86_phys(x) for x in allregs]
            if any(p is None for p in phys):
                mon.skip_instance("x86_64", "rip/unknown-register")
                continue
            if any(p[0] == "g" and p[1] == 4 for p in phys):
                mon.skip_instance("x86_64", "names-stack-pointer")
                continue
            if "x86-high-byte-register-with-rex" in c08_open and any(x.name in ("ah", "ch", "dh", "bh") for x in allregs):
                mon.skip_instance("x86_64", "high-byte-register (C08 x86-high-byte-register-with-rex)")
                continue
            mem = x86_memory_operand(obj)
            if mem is not None and mem[0] != "mem":
                mon.skip_instance("x86_64", "pc-relative" if mem[0] == "rip" else "absolute-address")
                continue
            if "x86-rm-register-destination-write-undeclared" in avoid and x86_inplace_rm_destination(obj) is not None:
                mon.skip_instance("x86_64", "avoid:x86-rm-register-destination-write-undeclared")
                continue
            use_cl = closure(arch, uses)
            def_cl = closure(arch, defs + clob)
            use_fam = {x86_phys(x)[:2] for x in use_cl}
            may_change = {x86_phys(x)[:2] for x in def_cl}
            outputs = [x86_phys(x) for x in defs]
            probed += 1
            mon.bump(mon.obs["instances"], "x86_64")
            for s in range(n_states):
                r = rng(spec["seed"], PROPERTY, "x86/%s/%d/%d" % (ci.key, k, s))
                st = x86_state(r, mem, None)
                base_meta = {"ci": ci.key, "inst": inst, "code": code, "state": s, "kind": "base", "uses": uses, "defs": defs,
                             "clob": clob, "may_change": may_change, "outputs": outputs, "group": len(metas)}
                metas.append(base_meta)
                jobs.append((base_meta, dict(st, code=code)))
                for kind, n in (("g", 16), ("x", 16)):
                    for idx in range(n):
                        if (kind, idx) in use_fam or (kind == "g" and idx == 4):
                            continue
                        p = {"gpr": list(st["gpr"]), "xmm": list(st["xmm"]), "flags": st["flags"], "seed": st["seed"],
                             "code": code}
                        if kind == "g":
                            nv = r.getrandbits(64)
                            p["gpr"][idx] = nv if nv != st["gpr"][idx] else nv ^ 0x5555
                        else:
                            p["xmm"][idx] = st["xmm"][idx] ^ (r.getrandbits(128) | 1)
                        jobs.append(({"kind": "pert", "base": base_meta, "reg": (kind, idx)}, p))
            if len(jobs) >= 12000:
                flush()
        if probed:
            mon.bump(mon.obs["classes_probed"], "x86_64")
    flush()


def regname(kind, idx):
    from vlib import x86probe as xp

    return xp.GPR_NAMES[idx] if kind == "g" else "xmm%d" % idx


def judge_x86(mon, arch, metas, probes, results):
    from vlib import x86probe as xp

    base_res = {}
    for m, p, q in zip(metas, probes, results):
        if m["kind"] != "base":
            continue
        base_res[id(m)] = (p, q)
        key = "x86_64/" + m["ci"]
        if q is None or q.get("fault") == -1:
            mon.discard("x86: probe killed the host")
            continue
        if q["fault"]:
            mon.bump(mon.obs["faulting_base_runs"], "x86_64:signal %d" % q["fault"])
            mon.discard("x86: base run faults")
            continue
        mon.evals += 1
        mon.obs["base_runs_compared"] += 1
        mon.bump(mon.obs["probes_per_class"], key)
        changed = []
        for i in range(16):
            if i != 4 and q["gpr"][i] != p["gpr"][i]:
                changed.append(("g", i))
            if q["xmm"][i] != p["xmm"][i]:
                changed.append(("x", i))
        if changed or q["mem"] is not None:
            mon.hashes.add(h(["x86_64", m["ci"], m["inst"].assignment]))
        if any(o[3] < (64 if o[0] == "g" else 128) for o in m["outputs"]):
            mon.obs["partial_register_outputs"] += 1
        bad = [c for c in changed if c not in m["may_change"]]
        if bad:
            c = bad[0]
            before = p["gpr"][c[1]] if c[0] == "g" else p["xmm"][c[1]]
            after = q["gpr"][c[1]] if c[0] == "g" else q["xmm"][c[1]]
            mon.violation("a/x86_64/%s/%s" % (m["ci"], regname(*c)),
                          "x86_64 %s `%s` (%s): register %s changed %#x -> %#x but is outside the alias closure of "
                          "defined_registers %s + clobbers %s" % (m["ci"], m["inst"].text, m["code"].hex(), regname(*c),
                                                                   before, after, [str(x) for x in m["defs"]],
                                                                   [str(x) for x in m["clob"]]),
                          {"event": "a", "instance": m["inst"].describe(), "code": m["code"].hex(),
                           "declared": {"uses": [str(x) for x in m["uses"]], "defs": [str(x) for x in m["defs"]],
                                        "clobbers": [str(x) for x in m["clob"]]},
                           "changed": [regname(*c2) for c2 in changed], "state": {"gpr": p["gpr"], "flags": p["flags"]}})
        if len(mon.samples) < 2 and changed and m["state"] == 1:
            mon.samples.append({"arch": "x86_64", "class": m["ci"], "text": m["inst"].text, "code": m["code"].hex(),
                                "declared_uses": [str(x) for x in m["uses"]], "declared_defs": [str(x) for x in m["defs"]],
                                "changed": [regname(*c2) for c2 in changed]})
    for m, p, q in zip(metas, probes, results):
        if m["kind"] != "pert":
            continue
        b = m["base"]
        bp, bq = base_res.get(id(b), (None, None))
        if bq is None or bq.get("fault") != 0 or q is None or q.get("fault") == -1:
            continue
        mon.evals += 1
        mon.obs["perturbations_compared"] += 1
        diff = None
        if q["fault"]:
            diff = "faults (signal %d) although the unperturbed state does not" % q["fault"]
        else:
            for o, d in zip(b["outputs"], b["defs"]):
                src_b = bq["gpr"][o[1]] if o[0] == "g" else bq["xmm"][o[1]]
                src_q = q["gpr"][o[1]] if o[0] == "g" else q["xmm"][o[1]]
                if bits_of(src_b, o[2], o[3]) != bits_of(src_q, o[2], o[3]):
                    diff = "declared output %s = %#x, unperturbed %#x" % (d, bits_of(src_q, o[2], o[3]),
                                                                        bits_of(src_b, o[2], o[3]))
                    break
            if diff is None and q["mem"] != bq["mem"]:
                diff = "memory effect %r, unperturbed %r" % (q["mem"] and (q["mem"][0], q["mem"][1], q["mem"][2].hex()),
                                                            bq["mem"] and (bq["mem"][0], bq["mem"][1], bq["mem"][2].hex()))
            if bq["mem"] is not None:
                mon.obs["memory_effects_compared"] += 1
        if diff:
            mon.violation("b/x86_64/%s/%s" % (b["ci"], regname(*m["reg"])),
                          "x86_64 %s `%s` (%s): perturbing %s, which is outside the alias closure of used_registers %s, "
                          "changes the behaviour: %s" % (b["ci"], b["inst"].text, b["code"].hex(), regname(*m["reg"]),
                                                        [str(x) for x in b["uses"]], diff),
                          {"event": "b", "instance": b["inst"].describe(), "code": b["code"].hex(),
                           "declared": {"uses": [str(x) for x in b["uses"]], "defs": [str(x) for x in b["defs"]],
                                        "clobbers": [str(x) for x in b["clob"]]},
                           "perturbed": regname(*m["reg"]), "difference": diff,
                           "state": {"gpr": bp["gpr"], "flags": bp["flags"]}})


# --------------------------------------------------------------------------
# RISC-V

RV_CODE = 0x10000
RV_RAM = 0x20000000
RV_RAM_SIZE = 0x4000
RV_MID = RV_RAM + 0x2000


def rv_state(r):
    x = [0] * 32
    for i in range(1, 32):
        k = r.random()
        if k < 0.5:
            x[i] = r.getrandbits(32)
        elif k < 0.75:
            x[i] = r.randrange(1, 64)
        else:
            x[i] = r.choice([0, 1, 0x7FF, 0x800, 0xFFF, 0x7FFFFFFF, 0x80000000, 0xFFFFFFFF, 1 << r.randrange(32)])
    return x


def rv_step(mach, code, x, fill):
    from vlib import rv32emu

    mach.load_image(RV_RAM, fill)
    mach.load_image(RV_CODE, code + bytes(8))
    for i in range(1, 32):
        mach.x[i] = x[i]
    mach.pc = RV_CODE
    try:
        mach.step()
    except rv32emu.Fault as e:
        return {"fault": e.kind}
    return {"fault": None, "x": list(mach.x), "pc": mach.pc, "reads": set(mach.last_reads), "writes": set(mach.last_writes),
            "mem_writes": list(mach.last_mem_writes), "mem_reads": list(mach.last_mem_reads)}


def run_rv(spec, mon):
    from vlib import isaenum, rv32emu

    target = spec["target"]
    arch = isaenum.get_arch(target)
    tier = spec["tier"]
    n_inst, n_states = (40, 4) if tier == "quick" else (200, 12)
    classes = isaenum.classes(target)
    mine = [ci for i, ci in enumerate(classes) if i % spec["nsub"] == spec["sub"]]
    en = isaenum.Enumerator(target, rng(spec["seed"], PROPERTY, "rv/enum/%s/%d" % (target, spec["sub"])))
    mach = rv32emu.Machine()
    mach.add_region(RV_CODE, 64, writable=False, name="code")
    mach.add_region(RV_RAM, RV_RAM_SIZE, writable=True, name="ram")
    c08_open = set(open_keys("C08")) & {"rvc-compressed-register-wraps", "rvc-two-address-source-not-encoded",
                                         "rvc-reserved-encodings-accepted"}
    avoid = spec["avoid"]
    for ci in mine:
        probed = 0
        reasons = {}

        def skip(reason):
            mon.skip_instance(target, reason)
            reasons[reason] = reasons.get(reason, 0) + 1

        if ci.cls.__module__.endswith("data_instructions"):
            mon.skip_class(target, "data-directive", ci.key)
            continue
        if "rvc-two-address-destination-read-undeclared" in avoid and ci.cls.__name__ in RVC_TWO_ADDRESS:
            mon.skip_class(target, "avoid:rvc-two-address-destination-read-undeclared", ci.key)
            continue
        for k, inst in enumerate(isaenum.instances(en, ci, n_inst)):
            if inst.obj is None:
                skip("construction-refused")
                continue
            if isaenum.is_virtual(inst.obj):
                skip("virtual-pseudo-instruction")
                break
            try:
                obj = inst.fresh()
                code = bytes(obj.encode())
                relocs = list(obj.relocations())
                uses = list(obj.used_registers)
                defs = list(obj.defined_registers)
                clob = list(obj.clobbers)
                regs = list(obj.registers)
            except Exception:  # noqa  (C10's business) / pseudo instructions rendering several instructions
                skip("cannot-encode")
                continue
            if relocs:
                skip("relocation(label)")
                continue
            if len(code) not in (2, 4):
                skip("data-directive-or-multi-instruction")
                break
            insn = rv32emu.decode(code + bytes(4))
            if insn.length != len(code):
                skip("length-differs-from-decoder")
                continue
            if insn.is_illegal:
                fp = any(type(x).__name__ != "RiscvRegister" for x in regs + uses + defs)
                skip("floating-point (F/D not in the emulator)" if fp else "emulator: reserved/illegal encoding")
                continue
            mn = insn.mnemonic
            if mn in RV_CONTROL:
                skip("control-flow")
                continue
            if mn in RV_SYSTEM:
                skip("system")
                continue
            if mn in RV_SP:
                skip("stack-pointer-relative")
                continue
            if any(type(x).__name__ != "RiscvRegister" for x in regs + uses + defs + clob):
                skip("non-integer register")
                continue
            if any(x.num == 2 for x in regs + uses + defs + clob):
                skip("names-stack-pointer")
                continue
            named = {x.num for x in regs}
            decoded = {v for v in (insn.rd, insn.rs1, insn.rs2) if v is not None}
            if c08_open and named != decoded and named != decoded - {0}:
                # the encoding addresses other registers than the operands (C08's open RVC findings): the
                # annotation of the instruction ppci believes it emits cannot be judged on this encoding
                skip("encoding names other registers (C08 %s)" % ",".join(sorted(c08_open)))
                continue
            e = insn.expanded or insn
            use_n = {x.num for x in closure(arch, uses)}
            def_n = {x.num for x in closure(arch, defs + clob)}
            out_n = [x.num for x in defs]
            probed += 1
            mon.bump(mon.obs["instances"], target)
            for s in range(n_states):
                r = rng(spec["seed"], PROPERTY, "rv/%s/%s/%d/%d" % (target, ci.key, k, s))
                x = rv_state(r)
                fill = r.randbytes(RV_RAM_SIZE) if hasattr(r, "randbytes") else bytes(r.getrandbits(8) for _ in range(RV_RAM_SIZE))
                if e.mnemonic in RV_MEM and e.rs1:
                    x[e.rs1] = (RV_MID + 16 * r.randrange(-8, 8) - (e.imm or 0)) & 0xFFFFFFFF
                base = rv_step(mach, code, x, fill)
                if base["fault"]:
                    mon.bump(mon.obs["faulting_base_runs"], "%s:%s" % (target, base["fault"]))
                    mon.discard("rv: base run faults")
                    continue
                mon.evals += 1
                mon.obs["base_runs_compared"] += 1
                mon.bump(mon.obs["probes_per_class"], "%s/%s" % (target, ci.key))
                changed = [i for i in range(32) if base["x"][i] != x[i]]
                if changed or base["mem_writes"]:
                    mon.hashes.add(h([target, ci.key, inst.assignment]))
                case = {"instance": inst.describe(), "code": code.hex(), "decoded": rv32emu.disasm(insn),
                        "declared": {"uses": [str(u) for u in uses], "defs": [str(u) for u in defs],
                                     "clobbers": [str(u) for u in clob]}, "state": x}
                bad = [i for i in changed if i not in def_n]
                if bad:
                    mon.violation("a/%s/%s/x%d" % (target, ci.key, bad[0]),
                                  "%s %s `%s` (%s = %s): register x%d changed %#x -> %#x but is not among "
                                  "defined_registers %s + clobbers %s" % (target, ci.key, inst.text, code.hex(),
                                                                          rv32emu.disasm(insn), bad[0], x[bad[0]], base["x"][bad[0]],
                                                                          [str(u) for u in defs], [str(u) for u in clob]),
                                  dict(case, event="a", changed=["x%d" % i for i in changed]))
                if base["pc"] != RV_CODE + len(code):
                    mon.discard("rv: pc not sequential (control flow not in the skip list)")
                cands = sorted(base["reads"] - use_n - {0, 2})
                mon.obs["rv_read_candidates"] += len(cands)
                for c in cands:
                    x2 = list(x)
                    nv = r.getrandbits(32)
                    x2[c] = nv if nv != x[c] else nv ^ 0x55
                    q = rv_step(mach, code, x2, fill)
                    mon.evals += 1
                    mon.obs["perturbations_compared"] += 1
                    diff = None
                    if q["fault"]:
                        diff = "faults (%s) although the unperturbed state does not" % q["fault"]
                    else:
                        for d in out_n:
                            if q["x"][d] != base["x"][d]:
                                diff = "declared output x%d = %#x, unperturbed %#x" % (d, q["x"][d], base["x"][d])
                                break
                        if diff is None and q["mem_writes"] != base["mem_writes"]:
                            diff = "memory writes %r, unperturbed %r" % (q["mem_writes"], base["mem_writes"])
                    if diff:
                        mon.violation("b/%s/%s/x%d" % (target, ci.key, c),
                                      "%s %s `%s` (%s = %s): perturbing x%d, which the instruction reads but used_registers %s "
                                      "does not list, changes the behaviour: %s" % (target, ci.key, inst.text, code.hex(),
                                                                                    rv32emu.disasm(insn), c,
                                                                                    [str(u) for u in uses], diff),
                                      dict(case, event="b", perturbed="x%d" % c, difference=diff))
                # registers that are not read cannot matter; one control perturbation documents that assumption
                others = [i for i in range(1, 32) if i not in base["reads"] and i not in use_n and i != 2]
                if others and s == 0:
                    c = r.choice(others)
                    x2 = list(x)
                    x2[c] ^= 0xA5A5A5A5
                    q = rv_step(mach, code, x2, fill)
                    mon.evals += 1
                    mon.obs["perturbations_compared"] += 1
                    if not q["fault"] and (any(q["x"][d] != base["x"][d] for d in out_n) or q["mem_writes"] != base["mem_writes"]):
                        mon.violation("b/%s/%s/x%d" % (target, ci.key, c),
                                      "%s %s `%s`: perturbing unread register x%d changes the declared outputs" % (
                                          target, ci.key, inst.text, c), dict(case, event="b", perturbed="x%d" % c))
                if base["mem_writes"] or base["mem_reads"]:
                    mon.obs["memory_effects_compared"] += 1
                if len(mon.samples) < 2 and changed and s == 1:
                    mon.samples.append({"arch": target, "class": ci.key, "text": inst.text, "code": code.hex(),
                                        "decoded": rv32emu.disasm(insn), "declared_uses": [str(u) for u in uses],
                                        "declared_defs": [str(u) for u in defs], "changed": ["x%d" % i for i in changed],
                                        "read": sorted(base["reads"])})
        if probed:
            mon.bump(mon.obs["classes_probed"], target)
        elif reasons:
            mon.skip_class(target, max(sorted(reasons), key=lambda k2: reasons[k2]), ci.key)


def run_shard(spec):
    setup()
    mon = Mon(spec)
    for t in ("x86_64", "riscv", "riscv:rvc"):
        mon.obs["classes_probed"].setdefault(t, 0)
    if spec["part"] == "x86":
        run_x86(spec, mon)
    else:
        run_rv(spec, mon)
    return mon.result()


# --------------------------------------------------------------------------
# witness probes


def _x86_run(obj, gpr_over, perturb=None):
    from vlib import x86probe as xp

    st = {"gpr": [0x1000 + 17 * i for i in range(16)], "xmm": [i + 1 for i in range(16)], "flags": 0, "seed": 5}
    for k, v in gpr_over.items():
        st["gpr"][k] = v
    code = bytes(obj.encode())
    probes = [dict(st, code=code)]
    if perturb:
        p = dict(st, code=code, gpr=list(st["gpr"]))
        p["gpr"][perturb[0]] = perturb[1]
        probes.append(p)
    res = xp.run_probes(probes, tag="c07probe")
    if any(q is None or q.get("fault") for q in res):
        raise RuntimeError("witness probe faulted: %r" % [q and q.get("fault") for q in res])
    return st, res


def probe_x86_rm_destination():
    setup()
    from vlib import isaenum
    from ppci.arch.x86_64.instructions import bits64, RmReg64
    from ppci.arch.x86_64.registers import rbx

    arch = isaenum.get_arch("x86_64")
    obj = bits64.NegRm(RmReg64(rbx))
    st, (q,) = _x86_run(obj, {3: 5})
    may = {x86_phys(x)[:2] for x in closure(arch, list(obj.defined_registers) + list(obj.clobbers))}
    if q["gpr"][3] != st["gpr"][3] and ("g", 3) not in may:
        return "`%s`: rbx changed %#x -> %#x, defined_registers = %s" % (obj, st["gpr"][3], q["gpr"][3],
                                                                        [str(x) for x in obj.defined_registers])
    return None


def probe_x86_shift_cl():
    setup()
    from vlib import isaenum, x86probe as xp
    from ppci.arch.x86_64.instructions import bits64, RmMem
    from ppci.arch.x86_64.registers import rbx

    arch = isaenum.get_arch("x86_64")
    obj = bits64.ShlCl(RmMem(rbx))
    st, (q0, q1) = _x86_run(obj, {3: xp.SCRATCH_MID, 1: 1}, perturb=(1, 2))
    uses = {x86_phys(x)[:2] for x in closure(arch, list(obj.used_registers))}
    if ("g", 1) not in uses and q0["mem"] != q1["mem"]:
        return "`%s`: rcx = 1 / 2 gives memory %s / %s, used_registers = %s" % (
            obj, q0["mem"] and q0["mem"][2].hex(), q1["mem"] and q1["mem"][2].hex(), [str(x) for x in obj.used_registers])
    return None


def probe_x86_implicit():
    setup()
    from vlib import isaenum
    from ppci.arch.x86_64.instructions import Idiv
    from ppci.arch.x86_64.registers import rbx

    arch = isaenum.get_arch("x86_64")
    obj = Idiv(rbx)
    st, (q,) = _x86_run(obj, {0: 100, 2: 0, 3: 7})
    may = {x86_phys(x)[:2] for x in closure(arch, list(obj.defined_registers) + list(obj.clobbers))}
    bad = [n for n, i in (("rax", 0), ("rdx", 2)) if q["gpr"][i] != st["gpr"][i] and ("g", i) not in may]
    if bad:
        return "`%s`: %s changed (rax %d -> %d, rdx %d -> %d), defined_registers = %s" % (
            obj, "/".join(bad), st["gpr"][0], q["gpr"][0], st["gpr"][2], q["gpr"][2], [str(x) for x in obj.defined_registers])
    return None


def probe_rvc_two_address():
    setup()
    from vlib import rv32emu
    from ppci.arch.riscv.rvc_instructions import CAddi
    from ppci.arch.riscv.registers import R9

    obj = CAddi(R9, R9, 3)
    code = bytes(obj.encode())
    mach = rv32emu.Machine()
    mach.add_region(RV_CODE, 64, writable=False, name="code")
    mach.add_region(RV_RAM, RV_RAM_SIZE, writable=True, name="ram")
    x = [0] * 32
    x[9] = 5
    a = rv_step(mach, code, x, bytes(RV_RAM_SIZE))
    x[9] = 6
    b = rv_step(mach, code, x, bytes(RV_RAM_SIZE))
    if a["fault"] or b["fault"]:
        raise RuntimeError("witness faulted")
    uses = {r.num for r in obj.used_registers}
    if 9 not in uses and a["x"][9] != b["x"][9]:
        return "`%s` (%s): x9 = 5 / 6 gives x9 = %d / %d, used_registers = %s" % (
            obj, code.hex(), a["x"][9], b["x"][9], [str(r) for r in obj.used_registers])
    return None


PROBES = {
    "x86-rm-register-destination-write-undeclared": probe_x86_rm_destination,
    "x86-shift-count-cl-undeclared": probe_x86_shift_cl,
    "x86-implicit-register-operands-undeclared": probe_x86_implicit,
    "rvc-two-address-destination-read-undeclared": probe_rvc_two_address,
}
