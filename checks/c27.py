"""C27 integer constant expressions are evaluated as C prescribes (DESIGN 4, C27).

Monitor: a generated translation unit of a few hundred self-contained items (initialised
globals of every integer type, arrays, structs, bit-field structs, enums, array
bounds; vlib/cexprgen.py) is compiled with gcc -c and the initial bytes (and
size) of every observed global are read from the object file's data symbols; the
same declarations go through ppci.api.c_to_ir(..., x86_64) and the bytes in
ir.Module.variables[i].value (and Variable.amount) are compared.  A
non-diagnostic exception from c_to_ir is a refuting event as well.  A second
part compiles functions that `switch` over constant-expression case labels with
ppci (cc -> relocatable ELF -> gcc links a driver) and compares the arm taken
for each label value and its neighbours with the gcc-compiled function.

Oracle flags: `gcc -std=c99 -pedantic-errors` (NOT -Wno-overflow as DESIGN says:
with it gcc no longer rejects signed overflow in a constant expression, without
it an out-of-range *conversion* is still only a warning, which is what the
property needs).  Items gcc rejects are dropped from the unit and counted.

Scope narrowed (stated, see also vlib/cexprgen.py): x86-64 sizes only; floating
operands only as immediate cast operands; no literal whose suffix type is too
narrow for its value (ppci answers
with a diagnostic; diagnostics are discards, not refuting events, per DESIGN);
struct items use fields of one type (layout is C01's business) and bit-field
structs are compared modulo trailing zero bytes (ppci's struct size lacks the
storage-unit padding; values and widths are what is judged); the switch part
is observed by native execution instead of refinterp (deferred helper).
Constructs covered by an open finding are not generated (tags in cexprgen);
the thorough tier additionally runs an unrestricted sweep in which only
untagged items are judged and tagged ones are tallied per finding key.
"""
import os
import subprocess

from vlib.core import rng, h
from vlib import cexprgen as G

PROPERTY = "C27"
RULE = ("cexprgen builds constant-expression trees bottom-up over literals of every C99 literal type "
        "(decimal/hex/octal, all suffixes), character constants, sizeof(type), sizeof(expr), enumerators, "
        "casts to the 11 integer types, float-literal casts, + - * / % << >> & | ^ ~ - + ! < <= > >= == != "
        "&& || ?: (incl. unevaluated operands that divide by zero), evaluating each node with C rules so "
        "no tree has UB; trees initialise scalars/arrays/structs of each integer type, bit-fields (value "
        "and width), enumerators (also into narrower objects), array bounds and case labels; plus initialisers "
        "whose expression type differs from the object: integer constants cast to pointers (negative, huge, "
        "through narrower integer types; scalars, arrays, struct members), string literals with \\377 \\200 "
        "\\xff into char/signed char/unsigned char arrays (unsized, exact, wider), integer expressions into "
        "float/double, floating literals into integers, pointer+long+char-array aggregates (nested, "
        "designated). non-trivial = item whose trees contain "
        ">= 1 operator; distinct by hash of (kind, destination type, expression texts)")
ASSUMPTIONS = ["gcc 12 -std=c99 -pedantic-errors -O0 evaluates integer constant expressions per C99 on x86-64",
               "the bytes of a data symbol in gcc's relocatable object (read by a 40-line ELF64 symbol reader) are the object's initial image",
               "gcc can link ppci's relocatable x86-64 ELF with a C driver (switch part only)"]
MANIFEST_ENTRY = {
    "text": ("Global initialisers, array elements, struct fields, bit-field values and widths, enumerators, "
             "array bounds and switch case labels built from generated integer constant expressions get the "
             "bytes/values gcc gives them; c_to_ir never answers such an expression with an internal error."),
    "note": ("x86-64 sizes; operators and conversions covered by open findings (missing % < ! && ?: ..., floor "
             "division, no wrap to the operand type, pack() rejecting out-of-range values, char-constant/"
             "shift/promotion/decimal-literal typing) are not generated until fixed, which leaves + - * / "
             "<< >> & | ^ ~ casts and sizeof over non-wrapping values; trusted base: gcc."),
    "technique": "runtime monitoring: gcc-built memory image / switch arm as oracle over cexprgen translation units",
}
SHARD_TIMEOUT = {"quick": 600, "thorough": 3 * 3600}


def EXHAUSTIVE(tier):
    return False


def plan(tier, seed, avoid):
    # process spawns (gcc) dominate the cost: few, large translation units
    if tier == "quick":
        specs = [{"part": "init", "shard": i, "units": 2, "items": 350} for i in range(12)]
        specs += [{"part": "switch", "shard": i, "units": 1, "funs": 24} for i in range(4)]
    else:
        specs = [{"part": "init", "shard": i, "units": 20, "items": 500} for i in range(32)]
        specs += [{"part": "switch", "shard": i, "units": 6, "funs": 40} for i in range(8)]
        specs += [{"part": "init", "shard": 1000 + i, "units": 4, "items": 400, "unrestricted": True} for i in range(8)]
    return specs


def floors(tier):
    big = tier != "quick"
    return {"evaluations": 200000 if big else 5000,
            "distinct_nontrivial": 150000 if big else 4000,
            "observed.kind.scalar": 1000, "observed.kind.array": 250, "observed.kind.struct": 250,
            "observed.kind.bitfield": 250, "observed.kind.enum": 250, "observed.kind.arraysize": 250,
            "observed.dest": 11,
            "observed.switch.probes": 5000 if big else 300,
            "observed.switch.labels_hit": 1000 if big else 60}


# ---- gcc side -----------------------------------------------------------------------

GCC = ["gcc", "-std=c99", "-pedantic-errors", "-O0"]


def elf_objects(path):
    """{symbol: bytes} for every sized data object of a relocatable ELF64 (little endian).
    .bss objects read as zeros.  40 lines of struct.unpack instead of a linked executable that
    prints the objects: no link step, same bytes (integer data carries no relocations)."""
    import struct
    with open(path, "rb") as f:
        d = f.read()
    if d[:6] != b"\x7fELF\x02\x01":
        raise ValueError("not a little-endian ELF64")
    shoff, = struct.unpack_from("<Q", d, 0x28)
    shentsize, shnum, shstrndx = struct.unpack_from("<HHH", d, 0x3A)
    secs = []
    for i in range(shnum):
        name, typ, flags, addr, off, size, link, info, align, entsize = struct.unpack_from(
            "<IIQQQQIIQQ", d, shoff + i * shentsize)
        secs.append((name, typ, off, size, link, entsize))
    out = {}
    for name, typ, off, size, link, entsize in secs:
        if typ != 2:  # SHT_SYMTAB
            continue
        stroff = secs[link][2]
        for k in range(size // entsize):
            st_name, st_info, st_other, st_shndx, st_value, st_size = struct.unpack_from(
                "<IBBHQQ", d, off + k * entsize)
            if st_info & 0xF != 1 or st_shndx == 0 or st_shndx >= 0xFF00:  # STT_OBJECT, defined
                continue
            end = d.index(b"\0", stroff + st_name)
            sym = d[stroff + st_name:end].decode()
            _, styp, soff, ssize, _, _ = secs[st_shndx]
            if styp == 8:  # SHT_NOBITS
                out[sym] = bytes(st_size)
            else:
                out[sym] = d[soff + st_value:soff + st_value + st_size]
    return out


def gcc_images(items, tmp, tag, disc):
    """Compile the unit with gcc and read every observed object's initial bytes from the object
    file; returns (kept items, {name: bytes}, {name: size}).  Items gcc rejects are dropped
    (counted) and the rest is retried."""
    items = list(items)
    for _round in range(4):
        if not items:
            return [], {}, {}
        lines, owner = [], {}
        for it in items:
            for ln in it.decl.split("\n"):
                lines.append(ln)
                owner[len(lines)] = it
        src = os.path.join(tmp, "%s.c" % tag)
        obj = os.path.join(tmp, "%s.o" % tag)
        with open(src, "w") as f:
            f.write("\n".join(lines) + "\n")
        try:
            p = subprocess.run(GCC + ["-fno-common", "-c", src, "-o", obj], capture_output=True, text=True,
                               timeout=300)
        except subprocess.TimeoutExpired:
            disc["gcc-timeout"] = disc.get("gcc-timeout", 0) + len(items)
            return [], {}, {}
        if p.returncode == 0:
            try:
                objs = elf_objects(obj)
            finally:
                _rm(obj)
                _rm(src)
            imgs, sizes = {}, {}
            for it in items:
                for name, _ in it.observe:
                    if name in objs:
                        imgs[name] = objs[name]
                for name, _ in it.sizes:
                    if name in objs:
                        sizes[name] = len(objs[name])
            return items, imgs, sizes
        bad = set()
        for ln in p.stderr.split("\n"):
            if " error" in ln and ln.startswith(src + ":"):
                try:
                    no = int(ln[len(src) + 1:].split(":")[0])
                except ValueError:
                    continue
                if no in owner:
                    bad.add(id(owner[no]))
                    why = ln.split("error:")[-1].strip()[:60]
                    disc["gcc: " + why] = disc.get("gcc: " + why, 0) + 1
        if not bad:
            disc["gcc-unlocated-error"] = disc.get("gcc-unlocated-error", 0) + len(items)
            return [], {}, {}
        disc["gcc-rejects"] = disc.get("gcc-rejects", 0) + len(bad)
        items = [it for it in items if id(it) not in bad]
    disc["gcc-retries-exhausted"] = disc.get("gcc-retries-exhausted", 0) + len(items)
    return [], {}, {}


def _rm(path):
    try:
        os.unlink(path)
    except OSError:
        pass


# ---- ppci side ----------------------------------------------------------------------

def is_diagnostic(e):
    from ppci.common import CompilerError
    try:
        from ppci.build.tasks import TaskError
    except Exception:  # noqa
        TaskError = ()
    return isinstance(e, CompilerError) or (TaskError and isinstance(e, TaskError))


def site(e):
    import traceback
    tb = traceback.extract_tb(e.__traceback__)
    fr = tb[-1]
    return "%s in %s (%s)" % (type(e).__name__, fr.name, os.path.basename(fr.filename))


def ppci_vars(src, arch):
    """-> ('ok', {name: (bytes|None|'reloc', amount)}) | ('diag', msg) | ('internal', site, msg)"""
    import io
    from ppci.api import c_to_ir
    try:
        m = c_to_ir(io.StringIO(src), arch)
    except Exception as e:  # noqa - judged by the caller
        if is_diagnostic(e):
            return ("diag", str(getattr(e, "msg", e))[:80])
        return ("internal", site(e), "%s: %s" % (type(e).__name__, str(e)[:120]))
    out = {}
    for v in m.variables:
        val = v.value
        if val is None:
            img = None
        elif isinstance(val, bytes):
            img = val
        else:
            img = b""
            for part in val:
                if isinstance(part, bytes):
                    img += part
                else:
                    img = "reloc"
                    break
        out[v.name] = (img, v.amount)
    return ("ok", out)


def loose_equal(a, b):
    n = max(len(a), len(b))
    return a.ljust(n, b"\0") == b.ljust(n, b"\0")


class Mon:
    def __init__(self):
        self.evals = 0
        self.hashes = []
        self.obs = {"kind": {}, "dest": {}, "op": {}, "outcome": {}, "features": {}}
        self.disc = {}
        self.viol = []
        self.samples = []

    def bump(self, group, key, n=1):
        d = self.obs.setdefault(group, {})
        d[key] = d.get(key, 0) + n

    def violation(self, summary, case):
        self.bump("outcome", "violation")
        if len(self.viol) < 6:
            self.viol.append({"summary": summary, "case": case})

    def result(self):
        return {"evaluations": self.evals, "nontrivial_hashes": self.hashes, "observed": self.obs,
                "discarded": self.disc, "violations": self.viol, "samples": self.samples[:3]}


def judge_item(m, it, pres, imgs, sizes, judged=True):
    """Compare one item; returns True if it agreed. judged=False: tally only (unrestricted sweep)."""
    case = {"decl": it.decl, "kind": it.kind, "tags": sorted(it.tags)}
    if pres[0] == "diag":
        m.disc["ppci-diagnostic"] = m.disc.get("ppci-diagnostic", 0) + 1
        m.bump("diagnostics", pres[1][:50])
        return None
    if pres[0] == "internal":
        if judged:
            m.evals += 1
            m.violation("c_to_ir raised %s on valid constant expression: %s" % (pres[1], it.decl[:160]),
                        dict(case, ppci=pres[2], site=pres[1]))
        return False
    pv = pres[1]
    ok = True
    compared = 0
    for name, model in it.observe:
        if name not in imgs:
            m.disc["gcc-no-image"] = m.disc.get("gcc-no-image", 0) + 1
            return None
        want = imgs[name]
        if want != model and not (it.loose and loose_equal(want, model)):
            # generator's own evaluation disagrees with gcc: my model is wrong, do not judge ppci
            m.disc["model-vs-gcc-disagree"] = m.disc.get("model-vs-gcc-disagree", 0) + 1
            return None
    for name, want_size in it.sizes:
        if sizes.get(name) != want_size:
            m.disc["model-vs-gcc-disagree"] = m.disc.get("model-vs-gcc-disagree", 0) + 1
            return None
    for name, _ in it.observe:
        want = imgs[name]
        got = pv.get(name, ("missing", 0))[0]
        compared += 1
        same = isinstance(got, bytes) and (loose_equal(got, want) if it.loose else got == want)
        if not same:
            ok = False
            if judged:
                m.violation("%s: ppci image %s, gcc image %s | %s" % (
                    name, got.hex() if isinstance(got, bytes) else got, want.hex(), it.decl[:160]),
                    dict(case, name=name, ppci=got.hex() if isinstance(got, bytes) else repr(got),
                         gcc=want.hex()))
            break
    if ok:
        for name, _ in it.sizes:
            compared += 1
            got = pv.get(name, (None, None))[1]
            if got != sizes[name]:
                ok = False
                if judged:
                    m.violation("%s: ppci allocates %s bytes, gcc sizeof is %s | %s" % (
                        name, got, sizes[name], it.decl[:160]), dict(case, name=name, ppci=got, gcc=sizes[name]))
                break
    if judged:
        m.evals += 1
        if it.nops:
            m.hashes.append(h(it.key()))
        m.bump("kind", it.kind)
        m.bump("dest", it.dest)
        for op, t in it.ops:
            m.bump("op", "%s:%s" % (op, t))
        for e in it.exprs:
            if e.value < 0:
                m.bump("features", "negative-value")
            if it.dest in G.TYPES and not G.fits(e.value, it.dest):
                m.bump("features", "out-of-range-for-destination")
        if any(op in ("/", "%") for op, _ in it.ops) and any(e.value < 0 for e in it.exprs):
            m.bump("features", "division-in-negative-tree")
        if ok:
            m.bump("outcome", "agree")
    return ok


def run_init(spec, m):
    from ppci.api import get_arch
    import logging
    logging.disable(logging.CRITICAL)
    arch = get_arch("x86_64")
    tmp = os.environ.get("VERIF_TMP") or os.getcwd()
    unrestricted = bool(spec.get("unrestricted"))
    avoid = frozenset() if unrestricted else frozenset(spec["avoid"])
    open_keys = frozenset(spec["avoid"])
    for u in range(spec["units"]):
        uid = "%s-%s" % (spec["shard"], u)
        r = rng(spec["seed"], PROPERTY, "init/" + uid)
        items = [G.gen_item(r, i, avoid) for i in range(spec.get("items", 40))]
        kept, imgs, sizes = gcc_images(items, tmp, "u" + uid.replace("-", "_"), m.disc)
        if not kept:
            continue
        whole = ppci_vars("\n".join(it.decl for it in kept) + "\n", arch)
        m.bump("outcome", "unit-" + whole[0])
        for it in kept:
            pres = whole
            if whole[0] != "ok":
                pres = ppci_vars(it.decl + "\n", arch)   # localise
            known = it.tags & open_keys
            if unrestricted and known:
                ok = judge_item(m, it, pres, imgs, sizes, judged=False)
                for k in known:
                    m.bump("unrestricted", "%s:%s" % (k, {True: "agree", False: "differs", None: "discarded"}[ok]))
                continue
            ok = judge_item(m, it, pres, imgs, sizes)
            if ok and len(m.samples) < 3 and it.nops >= 3:
                m.samples.append({"decl": it.decl, "images": {n: imgs[n].hex() for n, _ in it.observe}})


# ---- switch part ----------------------------------------------------------------------

def gen_switch_unit(r, avoid, nfun=6):
    """Functions int swK(T x) { switch (x) { case E: return i; ... default: return 0; } }"""
    funs = []
    for k in range(nfun):
        ct = r.choice(("int", "int", "uint", "long", "ulong", "llong"))
        g = G.Gen(r, avoid)
        labels, seen, exprs = [], set(), []
        for i in range(r.randrange(2, 7)):
            for _ in range(20):
                e = g.expr(lo=G.tmin(ct), hi=G.tmax(ct))
                if e.value in seen or not G.fits(e.value, ct):
                    continue
                # the label is converted to the promoted controlling type: keep types where this is the identity
                seen.add(e.value)
                labels.append((e, i + 1))
                exprs.append(e)
                break
        if not labels:
            continue
        sp = G.spelling(ct, r)
        body = " ".join("case %s: return %d;" % (e.text, arm) for e, arm in labels)
        src = "int sw%d(%s x) { switch (x) { %s default: return 0; } }" % (k, sp, body)
        probes = set()
        for e, _ in labels:
            for d in (-1, 0, 1):
                if G.fits(e.value + d, ct):
                    probes.add(e.value + d)
        probes.add(0)
        funs.append({"name": "sw%d" % k, "ctype": ct, "spelling": sp, "src": src, "labels": labels,
                     "probes": sorted(probes), "exprs": exprs})
    return funs


def run_switch(spec, m):
    import io
    import logging
    from ppci.api import cc, get_arch, objcopy
    logging.disable(logging.CRITICAL)
    arch = get_arch("x86_64")
    tmp = os.environ.get("VERIF_TMP") or os.getcwd()
    avoid = frozenset(spec["avoid"])
    for u in range(spec["units"]):
        uid = "%s_%s" % (spec["shard"], u)
        r = rng(spec["seed"], PROPERTY, "switch/" + uid)
        funs = gen_switch_unit(r, avoid, spec.get("funs", 6))
        # gcc -pedantic-errors filter: one compile, functions on rejected lines are dropped
        good = list(funs)
        for _round in range(3):
            if not good:
                break
            p = subprocess.run(GCC + ["-fsyntax-only", "-x", "c", "-"], input="\n".join(f["src"] for f in good),
                               capture_output=True, text=True, timeout=120)
            if p.returncode == 0:
                break
            bad = set()
            for ln in p.stderr.split("\n"):
                if ln.startswith("<stdin>:") and " error" in ln:
                    try:
                        bad.add(int(ln.split(":")[1]) - 1)
                    except ValueError:
                        pass
            if not bad:
                good = []
                break
            m.disc["gcc-rejects-switch"] = m.disc.get("gcc-rejects-switch", 0) + len(bad)
            good = [f for i, f in enumerate(good) if i not in bad]
        else:
            good = []
        if not good:
            continue
        usrc = "\n".join(f["src"] for f in good) + "\n"
        main = ["#include <stdio.h>"]
        for f in good:
            main.append("int %s(%s x);" % (f["name"], f["spelling"]))
        main.append("int main(void) {")
        for f in good:
            for v in f["probes"]:
                lit = "(%s)%dull" % (f["spelling"], v % (1 << 64))
                main.append('  printf("%s %d %%d\\n", %s(%s));' % (f["name"], v, f["name"], lit))
        main.append("  return 0;\n}")
        drv = os.path.join(tmp, "d%s.c" % uid)
        ref = os.path.join(tmp, "r%s.c" % uid)
        with open(drv, "w") as fh:
            fh.write("\n".join(main) + "\n")
        with open(ref, "w") as fh:
            fh.write(usrc)
        exe_ref = os.path.join(tmp, "r%s.exe" % uid)
        exe_ppci = os.path.join(tmp, "p%s.exe" % uid)
        obj_path = os.path.join(tmp, "p%s.o" % uid)
        try:
            p = subprocess.run(["gcc", "-std=c99", "-O0", drv, ref, "-o", exe_ref], capture_output=True,
                               text=True, timeout=120)
            if p.returncode:
                m.disc["gcc-switch-build-failed"] = m.disc.get("gcc-switch-build-failed", 0) + len(good)
                continue
            want = _run_table(exe_ref)
            # ppci: compile the functions; an internal error here is a refuting event
            try:
                obj = cc(io.StringIO(usrc), arch)
            except Exception as e:  # noqa
                culprit = None
                for f in good:
                    try:
                        cc(io.StringIO(f["src"] + "\n"), arch)
                    except Exception as e2:  # noqa
                        culprit = (f, e2)
                        break
                f, e2 = culprit if culprit else (good[0], e)
                if is_diagnostic(e2):
                    m.disc["ppci-diagnostic"] = m.disc.get("ppci-diagnostic", 0) + 1
                else:
                    m.evals += 1
                    m.violation("cc raised %s on switch with constant case labels: %s" % (site(e2), f["src"][:160]),
                                {"src": f["src"], "ppci": "%s: %s" % (type(e2).__name__, str(e2)[:120])})
                continue
            objcopy(obj, None, "elf", obj_path)
            p = subprocess.run(["gcc", "-no-pie", "-std=c99", "-O0", drv, obj_path, "-o", exe_ppci],
                               capture_output=True, text=True, timeout=120)
            if p.returncode:
                m.disc["link-of-ppci-object-failed"] = m.disc.get("link-of-ppci-object-failed", 0) + len(good)
                m.bump("switch", "link_failed")
                continue
            got = _run_table(exe_ppci)
            if want is None or got is None:
                m.disc["switch-exe-crash-or-timeout"] = m.disc.get("switch-exe-crash-or-timeout", 0) + len(good)
                continue
            for f in good:
                label_vals = {e.value for e, _ in f["labels"]}
                bad = None
                for v in f["probes"]:
                    key = (f["name"], v)
                    if key not in want or key not in got:
                        continue
                    m.bump("switch", "probes")
                    if v in label_vals and want[key] != 0:
                        m.bump("switch", "labels_hit")
                    if want[key] != got[key] and bad is None:
                        bad = (v, want[key], got[key])
                m.evals += 1
                m.hashes.append(h(["switch", f["ctype"], [e.text for e in f["exprs"]]]))
                m.bump("kind", "switch")
                m.bump("switch", "ctype_" + f["ctype"])
                for e in f["exprs"]:
                    for op, t in e.ops:
                        m.bump("op", "%s:%s" % (op, t))
                if bad:
                    m.violation("switch arm differs: %s(%d) ppci-compiled -> %d, gcc -> %d | %s" % (
                        f["name"], bad[0], bad[2], bad[1], f["src"][:160]),
                        {"src": f["src"], "probe": bad[0], "gcc_arm": bad[1], "ppci_arm": bad[2]})
                else:
                    m.bump("outcome", "agree")
                    if len(m.samples) < 1:
                        m.samples.append({"switch": f["src"], "probes": f["probes"][:8]})
        finally:
            for pth in (drv, ref, exe_ref, exe_ppci, obj_path):
                _rm(pth)


def _run_table(exe):
    try:
        p = subprocess.run([exe], capture_output=True, text=True, timeout=60)
    except subprocess.TimeoutExpired:
        return None
    if p.returncode != 0:
        return None
    tab = {}
    for ln in p.stdout.split("\n"):
        f = ln.split()
        if len(f) == 3:
            tab[(f[0], int(f[1]))] = int(f[2])
    return tab


def run_shard(spec):
    m = Mon()
    if spec["part"] == "init":
        run_init(spec, m)
    else:
        run_switch(spec, m)
    return m.result()


# ---- witness probes for the open findings -----------------------------------------------

def _probe_values(src, want):
    """want: {global: int value}; returns None if ppci agrees, else what fails."""
    import logging
    logging.disable(logging.CRITICAL)
    res = ppci_vars(src, "x86_64")
    if res[0] == "internal":
        return "`%s` -> %s" % (src, res[2])
    if res[0] == "diag":
        return "`%s` -> diagnostic %s" % (src, res[1])
    for name, val in want.items():
        img = res[1].get(name, (None, 0))[0]
        if not isinstance(img, bytes):
            return "`%s`: %s has no byte image" % (src, name)
        got = int.from_bytes(img, "little", signed=val < 0)
        if got != val:
            return "`%s`: %s initialised to %d, C requires %d" % (src, name, got, val)
    return None


def _first(*probes):
    for src, want in probes:
        r = _probe_values(src, want)
        if r:
            return r
    return None


def _ast_init(src):
    """Initialiser expressions of the declarations in src, implicit casts stripped."""
    import logging
    logging.disable(logging.CRITICAL)
    from ppci.lang.c import parse_text
    out = []
    for d in parse_text(src).declarations:
        x = d.initial_value
        while type(x).__name__ == "ImplicitCast":
            x = x.expr
        out.append(x)
    return out


def probe_eqprec():
    src = "int a = 2 == 1 < 2;"
    top = _ast_init(src)[0]
    if getattr(top, "op", None) != "==":
        return "`%s` is parsed with %r as top operator, C groups it as 2 == (1 < 2)" % (src, getattr(top, "op", None))
    return None   # (the value route is shadowed by consteval-operators-missing while that is open)


def probe_terncond():
    src = "int a = 0x100000000 ? 1 : 2;"
    top = _ast_init(src)[0]
    cond = getattr(top, "a", None)
    if type(cond).__name__ == "ImplicitCast" and "int" in str(cond.typ) and "long" not in str(cond.typ):
        return "`%s`: the condition is converted to int (0x100000000 -> 0), the wrong arm is selected" % src
    return None   # (the value route is shadowed by consteval-operators-missing while that is open)


def probe_strnest():
    import logging
    logging.disable(logging.CRITICAL)
    for src in ('struct M { char s[3]; } g = {"ab"};', 'char a[2][3] = {"ab", "cd"};', 'char s[] = {"abc"};'):
        res = ppci_vars(src, "x86_64")
        if res[0] == "internal":
            return "`%s` -> %s [%s]" % (src, res[2], res[1])
    return None


PROBES = {
    "string-literal-for-nested-char-array": probe_strnest,
    "sizeof-result-is-signed-long": lambda: _first(("unsigned long g = (sizeof(int) - 5) >> 60;", {"g": 15})),
    "equality-parsed-at-relational-precedence": probe_eqprec,
    "ternary-condition-converted-to-int": probe_terncond,
    "consteval-operators-missing": lambda: _first(
        ("int a = 7 % 3;", {"a": 1}), ("int a = 1 < 2;", {"a": 1}), ("int a = !5;", {"a": 0}),
        ("int a = 1 && 2;", {"a": 1}), ("int a = 0 ? 2 : 3;", {"a": 3}), ("int a = 1 || 1 / 0;", {"a": 1})),
    "consteval-division-floors": lambda: _first(("int a = -7 / 2;", {"a": -3}), ("int a = 7 / -2;", {"a": -3})),
    "consteval-no-wrap-to-type": lambda: _first(
        ("int a = (char)300;", {"a": 44}), ("unsigned a = ~0u >> 1;", {"a": 0x7fffffff}),
        ("unsigned a = (unsigned)-1 / 2;", {"a": 0x7fffffff}), ("long a = (unsigned char)-1;", {"a": 255})),
    "pack-rejects-out-of-range-initializer": lambda: _first(
        ("char c = 300;", {"c": 44}), ("unsigned char u = -1;", {"u": 255}), ("short s = 70000;", {"s": 4464})),
    "char-constant-has-type-char": lambda: _first(
        ("int a = '\\377';", {"a": -1}), ("int a = sizeof('a');", {"a": 4})),
    "shift-result-type-from-both-operands": lambda: _first(("int a = sizeof(1 << 2L);", {"a": 4})),
    "no-integer-promotion-unary-ternary-compare": lambda: _first(
        ("int a = sizeof(-(char)1);", {"a": 4}), ("int a = sizeof(~(short)1);", {"a": 4})),
    "decimal-literal-gets-unsigned-int": lambda: _first(("int a = sizeof(2147483648);", {"a": 8})),
    "conditional-operator-arms-not-promoted": lambda: _first(("int a = sizeof(1 ? (char)1 : (char)2);", {"a": 4})),
    "enumerator-operand-gives-enum-typed-arithmetic": lambda: _first(
        ("enum E {A = 7}; int x = A >> 1;", {"x": 3}), ("enum E {A = 7}; int x = A & 3;", {"x": 3}),
        ("enum E {A = 7}; long x = (A + 0x7ffffffffffffff0) / 3;", {"x": 0x7ffffffffffffff7 // 3})),
}
