"""C06 register allocation never clobbers a live value (DESIGN C06).

Every frame that GraphColoringRegisterAllocator.alloc_frame finishes while the
workload is compiled is judged by vlib.ramon (own CFG, own liveness, own alias
relation, must-reach analysis for virtual registers and spill slots) on the
pre-deletion snapshot taken inside remove_redundant_moves.

Workload per target (all 12 register-allocated targets): vlib.irgen modules
(two profiles: the target's native integer type only / every value type the
target declares; cgmatrix.add_pressure keeps up to 24 entry values alive over
the whole function: calls in between, loops), the register-pressure / respill
/ phi / loop / argument cells of vlib.cgmatrix, and a corpus of C functions
through ppci.api.cc at -O0 and -O2.  Every function is compiled on its own
(ir_to_object over a one-function view of the module) so that a function the
target cannot select ("Tree ... not covered" etc.) costs only itself; such
build failures are outside C06 and only counted.

Narrowing (stated): m68k cannot select code for almost any function of this
workload (NotImplementedError in M68kArch.move / uncovered constants; the few
frames that reach the allocator are trivial or run into the watchdog), so the
floors demand frames from the other 11 targets only.  A compilation that
exceeds the per-function watchdog is discarded and counted.
Allocator exceptions (give-up after 30 spill rounds, assertion in
freeze_moves, KeyError in has_edge on msp430) abort the frame before colours
exist; they are C29's events and only counted here.
"""
import io

from vlib.core import rng, h

PROPERTY = "C06"
TARGETS = ["x86_64", "arm", "arm:thumb", "riscv", "riscv:rvc", "msp430", "avr", "m68k", "mips", "or1k", "xtensa",
           "microblaze"]
MATURE = TARGETS[:5]

RULE = ("frames allocated while compiling, for each of 12 targets, vlib.irgen modules (native-int profile and full-type "
        "profile, add_pressure keeps 0/6/12/24 entry values live to every exit), vlib.cgmatrix pressure/respill/phi/"
        "loop/args cells and a C corpus via ppci.api.cc (-O0, -O2), one function per ir_to_object call; each frame's "
        "pre-deletion instruction list with final colours is checked by vlib.ramon for events a (shared/aliasing "
        "register while both live, Chaitin criterion at each definition), b (clobber of a live value), c (use without "
        "definition on some path), d1/d2 (spill reload without store / overlapping live slots), e (removed move with "
        "different colours), f (colour outside class, list differs from snapshot minus removed moves); evaluation = "
        "one checked frame; non-trivial = frame with >= 1 coalesced move or >= 1 spill and >= 10 instructions; "
        "distinct by hash of the coloured instruction text")
ASSUMPTIONS = ["ppci's own use/def/clobber/jumps annotations of instructions are taken as given (their truth is C07)",
               "instruction lists whose virtual registers lack a definition already in the allocator's input are not "
               "charged to the allocator for events c/d1 (input analysed by the same must-definition analysis)",
               "vlib.ramon's dataflow is correct (validated by 4 mutations of registerallocator.py/interferencegraph.py)"]
MANIFEST_ENTRY = {
    "text": "An independent liveness/alias/spill-slot checker judges every frame the real allocator colours while "
            "generated high-pressure programs are compiled for 12 targets.",
    "note": "Only conflicts involving at least one virtual register are reported; m68k yields almost no frames (backend "
            "cannot select the workload); allocator crashes are counted, not judged (C29).",
    "technique": "runtime monitoring: independent dataflow checker over snapshots taken in remove_redundant_moves/alloc_frame",
}

C_CORPUS = [
    ("sum_loop", """
int g[16];
int sum_loop(int n, int a, int b) {
  int i, s = 0, t = a, u = b, v = a + b, w = a - b;
  for (i = 0; i < n; i++) { s += g[i & 15] + t; t = t + u; u = u ^ v; v = v + w; w = w - s; }
  return s + t + u + v + w;
}
"""),
    ("calls_between", """
int ext1(int x);
int ext2(int x, int y);
int calls_between(int a, int b, int c, int d) {
  int e = a + b, f = c - d, g = a ^ c, h = b & d, i = a | d, j = b + c;
  int r = ext1(e);
  r += ext2(f, g);
  r += ext1(h) + i;
  r += ext2(j, e) + f + g + h;
  return r + i + j + a + b + c + d;
}
"""),
    ("many_live", """
int many_live(int a, int b) {
  int v0 = a + 1, v1 = b + 2, v2 = a + 3, v3 = b + 4, v4 = a + 5, v5 = b + 6, v6 = a + 7, v7 = b + 8;
  int v8 = a - 1, v9 = b - 2, v10 = a - 3, v11 = b - 4, v12 = a - 5, v13 = b - 6, v14 = a - 7, v15 = b - 8;
  int s = 0;
  while (a > 0) { s += v0 + v1 + v2 + v3 + v4 + v5 + v6 + v7; a--; v0 += v8; v1 += v9; v2 += v10; v3 += v11; }
  return s + v4 + v5 + v6 + v7 + v8 + v9 + v10 + v11 + v12 + v13 + v14 + v15;
}
"""),
    ("nested", """
int tab[8];
int nested(int n, int m) {
  int i, j, acc = 0, k = n + m;
  for (i = 0; i < n; i++) {
    for (j = 0; j < m; j++) {
      if ((i + j) & 1) acc += tab[(i + j) & 7] + k; else acc -= tab[j & 7] - i;
    }
    k = k + acc;
  }
  return acc + k;
}
"""),
    ("swap_chain", """
int swap_chain(int a, int b, int c, int d, int n) {
  int t;
  while (n > 0) { t = a; a = b; b = c; c = d; d = t; n = n - 1; }
  return a - b + c - d;
}
"""),
    ("ptr_walk", """
int ptr_walk(int *p, int *q, int n) {
  int s = 0;
  int *e = p + n;
  while (p != e) { s = s + *p; *q = s; p = p + 1; q = q + 1; }
  return s;
}
"""),
    ("struct_use", """
struct S { int a; int b; int c; };
int struct_use(struct S *s, int k) {
  int x = s->a + k, y = s->b - k, z = s->c ^ k;
  s->a = y; s->b = z; s->c = x;
  return x + y + z;
}
"""),
    ("rec_fib", """
int rec_fib(int n) { if (n < 2) return n; return rec_fib(n - 1) + rec_fib(n - 2); }
"""),
    ("select_chain", """
int select_chain(int a, int b, int c) {
  int r = 0;
  if (a < b) r = a; else r = b;
  if (r < c) r = r + c; else r = r - c;
  if (a == c) r = r + 1;
  if (b != c) r = r + a + b;
  return r;
}
"""),
    ("shifts", """
int shifts(int a, int b) {
  int x = a << 3, y = b >> 2, z = (a + b) << 1, w = (a - b) >> 1;
  return x + y + z + w + (x & y) + (z | w);
}
"""),
    ("char_mix", """
int char_mix(char a, char b, int c) {
  int x = a, y = b;
  char d = a;
  int r = x + y + c + d;
  return r;
}
"""),
    ("many_args", """
int ext6(int a, int b, int c, int d, int e, int f);
int many_args(int a, int b, int c) {
  int r = ext6(a, b, c, a + b, b + c, a + c);
  return r + ext6(c, b, a, r, r + 1, r + 2) + a + b + c;
}
"""),
]


def plan(tier, seed, avoid):
    specs = []
    if tier == "quick":
        for t in TARGETS:
            heavy = t in MATURE or t == "microblaze"
            n = 40 if heavy else 24
            for s in range(0, n, 20 if heavy else 24):
                specs.append({"part": "irgen", "target": t, "start": s, "count": min(20 if heavy else 24, n - s)})
            specs.append({"part": "cells+c", "target": t, "stride": 2})
    else:
        for t in TARGETS:
            heavy = t in MATURE or t == "microblaze"
            n = 1600 if heavy else 500
            for s in range(0, n, 100):
                specs.append({"part": "irgen", "target": t, "start": 1000 + s, "count": 100})
            specs.append({"part": "cells+c", "target": t, "stride": 1})
    return specs


def floors(tier):
    f = {"evaluations": 600 if tier == "quick" else 8000, "distinct_nontrivial": 300 if tier == "quick" else 3000,
         "observed.frames_with_spills": 60, "observed.removed_moves_checked": 3000, "observed.alias_pairs": 1000,
         "observed.definitions_checked": 20000, "observed.clobbers_checked": 2000, "observed.spill_loads": 500}
    for t in TARGETS:
        if t != "m68k":
            f["observed.frames_by_target.%s" % t] = 4 if tier == "quick" else 40
    return f


SHARD_TIMEOUT = {"quick": 1200, "thorough": 4 * 3600}


class Mon:
    def __init__(self, spec):
        self.spec = spec
        self.evals = 0
        self.hashes = []
        self.viol = []
        self.viol_keys = set()
        self.obs = {"frames_by_target": {}, "frames_with_spills": 0, "frames_with_coalesced_moves": 0,
                    "removed_moves_checked": 0, "alias_pairs": 0, "definitions_checked": 0, "clobbers_checked": 0,
                    "spill_loads": 0, "spill_stores": 0, "slots": 0, "instructions": 0, "virtual_registers": 0,
                    "largest_frame": 0, "input_undefined_registers": 0, "nonstrict_skipped": 0, "nonstrict_skipped": 0, "functions_attempted": {}, "workload": {}}
        self.disc = {}
        self.samples = []
        self.context = None

    def discard(self, why, n=1):
        self.disc[why] = self.disc.get(why, 0) + n

    def bump(self, d, k, n=1):
        d[k] = d.get(k, 0) + n


def listing(snap, around=None, width=14):
    out = []
    instrs = snap.instructions
    removed = {id(m) for m in snap.removed}
    rng_ = range(len(instrs))
    if around is not None:
        rng_ = range(max(0, around - width), min(len(instrs), around + width))
    for i in rng_:
        ins = instrs[i]
        try:
            txt = str(ins)
        except Exception:  # noqa
            txt = "?"
        out.append("%4d%s %s | use %s def %s%s" % (
            i, "R" if id(ins) in removed else " ", txt, [repr(r) for r in ins.used_registers],
            [repr(r) for r in ins.defined_registers], (" clobbers %s" % [str(c) for c in ins.clobbers]) if ins.clobbers else ""))
    return out


def make_on_result(mon, target):
    def on_result(frame, findings, stats, snap):
        if stats.get("skipped_flow_incomplete"):
            mon.discard("frame-lost-block-terminator-not-judged:%s" % target)
            return
        mon.evals += 1
        o = mon.obs
        mon.bump(o["frames_by_target"], target)
        for k in ("alias_pairs", "definitions_checked", "clobbers_checked", "spill_loads", "spill_stores", "slots",
                  "instructions", "virtual_registers", "input_undefined_registers", "nonstrict_skipped"):
            o[k] += stats.get(k, 0)
        o["removed_moves_checked"] += stats.get("removed_moves", 0)
        if stats.get("slots"):
            o["frames_with_spills"] += 1
        if stats.get("removed_moves"):
            o["frames_with_coalesced_moves"] += 1
        o["largest_frame"] = max(o["largest_frame"], stats.get("instructions", 0))
        if snap is not None and stats.get("instructions", 0) >= 10 and (stats.get("slots") or stats.get("removed_moves")):
            try:
                text = "\n".join(str(i) for i in snap.instructions)
            except Exception:  # noqa
                text = repr(stats)
            mon.hashes.append(h(target + text))
        if snap is not None and len(mon.samples) < 2 and stats.get("slots") and stats.get("instructions", 0) < 120:
            mon.samples.append({"target": target, "frame": frame.name, "context": mon.context, "stats": stats,
                                "listing": listing(snap)[:40]})
        for f in findings:
            key = "%s/%s/%s" % (target, f["event"], f["what"].split(" ")[0] if f["event"] == "f" else "")
            if key in mon.viol_keys:
                continue
            mon.viol_keys.add(key)
            if len(mon.viol) < 10:
                mon.viol.append({
                    "summary": "%s frame %s: event %s: %s%s" % (target, frame.name, f["event"], f["what"],
                                                                  (" at [%s] %s" % (f["index"], f["instruction"])) if f["index"] is not None else ""),
                    "case": {"target": target, "frame": frame.name, "event": f, "all_events": findings[:10],
                             "context": mon.context, "stats": stats,
                             "listing": listing(snap, f["index"]) if snap is not None else None}})
    return on_result


def setup():
    import logging
    import sys

    logging.disable(logging.CRITICAL)
    sys.setrecursionlimit(20000)


def compile_each(mon, api, cm, m, arch, target):
    from checks.c29 import compile_subset, Avoided

    for f in list(m.functions):
        mon.bump(mon.obs["functions_attempted"], target)
        before = mon.evals
        e = compile_subset(api, m, arch, [f], budget=60 if target in MATURE else 25)
        if e is not None and isinstance(e, Avoided):
            mon.discard("%s:%s" % (e, target))
        elif e is not None:
            mech = cm.failure_mechanism(e)[0]
            where = "allocator-raised" if any(x in mech for x in ("alloc_frame", "freeze_moves", "has_edge", "assign_colors", "combine", "rewrite_program", "pattern_fprel")) else "build-failed"
            mon.discard("%s:%s:%s" % (where, target, mech[:60]) if where == "allocator-raised" else "%s:%s" % (where, target))
        elif mon.evals == before:
            mon.discard("no-frame:%s" % target)


def irgen_cfg(r, target, types, ptr_size, idx):
    vals = [t for t in types if t != "ptr"]
    native = [t for t in vals if t in (("i32", "u32") if "i32" in vals else ("i16", "u16"))]
    immature = target not in MATURE
    if immature:
        native = native[:1]          # signed native type: unsigned compares / xor are missing on several targets
    simple = idx % 2 == 0 if not immature else idx % 4 != 3
    cfg = {"ptr_size": ptr_size, "types": native if simple else vals,
           "float": (not simple) and any(t[0] == "f" for t in vals),
           "size": r.choice([8, 14, 24, 36]), "n_funcs": 3, "blobs": not simple, "fptr": not simple,
           "shape": "mem" if r.random() < 0.15 else "ssa",
           "no_ops": (("/", "%", "*", "^") if immature else ("/", "%", "*")) if simple else (),
           "unops": not (simple and immature), "externals": True, "undefined": r.random() < 0.2, "casts": True}
    return cfg, simple


def run_shard(spec):
    setup()
    from ppci import api
    from vlib import cgmatrix as cm, irgen, irwf, ramon

    target = spec["target"]
    mon = Mon(spec)
    rec = ramon.Recorder()
    ramon.install(rec)
    rec.on_result = make_on_result(mon, target)
    arch = api.get_arch(target)
    ptr_size = arch.info.get_size("ptr")
    types = cm.target_types(arch)
    immature = target not in MATURE
    mon.bump(mon.obs["frames_by_target"], target, 0)
    if spec["part"] == "irgen":
        for idx in range(spec["start"], spec["start"] + spec["count"]):
            r = rng(spec["seed"], PROPERTY, "%s/%d" % (target, idx))
            cfg, simple = irgen_cfg(r, target, types, ptr_size, idx)
            try:
                m, info = irgen.gen_module(r, cfg)
                if not immature:
                    # rewrite constructs the target is known not to select (C29 findings): more frames reach the allocator
                    from checks import c29
                    cm.neutralise(m, c29.deny_for(target, sorted(c29.FINDINGS)), "i32")
                pressure = r.choice([0, 6, 12, 24])
                if pressure:
                    cm.add_pressure(m, r, pressure, ptr_size, fold_op="+" if immature else "^")
                problems = irwf.check_module(m)
            except Exception as e:  # noqa
                mon.discard("generator-error:%s" % type(e).__name__)
                continue
            if problems:
                mon.discard("generator-ill-formed")
                continue
            level = ["0", "0", "2", "1"][idx % 4]
            try:
                api.optimize(m, level)
            except Exception as e:  # noqa
                mon.discard("optimize-raised")
                continue
            mon.context = {"workload": "irgen", "index": idx, "cfg": {k: (list(v) if isinstance(v, tuple) else v) for k, v in cfg.items()},
                           "pressure": pressure, "level": level}
            mon.bump(mon.obs["workload"], "irgen-modules")
            compile_each(mon, api, cm, m, arch, target)
    else:
        # matrix cells that stress the allocator
        cells = []
        vals = [t for t in types if t != "ptr"]
        for ty in types:
            for n in (6, 12, 20, 32):
                cells.append({"k": "misc", "what": "pressure", "ty": ty, "n": n})
                cells.append({"k": "misc", "what": "pressure", "ty": ty, "n": n, "call": False})
            for n in (8, 12, 16, 24):
                cells.append({"k": "misc", "what": "respill", "ty": ty, "n": n, "uses": 2})
                cells.append({"k": "misc", "what": "respill", "ty": ty, "n": n, "uses": 6})
            for what in ("phi", "loop"):
                cells.append({"k": "misc", "what": what, "ty": ty})
            for n in (2, 4, 6, 8):
                cells.append({"k": "args", "ty": ty, "n": n, "side": "callee"})
                cells.append({"k": "args", "ty": ty, "n": n, "side": "caller"})
            for op in ("/", "%", "*", "<<"):
                if ty != "ptr" and ty[0] != "f":
                    cells.append({"k": "binop", "op": op, "ty": ty, "a": "param", "b": "param", "use": "ret"})
                    cells.append({"k": "binop", "op": op, "ty": ty, "a": "op", "b": "local", "use": "arg"})
        cells = cells[spec["seed"] % spec["stride"]::spec["stride"]] if spec["stride"] > 1 else cells
        for i in range(0, len(cells), 10):
            mb = cm.ModuleBuilder(ptr_size)
            for c in cells[i:i + 10]:
                mb.add(c)
            mon.context = {"workload": "cgmatrix-cells", "cells": cells[i:i + 10]}
            mon.bump(mon.obs["workload"], "cell-modules")
            compile_each(mon, api, cm, mb.m, arch, target)
        for name, src in C_CORPUS:
            for level in (0, 2):
                mon.context = {"workload": "c", "name": name, "level": level, "source": src}
                mon.bump(mon.obs["workload"], "c-compilations")
                mon.bump(mon.obs["functions_attempted"], target)
                before = mon.evals
                import signal
                from checks.c29 import Watchdog, _on_alarm
                old_handler = signal.signal(signal.SIGALRM, _on_alarm)
                signal.setitimer(signal.ITIMER_REAL, 60)
                try:
                    api.cc(io.StringIO(src), arch, opt_level=level)
                except Watchdog:
                    mon.discard("watchdog-timeout:%s" % target)
                    continue
                except Exception as e:  # noqa
                    mon.discard("c-build-failed:%s" % target)
                    continue
                finally:
                    signal.setitimer(signal.ITIMER_REAL, 0)
                    signal.signal(signal.SIGALRM, old_handler)
                if mon.evals == before:
                    mon.discard("no-frame:%s" % target)
    return {"evaluations": mon.evals, "nontrivial_hashes": mon.hashes, "observed": mon.obs, "discarded": mon.disc,
            "samples": mon.samples[:2], "violations": mon.viol,
            "inconclusive": []}
