"""C36 Python front-end computes what CPython computes (DESIGN C36).

For every generated program (vlib.pygen) the source is compiled with
``ppci.api.python_to_ir`` and every function is executed by vlib.refinterp on
6 argument vectors; CPython executing the very same source is the oracle
(return value bitwise for floats, plus the ordered trace of calls of the
imported procedures put/putf).  A run is inside the quantifier when the
instrumented CPython run (64-bit range check on every integer operation, tick
bound) finishes without overflow / ZeroDivisionError / bound; other runs are
discarded and counted.

Refuting events: different return value or trace; the compiled IR does not
terminate within 200 x ticks + 20000 IR steps although CPython terminated;
the compiled IR leaves the defined IR semantics (e.g. reads an uninitialised
slot) where CPython computes a value; python_to_ir raises anything but
CompilerError; the module fails vlib.irwf.  ``ir_to_python`` is run as second
executor on refuting cases only (triage information inside the replay file).

Narrowed w.r.t. DESIGN: chained comparisons, unary minus, ``not``, ``%`` and
int/float mixing are outside the generated subset (python2ir answers them with
a diagnostic or they belong to C28).
"""
import io

from vlib.core import rng, h

PROPERTY = "C36"
RULE = ("vlib.pygen programs (1-4 annotated functions over int/float: + - * // /, comparisons, and/or, if/elif/else, "
        "while with fuel, for over range(a[,b]) with break/continue at any depth, assignment / augmented / tuple "
        "assignment, calls incl. recursion and calls of later functions, imported procedures put/putf) compiled by "
        "python_to_ir, every function run by vlib.refinterp on 6 argument vectors and compared with CPython running the "
        "same source (return value, put/putf trace); vlib.irwf on every module; non-trivial = a compared run whose IR "
        "execution took >= 20 instructions and >= 1 branch, distinct by (source, function, arguments)")
ASSUMPTIONS = ["CPython 3.12 executing the generated source is the semantics of the subset",
               "vlib.refinterp implements IR semantics (cross-checked by C24/C02/C38); on a refuting case the result of "
               "ppci.api.ir_to_python is recorded next to it for triage",
               "runs in which a CPython integer leaves 64 bits, a ZeroDivisionError is raised or more than 4000 statements "
               "execute are outside the quantifier (discarded, counted)"]
MANIFEST_ENTRY = {
    "text": "Differential execution: the IR python_to_ir produces for generated annotated functions, run by the reference "
            "IR interpreter, against CPython running the same source; every module also passes the independent IR "
            "well-formedness checker and python_to_ir may only fail with CompilerError.",
    "note": "Subset without chained comparisons, unary minus, not, % and mixed int/float arithmetic; constructs of open "
            "findings are switched off in the generator (see known_findings.d/C36.json).",
    "technique": "runtime monitoring: CPython as oracle over generated programs executed through python_to_ir + refinterp",
}
SHARD_TIMEOUT = {"quick": 1200, "thorough": 3 * 3600}

NVEC = 6


def plan(tier, seed, avoid):
    n, per = (640, 20) if tier == "quick" else (30000, 500)
    return [{"start": s, "count": per} for s in range(0, n, per)]


def floors(tier):
    return {"evaluations": 3000, "distinct_nontrivial": 1000, "observed.programs_compiled": 400,
            "observed.tags.stmt:for": 100, "observed.tags.stmt:while": 100, "observed.tags.stmt:if": 200,
            "observed.tags.op:i//": 50, "observed.tags.op:f/": 50, "observed.tags.shape:break-in-while": 10,
            "observed.tags.shape:continue-in-while": 10, "observed.tags.shape:call": 30,
            "observed.tags.shape:recursion": 30, "observed.runs_with_loop_iterations": 500}


def norm(v):
    from vlib.refinterp import fbits
    if isinstance(v, float):
        return fbits(v, 64)
    return v


def second_executor(module, fname, args):
    """triage only: what does the generated Python of ir_to_python return?"""
    try:
        from ppci import api, ir
        from checks.c24 import run_python
        f = io.StringIO()
        api.ir_to_python([module], f)
        ext = {e.name: None for e in module.externals if isinstance(e, ir.ExternalSubRoutine)}
        got = run_python(f.getvalue(), fname, list(args), ext, {}, max_lines=300000)
        return {"status": got["status"], "ret": norm(got.get("ret")), "reason": got.get("reason"),
                "trace": [[n, [norm(x) for x in a]] for n, a in got.get("trace", [])][:20]}
    except BaseException as e:  # noqa: triage must not disturb the verdict
        return {"status": "unavailable", "reason": "%s: %s" % (type(e).__name__, str(e)[:200])}


def check_program(src, isrc, fnames_vecs, mon, case):
    """compile src, compare every (function, vector); appends to mon"""
    from ppci.api import python_to_ir
    from ppci.common import CompilerError
    from vlib import irwf, pygen
    from vlib.refinterp import Interp

    try:
        module = python_to_ir(io.StringIO(src), imports=pygen.IMPORTS)
    except CompilerError as e:
        key = "diagnostic: " + str(e.msg)[:40]
        mon["disc"][key] = mon["disc"].get(key, 0) + 1
        mon["obs"]["programs_rejected_with_diagnostic"] = mon["obs"].get("programs_rejected_with_diagnostic", 0) + 1
        return
    except Exception as e:  # internal error on a subset program
        import traceback
        mon["evals"] += 1
        mon["viol"].append({"summary": "python_to_ir raised %s: %s" % (type(e).__name__, str(e)[:160]),
                            "case": dict(case, source=src, traceback=traceback.format_exc()[-1500:])})
        return
    mon["obs"]["programs_compiled"] = mon["obs"].get("programs_compiled", 0) + 1
    problems = irwf.check_module(module)
    mon["evals"] += 1
    if problems:
        mon["viol"].append({"summary": "module of python_to_ir is ill-formed: %s" % problems[0][:200],
                            "case": dict(case, source=src, problems=problems[:10])})
        return
    it = Interp(module, ptr_size=8)
    for fname, vecs in fnames_vecs:
        for vec in vecs:
            py = pygen.run_cpython(src, isrc, fname, vec)
            if py["status"] != "ok":
                if py["status"] == "generator-error":
                    mon["inc"].append("pygen left the subset: %s in %s%r of %s" % (py.get("reason"), fname, tuple(vec), case))
                mon["disc"]["cpython " + py["status"]] = mon["disc"].get("cpython " + py["status"], 0) + 1
                continue
            want = {"ret": norm(py["ret"]), "trace": [[n, [norm(x) for x in a]] for n, a in py["trace"]]}
            budget = 200 * py["ticks"] + 20000
            ref = it.run(fname, vec, max_steps=budget, max_depth=400)
            mon["evals"] += 1
            diff = None
            if ref.status == "timeout":
                diff = "compiled IR still runs after %d IR steps (%s); CPython finished after %d statements with %r" % (
                    budget, ref.reason, py["ticks"], want["ret"])
            elif ref.status == "undefined":
                diff = "compiled IR leaves the defined semantics (%s); CPython returns %r" % (ref.reason, want["ret"])
            else:
                got = {"ret": ref.retval, "trace": [[n, list(a)] for n, a in ref.trace]}
                if got["ret"] != want["ret"]:
                    diff = "returns %r, CPython returns %r" % (got["ret"], want["ret"])
                elif got["trace"] != want["trace"]:
                    k = 0
                    while k < min(len(got["trace"]), len(want["trace"])) and got["trace"][k] == want["trace"][k]:
                        k += 1
                    diff = "put/putf trace differs at call %d: %r, CPython %r (lengths %d / %d)" % (
                        k, got["trace"][k:k + 1], want["trace"][k:k + 1], len(got["trace"]), len(want["trace"]))
            if ref.status == "ok" and ref.steps >= 20 and ref.branches >= 1:
                mon["nontrivial"].add(h([src, fname, vec]))
            if py["ticks"] > 12:
                mon["obs"]["runs_with_loop_iterations"] = mon["obs"].get("runs_with_loop_iterations", 0) + 1
            if diff:
                if len(mon["viol"]) < 25:
                    from vlib.optmon import module_text
                    mon["viol"].append({
                        "summary": "%s%r: %s" % (fname, tuple(vec), diff[:260]),
                        "case": dict(case, source=src, function=fname, args=vec, cpython=want,
                                     refinterp={"status": ref.status, "reason": ref.reason, "ret": ref.retval,
                                                "trace": ref.trace[:20], "steps": ref.steps},
                                     ir_to_python=second_executor(module, fname, vec),
                                     ir=module_text(module)[:12000])})
                return   # one refuting event per program
            elif len(mon["samples"]) < 2 and ref.steps > 150 and len(src) < 1500:
                mon["samples"].append({"case": case, "source": src, "function": fname, "args": vec,
                                       "result": want["ret"], "trace_length": len(want["trace"]), "ir_steps": ref.steps})


def new_mon():
    return {"evals": 0, "nontrivial": set(), "viol": [], "disc": {}, "samples": [], "obs": {"tags": {}}, "inc": []}


def run_shard(spec):
    from vlib import pygen
    mon = new_mon()
    for idx in range(spec["start"], spec["start"] + spec["count"]):
        r = rng(spec["seed"], PROPERTY, idx)
        funcs, tags = pygen.gen_program(r, spec["avoid"])
        for t, n in tags.items():
            t = t.replace(".", ":")     # core.dig splits floor paths at dots
            mon["obs"]["tags"][t] = mon["obs"]["tags"].get(t, 0) + n
        src = pygen.render(funcs)
        isrc = pygen.render(funcs, True)
        vecs = [(fn.name, pygen.gen_args(r, fn, NVEC)) for fn in funcs]
        check_program(src, isrc, vecs, mon, {"id": "pygen/%s/%d" % (spec["seed"], idx), "index": idx})
    return {"evaluations": mon["evals"], "nontrivial_hashes": sorted(mon["nontrivial"]), "observed": mon["obs"],
            "discarded": mon["disc"], "violations": mon["viol"], "samples": mon["samples"],
            "inconclusive": mon["inc"][:3]}


# ---- witnesses of known findings ------------------------------------------------

def _probe(src, fname, vecs):
    def run():
        from vlib import pygen  # noqa
        mon = new_mon()
        # the instrumented source is only needed for the tick count: add ticks by hand
        isrc = _instrument(src)
        check_program(src, isrc, [(fname, vecs)], mon, {"id": "probe"})
        if mon["viol"]:
            return mon["viol"][0]["summary"]
        if mon["inc"]:
            raise RuntimeError(mon["inc"][0])
        if mon["evals"] < 2:
            return "witness no longer compiles: %r" % (mon["disc"],)
        return None
    return run


def _instrument(src):
    out = []
    for line in src.splitlines():
        s = line.lstrip()
        if s and not s.startswith(("def ", "elif ", "else:")):
            out.append(line[: len(line) - len(s)] + "_t()")
        out.append(line)
    return "\n".join(out) + "\n"


W_FLOORDIV = """def f(n: int, a: int, b: int) -> int:
    return a // b
"""
W_FOR_IF = """def f(n: int) -> int:
    s = 0
    for i in range(n):
        if i > 2:
            s = s + 10
        s = s + i
    return s
"""
W_FOR_CONTINUE = """def f(n: int) -> int:
    s = 0
    for i in range(n):
        s = s + i
        continue
    return s
"""
W_FOR_VAR = """def f(n: int) -> int:
    s = 0
    i = 7
    for i in range(n):
        s = s + i
    return i
"""
W_FOR_VAR_ASSIGN = """def f(n: int) -> int:
    s = 0
    for i in range(n):
        i = i * 2
        s = s + i
    return s
"""
W_BRANCH_VAR = """def f(n: int) -> int:
    if n > 3:
        x = 5
    else:
        x = 6
    return x
"""
W_LATER_CALL = """def f(n: int) -> int:
    return g(n) + 1

def g(n: int) -> int:
    return n * 2
"""


def _probe_for_var():
    a = _probe(W_FOR_VAR, "f", [[5], [0]])()
    return a or _probe(W_FOR_VAR_ASSIGN, "f", [[4]])()


PROBES = {
    "floor-division-truncates": _probe(W_FLOORDIV, "f", [[0, -7, 2], [0, 7, -2], [0, 7, 2], [0, -8, -3], [0, -6, 3]]),
    "for-body-control-flow-internal-error": _probe(W_FOR_IF, "f", [[5], [0]]),
    "for-continue-skips-increment": _probe(W_FOR_CONTINUE, "f", [[4], [0]]),
    "for-loop-variable-not-a-variable": _probe_for_var,
    "variable-first-assigned-in-branch": _probe(W_BRANCH_VAR, "f", [[5], [1]]),
    "call-before-definition-keyerror": _probe(W_LATER_CALL, "f", [[5], [1]]),
}
