"""C25 dominators / post-dominators / reachability == their path definitions (DESIGN 4, C25).

The real ppci.graph code is driven through its public node/edge API
(ControlFlowGraph + ControlFlowNode.add_edge, the way ir_function_to_graph
builds a CFG: synthetic exit node created first, sinks get an edge to it) and
every query the property lists is compared with brute force:

  idom (ControlFlowGraph.get_immediate_dominator, lt.calculate_idom, the naive
  and recursive ancestor_with_lowest_semi variants of lt.py, and the fixed-point
  calculate_dominators / calculate_immediate_dominators), dominates,
  strictly_dominates (graph and node methods), the interval numbered dominator
  tree (laminar intervals, nesting <=> dominance, children == idom preimage),
  dominance frontier, post_dominates / get_immediate_post_dominator, can_reach.

Oracle: remove-node reachability (a dom b <=> b unreachable from the entry once a
is deleted) on every graph, and explicit enumeration of all simple paths on
graphs of <= 6 nodes; the two oracles are compared with each other first (a
disagreement is a harness error, never a verdict).

Conventions (DESIGN false-alarm guards): a node dominates itself;
DF(x) = {y : x dominates a predecessor of y and x does not strictly dominate y};
post-dominance is w.r.t. the synthetic exit; nodes that cannot reach the exit
are excluded as the post-dominated side; an exit node that is unreachable (no
sink) is never queried for dominance (the statement covers graphs whose nodes
are reachable).  can_reach(a, a): only "a on a cycle => True" is demanded (the
reflexive and the transitive-closure conventions both satisfy it).

Narrowed w.r.t. the design: "every CFG of every function compiled in C02's
workload" is replaced by (a) IR functions built directly from random/enumerated
graphs of out-degree <= 2 (Jump/CJump/Exit) and (b) functions compiled from
generated structured C (if/while/for/do/switch/break/continue/goto) with
c_to_ir, both wrapped in domtree.CfgInfo and judged by the same oracle on the
adjacency read back from block.successors.  6-node graphs and 5-node graphs
with self-loops are sampled, not enumerated.
"""
from vlib.core import rng, h

PROPERTY = "C25"
RULE = ("labelled digraphs (self-loops allowed) given as adjacency bit masks, entry = node 0, every node reachable, "
        "synthetic exit attached to all sinks (ir_function_to_graph convention) and, in a second variant, to a random "
        "extra subset; quick: ALL graphs on 1..4 nodes (exhaustive for that space; 3 build variants each: plain nodes, "
        "deterministic-hash nodes, permuted hash + shuffled edge insertion + extra exits) + sampled 5/6-node graphs + "
        "random 7..40-node graphs of 4 families (tree+extra, out-degree<=2, ladder with back/skip edges, dense) + IR "
        "functions built from graphs and compiled from generated C, through CfgInfo; thorough adds ALL 2^20 loop-free "
        "5-node graphs (reachability filtered) each also with one random self-loop decoration, 200k sampled 5/6-node "
        "graphs and 20k random large ones; non-trivial = some node has >= 2 predecessors besides itself (a join); "
        "distinct = distinct (n, edge mask, exit set)")
ASSUMPTIONS = ["brute-force remove-node reachability and simple-path enumeration implement the textbook definitions "
               "(cross-checked against each other on every graph of <= 6 nodes in the run)",
               "plain ControlFlowNode hashes are address based, so a failure seen only in a 'plain' variant may need "
               "several replays; the 'hash' variants fix set iteration order and replay exactly"]
MANIFEST_ENTRY = {
    "text": "Lengauer-Tarjan idoms, the interval dominator tree, dominates/strictly_dominates, dominance frontiers, "
            "fixed-point dominators and post-dominators and can_reach agree with brute-force path definitions on every "
            "digraph of <= 4 nodes (exhaustive), on all loop-free 5-node graphs (thorough) and on sampled larger, "
            "irreducible and compiler-produced CFGs",
    "note": "6-node graphs and 5-node graphs with self loops are sampled; C02's compiled-function workload is replaced "
            "by IR functions built from graphs and by generated C compiled with c_to_ir; open finding: the unused "
            "fixed-point calculate_dominators is wrong when the entry has a predecessor (avoided there only)",
    "technique": "runtime monitoring: brute-force dominator/post-dominator/reachability definitions over exhaustive "
                 "small and random large control-flow graphs driven through the real ControlFlowGraph API"}

K_FP_ENTRY = "fixed-point-dominators-entry-with-predecessor"


def EXHAUSTIVE(tier):
    return True


SHARD_TIMEOUT = {"quick": 1200, "thorough": 3 * 3600}


def plan(tier, seed, avoid):
    specs = [{"part": "exh", "n": 1, "lo": 0, "hi": 2}, {"part": "exh", "n": 2, "lo": 0, "hi": 16},
             {"part": "exh", "n": 3, "lo": 0, "hi": 512}]
    step = 2048
    specs += [{"part": "exh", "n": 4, "lo": lo, "hi": lo + step} for lo in range(0, 1 << 16, step)]
    if tier == "quick":
        specs += [{"part": "sample", "n": n, "count": 4000, "idx": i} for n in (5, 6) for i in range(3)]
        specs += [{"part": "random", "count": 500, "idx": i} for i in range(10)]
        specs += [{"part": "irfunc", "count": 1500, "idx": i} for i in range(2)]
        specs += [{"part": "csrc", "count": 60, "idx": i} for i in range(4)]
    else:
        step5 = 1 << 14
        specs += [{"part": "exh5", "lo": lo, "hi": lo + step5} for lo in range(0, 1 << 20, step5)]
        specs += [{"part": "sample", "n": n, "count": 12500, "idx": i} for n in (5, 6) for i in range(8)]
        specs += [{"part": "random", "count": 1250, "idx": i} for i in range(16)]
        specs += [{"part": "irfunc", "count": 5000, "idx": i} for i in range(8)]
        specs += [{"part": "csrc", "count": 250, "idx": i} for i in range(8)]
    return specs


def floors(tier):
    f = {"evaluations": 100000, "distinct_nontrivial": 20000,
         "observed.queries.lt_idom": 100000, "observed.queries.cfg_idom": 100000,
         "observed.queries.dominates": 500000, "observed.queries.strictly_dominates": 500000,
         "observed.queries.interval_pairs": 500000, "observed.queries.tree_children": 100000,
         "observed.queries.df": 100000, "observed.queries.post_dominates": 200000,
         "observed.queries.ipdom": 50000, "observed.queries.can_reach": 500000,
         "observed.queries.fp_dom": 50000, "observed.queries.fp_idom": 50000,
         "observed.queries.lt_naive_idom": 100000, "observed.queries.lt_recursive_idom": 100000,
         "observed.queries.cfginfo_df": 5000,
         "observed.shape.irreducible": 1000, "observed.shape.idom_not_dfs_parent": 1000,
         "observed.shape.nonempty_df": 10000, "observed.shape.nodes_cannot_reach_exit": 1000,
         "observed.part.exh": 40000, "observed.part.random": 1000, "observed.part.sample": 4000,
         "observed.part.irfunc": 1000, "observed.part.csrc": 200,
         "observed.oracle.path_vs_remove_agree": 40000}
    if tier == "thorough":
        f.update({"observed.part.exh5": 1500000, "evaluations": 2000000, "distinct_nontrivial": 1000000})
    return f


# ---- brute-force oracle ------------------------------------------------------

def reach_avoiding(succ, start, removed):
    """Nodes reachable from start (start included) without ever standing on `removed`."""
    if start == removed:
        return set()
    seen = {start}
    stack = [start]
    while stack:
        v = stack.pop()
        for w in succ[v]:
            if w != removed and w not in seen:
                seen.add(w)
                stack.append(w)
    return seen


def closure(succ, start):
    """Nodes reachable from start by a path of >= 1 edges."""
    seen = set()
    stack = [start]
    while stack:
        v = stack.pop()
        for w in succ[v]:
            if w not in seen:
                seen.add(w)
                stack.append(w)
    return seen


def dom_by_removal(succ, entry, universe):
    dom = {}
    cut = {a: reach_avoiding(succ, entry, a) for a in universe}
    for b in universe:
        dom[b] = {a for a in universe if a == b or b not in cut[a]}
    return dom


def dom_by_paths(succ, entry):
    """Intersection of the node sets of all simple paths entry -> b."""
    inter = {}

    def walk(v, onpath):
        cur = inter.get(v)
        inter[v] = set(onpath) if cur is None else (cur & onpath)
        for w in succ[v]:
            if w not in onpath:
                onpath.add(w)
                walk(w, onpath)
                onpath.discard(w)

    walk(entry, {entry})
    return inter


def immediate(dom, root):
    """idom from dominator sets: the strict dominator dominated by all other strict dominators."""
    res = {}
    for b, ds in dom.items():
        if b == root:
            continue
        sd = ds - {b}
        cands = [d for d in sd if sd <= dom[d]]
        if len(cands) != 1:
            raise OracleError("idom of %r not unique: %r" % (b, cands))
        res[b] = cands[0]
    return res


class OracleError(Exception):
    pass


class Oracle:
    """All definitions for a graph with nodes 0..n-1 and the synthetic exit n."""

    def __init__(self, n, edges, exits, use_paths):
        N = n + 1
        X = n
        succ = [set() for _ in range(N)]
        pred = [set() for _ in range(N)]
        for i, j in edges:
            succ[i].add(j)
            pred[j].add(i)
        for i in exits:
            succ[i].add(X)
            pred[X].add(i)
        self.n, self.N, self.X, self.succ, self.pred = n, N, X, succ, pred
        self.R = reach_avoiding(succ, 0, None)
        if not set(range(n)) <= self.R:
            raise OracleError("generator produced an unreachable node")
        self.dom = dom_by_removal(succ, 0, self.R)
        self.paths_checked = False
        if use_paths:
            alt = dom_by_paths(succ, 0)
            if alt != self.dom:
                raise OracleError("remove-node and path-enumeration dominators disagree: %r vs %r" % (self.dom, alt))
            self.paths_checked = True
        self.idom = immediate(self.dom, 0)
        self.df = {}
        for x in self.R:
            self.df[x] = {y for y in self.R
                          if any(x in self.dom[p] for p in pred[y] if p in self.R)
                          and not (x != y and x in self.dom[y])}
        # post dominators on the reversed graph, only for nodes that reach the exit
        rsucc = pred
        self.E = reach_avoiding(rsucc, X, None)
        self.pdom = dom_by_removal(rsucc, X, self.E)
        if use_paths:
            alt = dom_by_paths(rsucc, X)
            if alt != self.pdom:
                raise OracleError("remove-node and path-enumeration post-dominators disagree")
        self.ipdom = immediate(self.pdom, X)
        self.reach = [closure(succ, a) for a in range(N)]

    def shape(self):
        """Histogram facts about the graph (what the monitor was exposed to)."""
        sh = {}
        back = {(a, b) for a in self.R for b in self.succ[a] if b in self.dom[a]}
        # reducible <=> forward edges (non back edges) form a DAG
        fsucc = [set(b for b in self.succ[a] if (a, b) not in back) for a in range(self.N)]
        state = {}
        cyc = False
        for s in self.R:
            if s in state:
                continue
            stack = [(s, iter(fsucc[s]))]
            state[s] = 1
            while stack and not cyc:
                v, it = stack[-1]
                for w in it:
                    if state.get(w) == 1:
                        cyc = True
                        break
                    if w not in state:
                        state[w] = 1
                        stack.append((w, iter(fsucc[w])))
                        break
                else:
                    state[v] = 2
                    stack.pop()
            if cyc:
                break
        if cyc:
            sh["irreducible"] = 1
        if back:
            sh["has_back_edge"] = 1
        if any(a == b for a, b in back):
            sh["has_self_loop"] = 1
        if any(self.df[x] for x in self.R):
            sh["nonempty_df"] = 1
        if any(x in self.df[x] for x in self.R):
            sh["node_in_own_df"] = 1
        if len(self.E) < len(self.R | {self.X}):
            sh["nodes_cannot_reach_exit"] = 1
        if self.X not in self.R:
            sh["exit_unreachable"] = 1
        if self.pred[0] - {0}:
            sh["entry_has_predecessor"] = 1
        if any(self.idom[b] not in self.pred[b] for b in self.idom):
            sh["idom_not_a_predecessor"] = 1
        return sh

    def nontrivial(self):
        return any(len(self.pred[b] - {b}) >= 2 for b in range(self.n))


# ---- driving the real code -----------------------------------------------------

def node_classes():
    from ppci.graph import cfg

    class HNode(cfg.ControlFlowNode):
        """ControlFlowNode with a chosen hash: fixes set iteration order (replayable)."""

        def __init__(self, graph, name, hv):
            self._hv = hv
            super().__init__(graph, name=name)

        def __hash__(self):
            return self._hv

    return cfg.ControlFlowNode, HNode


def build_graph(n, edges, exits, variant, r):
    """Build the ControlFlowGraph the way ir_function_to_graph does."""
    from ppci.graph import cfg

    plain, hnode = node_classes()
    g = cfg.ControlFlowGraph()
    if variant == "plain":
        ex = plain(g, name=None)
        nodes = [plain(g, name="n%d" % i) for i in range(n)]
        elist = list(edges)
        xlist = list(exits)
    else:
        hv = list(range(n + 1))
        elist = list(edges)
        xlist = list(exits)
        if variant == "perm":
            r.shuffle(hv)
            stride = r.choice((1, 1, 3, 7, 8, 9, 64))
            hv = [x * stride for x in hv]
            r.shuffle(elist)
            r.shuffle(xlist)
        ex = hnode(g, None, hv[n])
        nodes = [hnode(g, "n%d" % i, hv[i]) for i in range(n)]
    for i, j in elist:
        nodes[i].add_edge(nodes[j])
    for i in xlist:
        nodes[i].add_edge(ex)
    g.entry_node = nodes[0]
    g.exit_node = ex
    return g, nodes + [ex]


class Mon:
    def __init__(self, spec):
        self.spec = spec
        self.evals = 0
        self.q = {}
        self.shape = {}
        self.part = {}
        self.oracle = {}
        self.viol = []
        self.samples = []
        self.discarded = {}
        self.inconclusive = []
        self.nontrivial_count = 0
        self.nontrivial_hashes = set()
        self.variants = {}
        self.refuting = 0

    def count(self, d, k, n=1):
        d[k] = d.get(k, 0) + n

    def stop(self):
        """A shard that has seen plenty of refuting events stops enumerating (the run is a violation anyway)."""
        if self.refuting >= 200:
            self.discarded["shard_stopped_after_200_refuting_events"] = 1
            return True
        return False

    def bad(self, what, case):
        self.refuting += 1
        if len(self.viol) < 5:
            self.viol.append({"summary": what, "case": case})

    def result(self):
        return {"evaluations": self.evals, "nontrivial_count": self.nontrivial_count,
                "nontrivial_hashes": sorted(self.nontrivial_hashes),
                "observed": {"queries": self.q, "shape": self.shape, "part": self.part, "oracle": self.oracle,
                             "variants": self.variants},
                "discarded": self.discarded, "violations": self.viol, "samples": self.samples[:2],
                "inconclusive": self.inconclusive[:3]}


def call(fn, *a):
    try:
        return True, fn(*a)
    except Exception as e:  # noqa: every exception on an in-quantifier graph is judged by the caller
        return False, "raised %s: %s" % (type(e).__name__, str(e)[:120])


def lt_variants():
    from ppci.graph import lt

    class NaiveLT(lt.LengauerTarjan):
        def ancestor_with_lowest_semi(self, v):
            return self.ancestor_with_lowest_semi_naive(v)

    class RecursiveLT(lt.LengauerTarjan):
        def ancestor_with_lowest_semi(self, v):
            return self.ancestor_with_lowest_semi_fast(v)

    return NaiveLT, RecursiveLT


def compare(mon, g, nodes, ora, avoid, label):
    """Run every listed query on the real graph g and compare with the oracle.
    Returns a list of mismatch descriptions."""
    from ppci.graph import lt
    from ppci.graph.algorithm import fixed_point_dominator as fp

    out = []
    idx = {nd: i for i, nd in enumerate(nodes)}
    R = sorted(ora.R)
    name = lambda nd: idx.get(nd, repr(nd)) if nd is not None else None  # noqa

    def miss(what):
        if len(out) < 6:
            out.append(what)

    # --- Lengauer-Tarjan, direct
    want_idom = {b: ora.idom[b] for b in R if b != 0}
    for qname, fn in (("lt_idom", lambda: lt.calculate_idom(g, nodes[0])),
                      ("lt_naive_idom", lambda: lt_variants()[0](False).compute(g, nodes[0])),
                      ("lt_recursive_idom", lambda: lt_variants()[1](False).compute(g, nodes[0]))):
        ok, got = call(fn)
        mon.count(mon.q, qname, len(want_idom) or 1)
        if not ok:
            miss("%s %s" % (qname, got))
        else:
            got = {name(k): name(v) for k, v in got.items()}
            if got != want_idom:
                miss("%s = %r, definition %r" % (qname, got, want_idom))

    # --- ControlFlowGraph idom + tree
    for b in R:
        ok, got = call(g.get_immediate_dominator, nodes[b])
        mon.count(mon.q, "cfg_idom")
        want = ora.idom.get(b)
        if not ok or name(got) != want:
            miss("get_immediate_dominator(%s) = %s, definition %s" % (b, got if not ok else name(got), want))
    pairs = 0
    for a in R:
        for b in R:
            pairs += 1
            want = a in ora.dom[b]
            ok, got = call(g.dominates, nodes[a], nodes[b])
            if not ok or got is not want:
                miss("dominates(%s, %s) = %s, definition %s" % (a, b, got, want))
            ok, got = call(nodes[a].dominates, nodes[b])
            if not ok or got is not want:
                miss("node %s .dominates(%s) = %s, definition %s" % (a, b, got, want))
            wants = want and a != b
            ok, got = call(g.strictly_dominates, nodes[a], nodes[b])
            if not ok or got is not wants:
                miss("strictly_dominates(%s, %s) = %s, definition %s" % (a, b, got, wants))
    mon.count(mon.q, "dominates", 2 * pairs)
    mon.count(mon.q, "strictly_dominates", pairs)

    # --- interval numbered tree
    tm = getattr(g, "tree_map", None)
    if tm is None:
        miss("no tree_map after dominance queries")
    else:
        try:
            iv = {b: tm[nodes[b]].interval for b in R}
            ends = []
            for b in R:
                s, e = iv[b]
                if not (isinstance(s, int) and isinstance(e, int) and s < e):
                    miss("interval of %s is %r (not start < end)" % (b, iv[b]))
                ends += [s, e]
            if len(set(ends)) != len(ends):
                miss("interval end points not distinct: %r" % (iv,))
            for a in R:
                for b in R:
                    (sa, ea), (sb, eb) = iv[a], iv[b]
                    nested = sa <= sb and eb <= ea
                    disjoint = ea < sb or eb < sa
                    want = a in ora.dom[b]
                    if nested is not want:
                        miss("interval(%s)=%r inside interval(%s)=%r is %s but dominance is %s" % (
                            b, iv[b], a, iv[a], nested, want))
                    if not want and b not in ora.dom[a] and not disjoint:
                        miss("intervals of unrelated %s %r and %s %r overlap" % (a, iv[a], b, iv[b]))
            mon.count(mon.q, "interval_pairs", len(R) * len(R))
            if g.root_tree is not tm[nodes[0]]:
                miss("root_tree is not the entry's tree node")
            for a in R:
                kids = sorted(name(c.node) for c in tm[nodes[a]].children)
                want = sorted(b for b in R if ora.idom.get(b) == a)
                kids2 = sorted(name(c) for c in g.children(nodes[a]))
                mon.count(mon.q, "tree_children")
                if kids != want or kids2 != want:
                    miss("dominator tree children of %s = %r / %r, definition %r" % (a, kids, kids2, want))
            order = [name(x) for x in g.bottom_up(g.root_tree)]
            pos = {x: i for i, x in enumerate(order)}
            if sorted(order) != R or any(pos[b] > pos[ora.idom[b]] for b in R if b != 0):
                miss("bottom_up order %r is not children-before-parent over the reachable nodes" % (order,))
        except Exception as e:  # noqa
            miss("dominator tree inspection raised %s: %s" % (type(e).__name__, e))

    # --- dominance frontier
    ok, got = call(g.calculate_dominance_frontier)
    if not ok:
        miss("calculate_dominance_frontier %s" % got)
    else:
        gdf = {name(k): {name(x) for x in v} for k, v in g.df.items()}
        mon.count(mon.q, "df", len(R))
        if gdf != ora.df:
            bad = [x for x in R if gdf.get(x) != ora.df[x]]
            miss("dominance frontier differs at %r: got %r, definition %r" % (
                bad, {x: sorted(gdf.get(x, ["<missing>"])) for x in bad}, {x: sorted(ora.df[x]) for x in bad}))

    # --- fixed point dominators
    if (ora.pred[0] - {0}) and K_FP_ENTRY in avoid:
        mon.count(mon.discarded, "fp_dominators_skipped_entry_has_predecessor(open finding)")
    else:
        ok, got = call(fp.calculate_dominators, g.nodes, nodes[0])
        mon.count(mon.q, "fp_dom", len(R))
        if not ok:
            miss("calculate_dominators %s" % got)
        else:
            gdom = {name(k): {name(x) for x in v} for k, v in got.items() if name(k) in ora.R}
            if gdom != ora.dom:
                bad = [x for x in R if gdom.get(x) != ora.dom[x]]
                miss("fixed-point calculate_dominators differs at %r: got %r, definition %r" % (
                    bad, {x: sorted(gdom.get(x, [])) for x in bad}, {x: sorted(ora.dom[x]) for x in bad}))
            else:
                rn = [nodes[b] for b in R]
                dm = {nd: got[nd] for nd in rn}
                sdm = {nd: got[nd] - {nd} for nd in rn}
                ok, gi = call(fp.calculate_immediate_dominators, rn, dm, sdm)
                mon.count(mon.q, "fp_idom", len(want_idom) or 1)
                if not ok:
                    miss("calculate_immediate_dominators %s" % gi)
                else:
                    gi = {name(k): name(v) for k, v in gi.items()}
                    if gi != want_idom:
                        miss("calculate_immediate_dominators = %r, definition %r" % (gi, want_idom))

    # --- post dominators (w.r.t. the synthetic exit), only for nodes that reach it
    E = sorted(ora.E)
    allidx = range(ora.N)
    npd = 0
    for b in E:
        for a in allidx:
            npd += 1
            want = a in ora.pdom[b]
            ok, got = call(g.post_dominates, nodes[a], nodes[b])
            if not ok or got is not want:
                miss("post_dominates(%s, %s) = %s, definition %s (exit is %s)" % (a, b, got, want, ora.X))
        ok, got = call(nodes[b].post_dominates, nodes[b])
        if not ok or got is not True:
            miss("node %s .post_dominates(itself) = %s" % (b, got))
        ok, got = call(g.get_immediate_post_dominator, nodes[b])
        mon.count(mon.q, "ipdom")
        want = ora.ipdom.get(b)
        if not ok or name(got) != want:
            miss("get_immediate_post_dominator(%s) = %s, definition %s (exit is %s)" % (
                b, got if not ok else name(got), want, ora.X))
    mon.count(mon.q, "post_dominates", npd)

    # --- reachability
    nr = 0
    for a in allidx:
        for b in allidx:
            ok, got = call(g.can_reach, nodes[a], nodes[b])
            want = b in ora.reach[a]
            if a == b and not want:
                # convention-free: only "on a cycle => True" is demanded
                if not ok or not isinstance(got, bool):
                    miss("can_reach(%s, %s) = %s" % (a, b, got))
                else:
                    mon.count(mon.q, "can_reach_self_not_on_cycle_answer_%s" % got)
                continue
            nr += 1
            if not ok or got is not want:
                miss("can_reach(%s, %s) = %s, definition %s" % (a, b, got, want))
            if a != b:
                ok, got = call(nodes[a].can_reach, nodes[b])
                if not ok or got is not want:
                    miss("node %s .can_reach(%s) = %s, definition %s" % (a, b, got, want))
    mon.count(mon.q, "can_reach", nr)
    return out


def examine(mon, part, n, edges, exits_variants, variants, r, avoid, distinct):
    """One graph: oracle once per exit set, real code once per (variant, exit set).
    distinct: "count" (distinct by construction), "hash", or "none" (already counted elsewhere)."""
    edges = sorted(edges)
    first = True
    for variant, exits in zip(variants, exits_variants):
        exits = sorted(exits)
        case = {"n": n, "edges": edges, "exits": exits, "variant": variant, "entry": 0, "exit_node": n}
        try:
            ora = Oracle(n, edges, exits, use_paths=(n <= 6))
        except OracleError as e:
            mon.inconclusive.append("oracle self-check: %s on %r" % (e, case))
            return
        if ora.paths_checked:
            mon.count(mon.oracle, "path_vs_remove_agree")
        state = r.getstate()
        try:
            g, nodes = build_graph(n, edges, exits, variant, r)
        except Exception as e:  # noqa
            mon.bad("building the graph raised %s: %s" % (type(e).__name__, e), case)
            continue
        mism = compare(mon, g, nodes, ora, avoid, variant)
        mon.evals += 1
        mon.count(mon.part, part)
        mon.count(mon.variants, variant)
        if first:
            first = False
            for k in ora.shape():
                mon.count(mon.shape, k)
            if ora.idom and _idom_not_dfs_parent(ora):
                mon.count(mon.shape, "idom_not_dfs_parent")
            mon.count(mon.shape, "nodes_%02d" % n if n <= 6 else "nodes_%s" % ("07-15" if n <= 15 else "16-40"))
            if ora.nontrivial():
                if distinct == "count":
                    mon.nontrivial_count += 1
                elif distinct == "hash":
                    mon.nontrivial_hashes.add(h([n, edges, exits]))
            if len(mon.samples) < 2 and n >= 4 and ora.nontrivial() and "irreducible" in ora.shape():
                mon.samples.append({"n": n, "edges": edges, "exits": exits,
                                    "idom": {str(k): v for k, v in ora.idom.items()},
                                    "df": {str(k): sorted(v) for k, v in ora.df.items()},
                                    "ipdom": {str(k): v for k, v in ora.ipdom.items()}})
        if mism:
            case["mismatches"] = mism
            case["definition"] = {"idom": {str(k): v for k, v in ora.idom.items()},
                                  "dom": {str(k): sorted(v) for k, v in ora.dom.items()},
                                  "df": {str(k): sorted(v) for k, v in ora.df.items()},
                                  "pdom": {str(k): sorted(v) for k, v in ora.pdom.items()}}
            case["rng_state_hash"] = h(repr(state))
            mon.bad("graph n=%d edges=%r exits=%r [%s]: %s" % (n, edges, exits, variant, mism[0]), case)


def _idom_not_dfs_parent(ora):
    """Some node whose idom is none of its predecessors' ... i.e. LT's semidominator step matters."""
    return any(len(ora.pred[b] - {b}) >= 2 and ora.idom[b] not in ora.pred[b] for b in ora.idom)


# ---- generators ---------------------------------------------------------------

def mask_edges(n, mask):
    return [(i, j) for i in range(n) for j in range(n) if mask >> (i * n + j) & 1]


def all_reachable(n, edges):
    succ = [[] for _ in range(n)]
    for i, j in edges:
        succ[i].append(j)
    return len(reach_avoiding(succ, 0, None)) == n


def sinks(n, edges):
    has = {i for i, _ in edges}
    return [i for i in range(n) if i not in has]


def extra_exits(n, edges, r):
    base = set(sinks(n, edges))
    k = r.randrange(1, n + 1)
    return sorted(base | set(r.sample(range(n), k)))


def offdiag_edges(n, mask):
    """mask over the n*(n-1) ordered pairs i != j (loop-free graphs)."""
    out = []
    k = 0
    for i in range(n):
        for j in range(n):
            if i != j:
                if mask >> k & 1:
                    out.append((i, j))
                k += 1
    return out


def decoration(seed, base_mask):
    """The one self-loop decoration (non-empty subset of 5 nodes) examined for a loop-free 5-node graph."""
    return rng(seed, PROPERTY, "deco%d" % base_mask).randrange(1, 32)


def random_graph(r, n):
    fam = r.choice(("tree", "cfg2", "ladder", "dense"))
    edges = set()
    order = list(range(1, n))
    r.shuffle(order)
    order = [0] + order
    if fam == "tree":
        for k in range(1, n):
            edges.add((order[r.randrange(k)], order[k]))
        for _ in range(r.randrange(0, 2 * n + 1)):
            edges.add((r.randrange(n), r.randrange(n)))
    elif fam == "cfg2":
        outdeg = [0] * n
        for k in range(1, n):
            cands = [order[q] for q in range(k) if outdeg[order[q]] < 2]
            p = r.choice(cands)
            edges.add((p, order[k]))
            outdeg[p] += 1
        for v in range(n):
            while outdeg[v] < 2 and r.random() < 0.55:
                w = r.randrange(n)
                if (v, w) not in edges:
                    edges.add((v, w))
                outdeg[v] += 1
    elif fam == "ladder":
        for k in range(1, n):
            edges.add((order[k - 1], order[k]))
        for _ in range(r.randrange(1, n + 2)):
            a, b = r.randrange(n), r.randrange(n)
            if r.random() < 0.6 and a < b:
                a, b = b, a  # back edge along the chain
            edges.add((order[a], order[b]))
    else:
        p = r.choice((0.15, 0.3, 0.6))
        for k in range(1, n):
            edges.add((order[r.randrange(k)], order[k]))
        for i in range(n):
            for j in range(n):
                if r.random() < p:
                    edges.add((i, j))
    return fam, sorted(edges)


# ---- IR functions through CfgInfo ------------------------------------------------

def ir_from_graph(n, edges):
    """A ppci IR procedure whose blocks jump as the graph says (out-degree <= 2)."""
    from ppci import ir

    succ = [[] for _ in range(n)]
    for i, j in edges:
        succ[i].append(j)
    f = ir.Procedure("f", ir.Binding.GLOBAL)
    blocks = [ir.Block("b%d" % i) for i in range(n)]
    for b in blocks:
        f.add_block(b)
    f.entry = blocks[0]
    for i, b in enumerate(blocks):
        s = succ[i]
        if not s:
            b.add_instruction(ir.Exit())
        elif len(s) == 1:
            b.add_instruction(ir.Jump(blocks[s[0]]))
        else:
            c1 = ir.Const(i, "c", ir.i32)
            c2 = ir.Const(1, "d", ir.i32)
            b.add_instruction(c1)
            b.add_instruction(c2)
            b.add_instruction(ir.CJump(c1, "<", c2, blocks[s[0]], blocks[s[1]]))
    return f


def examine_function(mon, part, function, r, avoid, src=None):
    """CfgInfo(function) against the oracle on the adjacency read from block.successors."""
    from ppci.graph.domtree import CfgInfo

    # independent extraction: breadth-first numbering of reachable blocks
    order = [function.entry]
    seen = {id(function.entry)}
    k = 0
    while k < len(order):
        for s in order[k].successors:
            if id(s) not in seen:
                seen.add(id(s))
                order.append(s)
        k += 1
    num = {id(b): i for i, b in enumerate(order)}
    n = len(order)
    edges = sorted({(num[id(b)], num[id(s)]) for b in order for s in b.successors})
    exits = [num[id(b)] for b in order if len(b.successors) == 0]
    case = {"n": n, "edges": edges, "exits": exits, "variant": "CfgInfo", "blocks": [b.name for b in order]}
    if src:
        case["source"] = src
    if n > 60:
        mon.count(mon.discarded, "function_over_60_blocks")
        return
    try:
        ora = Oracle(n, edges, exits, use_paths=(n <= 6))
    except OracleError as e:
        mon.inconclusive.append("oracle self-check: %s on %r" % (e, case))
        return
    ok, info = call(CfgInfo, function)
    mon.evals += 1
    mon.count(mon.part, part)
    mon.count(mon.variants, "CfgInfo")
    for kx in ora.shape():
        mon.count(mon.shape, kx)
    if _idom_not_dfs_parent(ora):
        mon.count(mon.shape, "idom_not_dfs_parent")
    mon.count(mon.shape, "nodes_%02d" % n if n <= 6 else "nodes_%s" % ("07-15" if n <= 15 else "16-40+"))
    if ora.nontrivial():
        mon.nontrivial_hashes.add(h([n, edges, sorted(exits)]))
    if not ok:
        mon.bad("CfgInfo(function) %s" % info, case)
        return
    mism = []
    try:
        nodes = [info.get_node(b) for b in order] + [info.cfg.exit_node]
        if info.cfg.entry_node is not nodes[0]:
            mism.append("cfg.entry_node is not the entry block's node")
        if any(info.get_block(info.get_node(b)) is not b for b in order):
            mism.append("get_block(get_node(b)) is not b")
        got = {num[id(b)]: {num[id(x)] for x in v} for b, v in info.df.items()}
        want = {x: {y for y in ora.df[x] if y != ora.X} for x in ora.R if x != ora.X}
        mon.count(mon.q, "cfginfo_df", len(want))
        if got != want:
            bad = [x for x in sorted(want) if got.get(x) != want[x]]
            mism.append("CfgInfo.df differs at blocks %r: got %r, definition %r" % (
                bad, {x: sorted(got.get(x, [])) for x in bad}, {x: sorted(want[x]) for x in bad}))
        # the graph made by ir_function_to_graph must be the graph of the function
        gedges = sorted((i, j) for i in range(n + 1) for j in range(n + 1)
                        if nodes[j] in info.cfg.successors(nodes[i]))
        wedges = sorted(set(edges) | {(i, n) for i in exits})
        if gedges != wedges or len(info.cfg) != n + 1:
            mism.append("ir_function_to_graph edges %r differ from block.successors %r" % (gedges, wedges))
        else:
            mism += compare(mon, info.cfg, nodes, ora, avoid, "CfgInfo")
    except Exception as e:  # noqa
        mism.append("inspecting CfgInfo raised %s: %s" % (type(e).__name__, e))
    if mism:
        case["mismatches"] = mism
        mon.bad("function with %d blocks edges=%r: %s" % (n, edges, mism[0]), case)
    elif src and len(mon.samples) < 1 and n >= 8:
        mon.samples.append({"c_source": src, "blocks": n, "edges": edges})


def gen_c(r, nfun):
    """Structured C with loops, switch, break/continue and goto (irreducible flow possible)."""
    out = ["int g(int);"]
    for fi in range(nfun):
        labels = []
        body = gen_stmts(r, 0, labels, in_loop=False, budget=[r.randrange(6, 22)])
        used = sorted(set(labels))
        text = "int f%d(int a, int b) {\n int x = a;\n" % fi + body
        for lab in used:
            text += " %s: x = x + g(x);\n" % lab
            if r.random() < 0.4:
                text += " if (x < b) goto %s;\n" % r.choice(used)
        text += " return x;\n}\n"
        out.append(text)
    return "\n".join(out)


def gen_stmts(r, depth, labels, in_loop, budget):
    s = ""
    for _ in range(r.randrange(1, 4)):
        if budget[0] <= 0:
            break
        budget[0] -= 1
        kind = r.choice(("assign", "if", "ifelse", "while", "for", "do", "switch", "goto", "break", "continue",
                         "return", "assign", "if"))
        if depth >= 3 and kind in ("if", "ifelse", "while", "for", "do", "switch"):
            kind = "assign"
        cond = "%s %s %s" % (r.choice("xab"), r.choice(("<", ">", "==", "!=")), r.choice(("a", "b", "3", "x + 1")))
        if kind == "assign":
            s += " x = x %s %s;\n" % (r.choice("+-*"), r.choice(("a", "b", "1", "g(x)")))
        elif kind == "if":
            s += " if (%s) {\n%s }\n" % (cond, gen_stmts(r, depth + 1, labels, in_loop, budget))
        elif kind == "ifelse":
            s += " if (%s) {\n%s } else {\n%s }\n" % (cond, gen_stmts(r, depth + 1, labels, in_loop, budget),
                                                    gen_stmts(r, depth + 1, labels, in_loop, budget))
        elif kind == "while":
            s += " while (%s) {\n%s x = x + 1;\n }\n" % (cond, gen_stmts(r, depth + 1, labels, True, budget))
        elif kind == "for":
            s += " for (x = 0; %s; x = x + 1) {\n%s }\n" % (cond, gen_stmts(r, depth + 1, labels, True, budget))
        elif kind == "do":
            s += " do {\n%s x = x + 2;\n } while (%s);\n" % (gen_stmts(r, depth + 1, labels, True, budget), cond)
        elif kind == "switch":
            s += " switch (x) {\n"
            for cv in range(r.randrange(1, 4)):
                s += " case %d:\n%s" % (cv, gen_stmts(r, depth + 1, labels, in_loop, budget))
                if r.random() < 0.7:
                    s += " break;\n"
            if r.random() < 0.5:
                s += " default:\n%s break;\n" % gen_stmts(r, depth + 1, labels, in_loop, budget)
            s += " }\n"
        elif kind == "goto":
            lab = "L%d" % r.randrange(3)
            labels.append(lab)
            s += " if (%s) goto %s;\n" % (cond, lab)
        elif kind in ("break", "continue"):
            if in_loop:
                s += " if (%s) %s;\n" % (cond, kind)
            else:
                s += " x = x + 5;\n"
        elif kind == "return":
            s += " if (%s) return x;\n" % cond
    return s


# ---- shards ----------------------------------------------------------------------

def run_shard(spec):
    mon = Mon(spec)
    avoid = spec.get("avoid", [])
    part = spec["part"]
    seed = spec["seed"]
    if part == "exh":
        n = spec["n"]
        for mask in range(spec["lo"], spec["hi"]):
            if mon.stop():
                break
            edges = mask_edges(n, mask)
            if not all_reachable(n, edges):
                mon.count(mon.discarded, "node_unreachable_from_entry(outside quantifier)")
                continue
            r = rng(seed, PROPERTY, "exh/%d/%d" % (n, mask))
            sk = sinks(n, edges)
            examine(mon, "exh", n, edges, [sk, sk, extra_exits(n, edges, r)], ["plain", "hash", "perm"], r, avoid,
                    distinct="count")
    elif part == "exh5":
        n = 5
        for base in range(spec["lo"], spec["hi"]):
            if mon.stop():
                break
            edges = offdiag_edges(n, base)
            if not all_reachable(n, edges):
                mon.count(mon.discarded, "node_unreachable_from_entry(outside quantifier)")
                continue
            r = rng(seed, PROPERTY, "exh5/%d" % base)
            sk = sinks(n, edges)
            examine(mon, "exh5", n, edges, [sk, extra_exits(n, edges, r)], ["hash", "perm"], r, avoid,
                    distinct="count")
            deco = decoration(seed, base)
            e2 = sorted(edges + [(i, i) for i in range(n) if deco >> i & 1])
            sk2 = sinks(n, e2)
            examine(mon, "exh5", n, e2, [sk2, sk2], ["plain", "perm"], r, avoid, distinct="count")
    elif part == "sample":
        n = spec["n"]
        thorough = spec["tier"] == "thorough"
        done = 0
        k = 0
        while done < spec["count"] and k < 20 * spec["count"] and not mon.stop():
            r = rng(seed, PROPERTY, "sample/%d/%d/%d" % (n, spec["idx"], k))
            k += 1
            p = r.choice((0.12, 0.2, 0.3, 0.5))
            mask = 0
            for bit in range(n * n):
                if r.random() < p:
                    mask |= 1 << bit
            edges = mask_edges(n, mask)
            if not all_reachable(n, edges):
                mon.count(mon.discarded, "node_unreachable_from_entry(outside quantifier)")
                continue
            done += 1
            distinct = "hash"
            if thorough and n == 5:
                # graphs the exhaustive 5-node part already counts are not counted twice
                loops = sum(1 << i for i, j in edges if i == j)
                eset = set(edges)
                base = 0
                kk = 0
                for i in range(n):
                    for j in range(n):
                        if i != j:
                            if (i, j) in eset:
                                base |= 1 << kk
                            kk += 1
                if loops == 0 or loops == decoration(seed, base):
                    distinct = "none"
            sk = sinks(n, edges)
            examine(mon, "sample", n, edges, [sk, extra_exits(n, edges, r)], ["plain", "perm"], r, avoid,
                    distinct=distinct)
    elif part == "random":
        for k in range(spec["count"]):
            if mon.stop():
                break
            r = rng(seed, PROPERTY, "random/%d/%d" % (spec["idx"], k))
            n = r.choice((7, 8, 9, 10, 12, 14, 17, 20, 25, 30, 40))
            fam, edges = random_graph(r, n)
            if not all_reachable(n, edges):
                mon.count(mon.discarded, "node_unreachable_from_entry(outside quantifier)")
                continue
            mon.count(mon.shape, "family_" + fam)
            sk = sinks(n, edges)
            examine(mon, "random", n, edges, [sk, extra_exits(n, edges, r)], ["plain", "perm"], r, avoid,
                    distinct="hash")
    elif part == "irfunc":
        for k in range(spec["count"]):
            if mon.stop():
                break
            r = rng(seed, PROPERTY, "irfunc/%d/%d" % (spec["idx"], k))
            n = r.choice((2, 3, 4, 5, 6, 8, 10, 14, 20, 30))
            if n <= 4 and r.random() < 0.5:
                mask = r.getrandbits(n * n)
                edges = mask_edges(n, mask)
            else:
                edges = []
                for _ in range(40):
                    fam, edges = random_graph(r, n)
                    if fam == "cfg2":
                        break
            deg = {}
            for i, j in edges:
                deg[i] = deg.get(i, 0) + 1
            if any(v > 2 for v in deg.values()):
                # trim to out-degree 2 (IR blocks end in Jump/CJump)
                keep, cnt = [], {}
                for i, j in edges:
                    if cnt.get(i, 0) < 2:
                        keep.append((i, j))
                        cnt[i] = cnt.get(i, 0) + 1
                edges = keep
            if not all_reachable(n, edges):
                mon.count(mon.discarded, "node_unreachable_from_entry(outside quantifier)")
                continue
            try:
                f = ir_from_graph(n, edges)
            except Exception as e:  # noqa
                mon.inconclusive.append("could not build IR function: %r" % (e,))
                continue
            examine_function(mon, "irfunc", f, r, avoid)
    elif part == "csrc":
        import io

        from ppci import api

        for k in range(spec["count"]):
            if mon.stop():
                break
            r = rng(seed, PROPERTY, "csrc/%d/%d" % (spec["idx"], k))
            src = gen_c(r, 3)
            try:
                m = api.c_to_ir(io.StringIO(src), "x86_64")
            except Exception as e:  # noqa: front-end trouble is C28's business, not a verdict here
                mon.count(mon.discarded, "c_to_ir_failed_%s" % type(e).__name__)
                continue
            for f in m.functions:
                examine_function(mon, "csrc", f, r, avoid, src=src)
    return mon.result()


# ---- known findings ---------------------------------------------------------------

def probe_fp_entry():
    from ppci.graph import cfg
    from ppci.graph.algorithm import fixed_point_dominator as fp

    g = cfg.ControlFlowGraph()
    a = cfg.ControlFlowNode(g, name="a")
    b = cfg.ControlFlowNode(g, name="b")
    a.add_edge(b)
    b.add_edge(a)
    dom = fp.calculate_dominators(g.nodes, a)
    if dom[a] == {a}:
        return None
    return "calculate_dominators on entry a, a->b, b->a gives dom(a) = %s, definition {a}" % sorted(
        x.name for x in dom[a])


PROBES = {K_FP_ENTRY: probe_fp_entry}
