"""C02 optimizer preserves IR behaviour at every level and for every pass (DESIGN C02)."""
PROPERTY = "C02"
RULE = ("three of four modules from vlib.irgen, every fourth a vlib.cgen program compiled by the real C front-end, one in sixteen each a vlib.pygen program through python_to_ir and a vlib.c3gen program through c3_to_ir; irgen:  (SSA with phis/loops/breaks/continues/early returns, memory-form arbitrary CFGs, "
        "globals, blobs, calls, tail calls, externals) are run through ppci.api.optimize(level in 1,2,s) with every "
        "pass wrapped, through single passes and random pass sequences; after every pass that changed the module "
        "(structural hash) all functions are re-executed by the reference interpreter on 3 argument vectors and "
        "compared (return value, globals, external-call trace) with the run before the pass; evaluations = "
        "comparisons whose 'before' run was defined; non-trivial = (case, pass, resulting module) where a compared "
        "run executed >= 10 instructions and >= 1 branch")
ASSUMPTIONS = ["vlib.refinterp implements IR semantics (cross-validated by C01/C04/C24 three-way agreement)",
               "undefined executions (poison reaching an observable, traps) are discarded, not judged"]
MANIFEST_ENTRY = {
    "text": "Every real pass execution on generated modules is followed by a differential run of the reference "
            "interpreter; a behavioural difference after any pass, level or sequence is a violation.",
    "note": "Behaviour = return value, final global memory, external-call trace on 3 argument vectors per function; "
            "internal memory of dead frames is not compared; reference interpreter is the trusted base.",
    "technique": "runtime monitoring: reference IR interpreter before/after every wrapped pass run",
}


def plan(tier, seed, avoid):
    n, per = (480, 15) if tier == "quick" else (8000, 125)
    return [{"start": s, "count": per} for s in range(0, n, per)]


def floors(tier):
    return {"evaluations": 2000, "distinct_nontrivial": 200, "observed.pass_changed": 6}


def run_shard(spec):
    from vlib import optmon
    return optmon.run_shard(spec, PROPERTY)
