"""C23 IR -> WebAssembly translation preserves behaviour (DESIGN 4, C23).

Observation point: ``ppci.wasm.ir_to_wasm(M)`` (the real translator, with a
counting wrapper around ``relooper.find_structure`` and a capturing wrapper
around ``IrToWasmCompiler.create_wasm_module`` that only reads the address
ppci gave every global).  The produced ``Module.to_bytes()`` is instantiated
in V8 (node, vlib/v8driver.js, a fresh instance per call) and every function
is called on generated argument vectors.  Oracle: vlib.refinterp on the same
IR module (ptr_size 4).  Compared per run: return value, the bytes of linear
memory at the address of every global, the ordered trace of external calls.

ppci2wasm does not export its memory, so the harness appends one
``(export "memory" (memory 0))`` definition to the module object before
serialising it.  Nothing else of the output is touched.

Workloads
  gen     vlib.irgen modules, shape "ssa" (structured, reducible) and "mem"
          (arbitrary, also irreducible CFGs);
  matrix  one function per operator / cast on boundary operands, per type;
  cfg     directed control-flow skeletons (nested loops, multi-level break,
          continue of an outer loop, loops with several exits, returns inside
          loops, irreducible two-entry loops, self loops, shared merge blocks);
  c       vlib.cgen programs compiled with ``c_to_ir(src, "arm")`` (32-bit int
          and pointer, the combination the repository's own wasm samples use)
          -- the oracle is the reference interpreter on *that IR*, so cgen's
          LP64 assumptions do not matter: a run that is undefined under the
          IR semantics is discarded.

Verdicts.  ``ir_to_wasm`` raising on a module whose functions all have a
reducible CFG (own dominator based test) is a violation; on an irreducible CFG
an exception counts as "rejected" (fine), but if a binary is produced it has to
behave.  A binary V8 refuses to validate is a violation.

Open findings and what they switch off (known_findings.d/C23.json; every switch is a predicate
on the *generated module*, never on the outcome):
  * the structure detector (ppci.graph.relooper.StructureDetector) mis-handles nested loops,
    loops with two outer exit targets, code it generates twice and two-entry cycles, and asserts
    on ``cjmp c ? L : L``.  While these are open, ``cfg_facts`` (own dominators, post-dominators,
    natural loops) decides per function whether it contains the trigger (nested, multi_exit_loop,
    unmerged_branch_before_loop, irreducible) and such modules are not used;
    ``cjmp c ? L : L`` is rewritten into ``jmp L``.  Consequence, stated plainly: with the
    irreducible finding open no irreducible CFG is translated in the sweep, so the
    "rejected-as-unstructurable" counter (observed.rejected) is empty; the catalogue skeletons
    ``two-entry-loop*`` and the probe keep the mechanism observed.
  * globals initialised with addresses and by-value blob parameters are not generated.
The twelve translator findings of the first round (data segments, i64 bit operators, ~ and
unsigned -, cast lowering, wrap of narrow integers, blob copy, immediates, phi copies, table
index 0) are fixed in /repo; their witnesses run as regression probes and their constructs are
generated again.

Boundary convention (narrowing, stated): the wasm ABI of sub-word values is not
documented, so at the *module boundary* (returned value, argument handed to an
imported function) an i8/u8/i16/u16/u32 value is compared modulo 2^bits.
Inside the module nothing is relaxed: a missing wrap shows up through
comparisons, shifts, divisions, widening casts and stores.
ppci2wasm reserves a 1000 byte downward growing stack below the globals;
reference runs whose frames (sum of allocs over the dynamic call chain) need
more than 600 bytes are discarded as exceeding that documented resource limit.
"""
import io
import os
import struct

from vlib.core import rng, h

PROPERTY = "C23"
RULE = ("IR modules from vlib.irgen (ssa = structured, mem = arbitrary/irreducible CFGs; globals with initial data, "
        "calls incl. indirect, externals), a directed operator/cast matrix on boundary operands, directed control-flow "
        "skeletons and vlib.cgen C programs compiled with c_to_ir(src,'arm') are translated by ppci.wasm.ir_to_wasm, "
        "the bytes run in V8 (fresh instance per call) and compared with vlib.refinterp on the same IR: return value, "
        "memory bytes at every global's address, external-call trace; runs undefined under refinterp are discarded; "
        "non-trivial = defined run with >= 10 instructions and >= 1 branch, distinct by (module hash, function, vector)")
ASSUMPTIONS = ["vlib.refinterp implements IR semantics (cross-checked against gcc, the CPU and ir2py by C01/C04/C24)",
               "V8 (node v20) implements WebAssembly 1.0",
               "adding an export of memory 0 to the produced module does not change its behaviour",
               "sub-word values are compared modulo 2^bits at the module boundary only"]
MANIFEST_ENTRY = {
    "text": "Differential execution: the wasm binary ppci produces from an IR module runs in V8 and must agree with the "
            "reference IR interpreter on results, global memory and external calls; translator exceptions on reducible "
            "control flow and binaries V8 rejects are violations.",
    "note": "Open findings switch the corresponding constructs off in the generators (see known_findings.d/C23.json); "
            "memory is observed through an export added by the harness; runs needing more than ppci2wasm's 1000-byte "
            "stack are discarded; a V8 run that does not finish is inconclusive, never a verdict.",
    "technique": "runtime monitoring: reference IR interpreter vs V8 executing ir_to_wasm output",
}
SHARD_TIMEOUT = {"quick": 1200, "thorough": 6 * 3600}

STACK_LIMIT = 600
ALL_TYPES = ["i8", "u8", "i16", "u16", "i32", "u32", "i64", "u64", "f32", "f64"]


def plan(tier, seed, avoid):
    if tier == "quick":
        n, per, ncfg, percfg, nc, perc = 1200, 40, 240, 60, 240, 12
    else:
        n, per, ncfg, percfg, nc, perc = 12000, 300, 3000, 300, 2400, 80
    specs = [{"part": "gen", "start": s, "count": per} for s in range(0, n, per)]
    specs += [{"part": "matrix", "ty": t} for t in ALL_TYPES]
    specs += [{"part": "cfg", "start": s, "count": percfg, "catalogue": s == 0} for s in range(0, ncfg, percfg)]
    specs += [{"part": "c", "start": s, "count": perc} for s in range(0, nc, perc)]
    return specs


def floors(tier):
    # about a third of the minimum over seeds 0, 1, 2 on the tree with the seven open findings avoided
    # (evaluations 25720, distinct 6438, LoopShape 778, IfShape 4681, ContinueShape 831, modules gen 840 /
    # c 124 / cfg 166 / matrix 446, globals compared 18054, trace events 5384, valid binaries 1576)
    return {"evaluations": 8000, "distinct_nontrivial": 2000, "observed.matrix_ops": 7,
            "observed.shapes.LoopShape": 250, "observed.shapes.IfShape": 1500, "observed.shapes.ContinueShape": 250,
            "observed.shapes.SequenceShape": 2400, "observed.modules_run.gen": 280, "observed.modules_run.c": 40,
            "observed.modules_run.cfg": 55, "observed.modules_run.matrix": 150, "observed.globals_compared": 6000,
            "observed.trace_events_compared": 1800, "observed.v8_valid": 520}


# --------------------------------------------------------------------------
# own CFG facts (independent of ppci.graph)


def succs(block):
    from ppci import ir
    last = block.instructions[-1]
    if isinstance(last, ir.Jump):
        return [last.target]
    if isinstance(last, ir.CJump):
        return [last.lab_yes, last.lab_no] if last.lab_yes is not last.lab_no else [last.lab_yes]
    return []


def cfg_facts(f):
    """reducible?, loop facts of one ir function; naive iterative dominators."""
    blocks = []
    seen = set()
    work = [f.entry]
    while work:
        b = work.pop()
        if id(b) in seen:
            continue
        seen.add(id(b))
        blocks.append(b)
        work.extend(succs(b))
    idx = {id(b): i for i, b in enumerate(blocks)}
    n = len(blocks)
    sc = [[idx[id(s)] for s in succs(b)] for b in blocks]
    preds = [[] for _ in range(n)]
    for u in range(n):
        for v in sc[u]:
            preds[v].append(u)
    full = (1 << n) - 1
    dom = [full] * n
    dom[0] = 1
    changed = True
    while changed:
        changed = False
        for v in range(1, n):
            d = full
            for p in preds[v]:
                d &= dom[p]
            d |= 1 << v
            if d != dom[v]:
                dom[v] = d
                changed = True
    # DFS: retreating edges
    color = [0] * n
    retreating = []
    stack = [(0, iter(sc[0]))]
    color[0] = 1
    while stack:
        u, it = stack[-1]
        for v in it:
            if color[v] == 0:
                color[v] = 1
                stack.append((v, iter(sc[v])))
                break
            if color[v] == 1:
                retreating.append((u, v))
        else:
            color[u] = 2
            stack.pop()
    reducible = all(dom[u] >> v & 1 for u, v in retreating)
    facts = {"blocks": n, "reducible": reducible, "back_edges": len(retreating), "self_loop": False,
             "multi_exit_loop": False, "exit_targets_2": False, "loops": 0, "nested": 0, "shared_header": False,
             "no_exit": False}
    rets = [u for u in range(n) if not sc[u]]
    facts["no_exit"] = not rets
    facts["returns"] = len(rets)
    facts["same_target_cjump"] = any(
        b.instructions[-1].__class__.__name__ == "CJump" and b.instructions[-1].lab_yes is b.instructions[-1].lab_no
        for b in blocks)
    facts["phi_backedge_cjump"] = False
    # post-dominators (virtual exit = bit n)
    pfull = (1 << (n + 1)) - 1
    pdom = [pfull] * n
    changed = True
    while changed:
        changed = False
        for v in range(n - 1, -1, -1):
            if not sc[v]:
                d = 1 << n
            else:
                d = pfull
                for x in sc[v]:
                    d &= pdom[x]
            d |= 1 << v
            if d != pdom[v]:
                pdom[v] = d
                changed = True
    # reachability along forward edges only (retreating edges removed)
    back = set(retreating)
    fsc = [[v for v in sc[u] if (u, v) not in back] for u in range(n)]
    reach = [0] * n
    for v in range(n):
        seen_r = 0
        work = list(fsc[v])
        while work:
            x = work.pop()
            if seen_r >> x & 1:
                continue
            seen_r |= 1 << x
            work.extend(fsc[x])
        reach[v] = seen_r
    facts["unmerged_branch_before_loop"] = False
    if reducible:
        headers = {}
        for u, v in retreating:
            headers.setdefault(v, []).append(u)
        loops = {}
        for hd, tails in headers.items():
            body = {hd}
            work = list(tails)
            while work:
                x = work.pop()
                if x in body:
                    continue
                body.add(x)
                work.extend(preds[x])
            loops[hd] = body
            if hd in tails:
                facts["self_loop"] = True
            if len(tails) > 1:
                facts["shared_header"] = True
            exits = set()
            for x in body:
                for y in sc[x]:
                    if y not in body:
                        exits.add(y)
            if len(exits) > 1:
                facts["exit_targets_2"] = True
            # exit targets the loop header does not dominate: candidates for the block following the loop
            if len([y for y in exits if not dom[y] >> hd & 1]) > 1:
                facts["multi_exit_loop"] = True
        facts["loops"] = len(loops)
        for a in loops:
            for b in loops:
                if a != b and a in loops[b]:
                    facts["nested"] += 1
        from ppci import ir
        for u, v in retreating:
            if isinstance(blocks[u].instructions[-1], ir.CJump) and any(
                    isinstance(i, ir.Phi) for i in blocks[v].instructions):
                facts["phi_backedge_cjump"] = True
        # a two-way branch whose arms do not meet again at a block of their own (the common
        # post-dominator is the function exit, or lies outside the innermost loop of the branch)
        # while a loop header can be reached from both arms
        hdrs = 0
        for hd in loops:
            hdrs |= 1 << hd
        for u in range(n):      # two-way branches get a marked merge block as well
            if len(sc[u]) == 2:
                hdrs |= 1 << u
        for hd, body in loops.items():      # and so does the block following a loop
            for x in body:
                for y in sc[x]:
                    if y not in body and not dom[y] >> hd & 1:
                        hdrs |= 1 << y
        merges = {}     # merge block the detector will use -> branches using it
        branch = {}     # two-way node -> (merge block or None, proper?)
        for u in range(n):
            if len(sc[u]) != 2:
                continue
            strict = pdom[u] & ~(1 << u)
            # immediate post-dominator: the strict post-dominator that all other strict ones post-dominate
            ip = None
            for c in range(n + 1):
                if strict >> c & 1:
                    others = strict & ~(1 << c)
                    if c == n:
                        if others == 0:
                            ip = n
                    elif pdom[c] & others == others:
                        ip = c
                        break
            # the structure detector keeps generating inside a loop construct for everything the
            # loop header dominates, so the loop that matters is the nearest dominating header
            inner = None
            for hd in loops:
                if dom[u] >> hd & 1 and (inner is None or bin(dom[hd]).count("1") > bin(dom[inner]).count("1")):
                    inner = hd
            proper = ip is not None and ip != n and (inner is None or (ip in loops[inner] and ip != inner))
            branch[u] = (ip, proper)
            if proper:
                hdrs |= 1 << ip     # a recognised merge block is put into `marked`
        for u, (ip, proper) in branch.items():
            if len(fsc[u]) == 2:
                # nodes both arms reach before the merge block the detector will use (none if the
                # merge is not recognised) are generated twice; a loop header, a block following a
                # loop or a merge block among them is still in the detector's `marked` set the
                # second time and the jump to it is dropped
                stop = ip if proper else -1
                sets = []
                for a0 in fsc[u]:
                    seen_r = 0
                    work = [a0]
                    while work:
                        x = work.pop()
                        if x == stop or seen_r >> x & 1:
                            continue
                        seen_r |= 1 << x
                        work.extend(fsc[x])
                    sets.append(seen_r)
                if sets[0] & sets[1] & hdrs:
                    facts["unmerged_branch_before_loop"] = True
                if proper:
                    merges.setdefault(ip, []).append((u, sets[0] | sets[1]))
        # two nested branches with the same merge block (short-circuit && and ||): the inner one
        # generates the merge block and what follows as its own follow-up, the outer one again
        for ip, users in merges.items():
            if len(users) > 1 and ((reach[ip] | 1 << ip) & hdrs & ~(1 << ip)):
                for u, inside in users:
                    if any(w != u and inside >> w & 1 for w, _ in users):
                        facts["unmerged_branch_before_loop"] = True
    return facts


# --------------------------------------------------------------------------
# monitor


class Mon:
    def __init__(self, spec):
        self.spec = spec
        self.evals = 0
        self.nontrivial = set()
        self.viol = []
        self.disc = {}
        self.samples = []
        self.inconclusive = []
        self.obs = {"tags": {}, "shapes": {}, "shape_depth": {}, "cfg": {}, "rejected": {}, "modules_run": {},
                    "matrix_ops": {}, "ir_ops": {}, "modules_translated": 0, "functions_translated": 0,
                    "globals_compared": 0, "trace_events_compared": 0, "v8_valid": 0, "c_diagnostics": {}}
        self.pending = []

    def count(self, group, key, n=1):
        d = self.obs.setdefault(group, {})
        d[key] = d.get(key, 0) + n

    def discard(self, why):
        self.disc[why] = self.disc.get(why, 0) + 1

    def violation(self, summary, case, replay=None):
        if len(self.viol) < self.spec.get("maxviol", 30):
            v = {"summary": summary[:400], "case": case}
            if replay:
                v["replay_spec"] = replay
            self.viol.append(v)

    def result(self):
        return {"evaluations": self.evals, "nontrivial_hashes": sorted(self.nontrivial), "observed": self.obs,
                "discarded": self.disc, "violations": self.viol, "samples": self.samples[:2],
                "inconclusive": self.inconclusive[:5]}


def module_text(module):
    try:
        from vlib.optmon import module_text as mt
        return mt(module)
    except Exception as e:  # noqa
        return "<module text unavailable: %s>" % e


def walk_shape(shape, mon, depth=0):
    from ppci.graph import relooper
    if shape is None:
        return depth
    mon.count("shapes", type(shape).__name__)
    deepest = depth
    if isinstance(shape, relooper.SequenceShape):
        for s in shape.shapes:
            deepest = max(deepest, walk_shape(s, mon, depth))
    elif isinstance(shape, relooper.IfShape):
        if shape.yes_shape is not None and shape.no_shape is not None:
            mon.count("shapes", "if-with-else")
        for s in (shape.yes_shape, shape.no_shape):
            deepest = max(deepest, walk_shape(s, mon, depth + 1))
    elif isinstance(shape, relooper.LoopShape):
        deepest = max(deepest, walk_shape(shape.body, mon, depth + 1))
    return deepest


def translate(module, mon):
    """ir_to_wasm under observation -> (wasm bytes, {label: address}).  Raises what ppci raises."""
    import contextlib
    from ppci.wasm import ppci2wasm, components
    from ppci.graph import relooper

    real_find = relooper.find_structure
    real_create = ppci2wasm.IrToWasmCompiler.create_wasm_module
    seen = {}

    def find_structure(ir_function):
        try:
            shape, rmap = real_find(ir_function)
        except Exception as e:
            mon.count("structure_errors", type(e).__name__)
            raise
        d = walk_shape(shape, mon)
        mon.count("shape_depth", str(min(d, 8)))
        mon.obs["functions_translated"] += 1
        return shape, rmap

    def create_wasm_module(self):
        seen["labels"] = dict(self.global_labels)
        seen["pointed"] = [getattr(r, "name", None) for r in self.pointed_functions]
        return real_create(self)

    relooper.find_structure = find_structure
    ppci2wasm.IrToWasmCompiler.create_wasm_module = create_wasm_module
    try:
        with contextlib.redirect_stdout(io.StringIO()):
            wm = ppci2wasm.ir_to_wasm(module)
    finally:
        relooper.find_structure = real_find
        ppci2wasm.IrToWasmCompiler.create_wasm_module = real_create
    with contextlib.redirect_stdout(io.StringIO()):
        wm.definitions = list(wm.definitions) + [
            components.Export("memory", "memory", components.Ref("memory", index=0))]
        data = wm.to_bytes()
    return data, seen


WASM_TY = {"i8": "i32", "u8": "i32", "i16": "i32", "u16": "i32", "i32": "i32", "u32": "i64", "i64": "i64",
           "u64": "i64", "f32": "f32", "f64": "f64", "ptr": "i32"}


def ty_name(ty):
    from ppci import ir
    return "ptr" if ty is ir.ptr else ty.name


def arg_text(tyname, v):
    """argument value -> driver value text"""
    w = WASM_TY[tyname]
    if w in ("i32", "i64"):
        return [w, str(int(v))]
    if w == "f32":
        return [w, "%08x" % struct.unpack("<I", struct.pack("<f", v))[0]]
    return [w, "%016x" % struct.unpack("<Q", struct.pack("<d", v))[0]]


def norm_value(tyname, text):
    """driver value text of IR type tyname -> the representation refinterp's observables use"""
    if tyname in ("f32", "f64"):
        if text == "nan":
            return "nan"
        return "%s:%s" % (tyname, text)
    bits = 32 if tyname == "ptr" else int(tyname[1:])
    v = int(text) & ((1 << bits) - 1)
    if tyname[0] == "i" and v >> (bits - 1):
        v -= 1 << bits
    return v


class StackInterp:
    """refinterp.Interp plus an account of the stack bytes ppci2wasm's frames need."""

    def __init__(self, module, **kw):
        from vlib.refinterp import Interp
        from ppci import ir
        frame = {}
        for f in module.functions:
            n = 0
            for b in f.blocks:
                for ins in b.instructions:
                    if isinstance(ins, ir.Alloc):
                        n += ins.amount + 8
            frame[f.name] = n + 16

        outer = self

        class I(Interp):
            def x_cast(self, env, ins, fr):
                Interp.x_cast(self, env, ins, fr)
                v = env.get(ins)
                if v.__class__.__name__ == "Poison" and "float to int" in str(v.reason):
                    outer.trunc_poison = True

            def call(self, f, args):
                sz = frame.get(getattr(f, "name", None), 0)
                outer.cur += sz
                if outer.cur > outer.peak:
                    outer.peak = outer.cur
                try:
                    return Interp.call(self, f, args)
                finally:
                    outer.cur -= sz
        self.it = I(module, **kw)
        self.cur = self.peak = 0
        self.trunc_poison = False

    def run(self, fname, args, **kw):
        self.cur = self.peak = 0
        self.trunc_poison = False
        return self.it.run(fname, args, **kw)


def expected_global(items, labels):
    """refinterp region observation -> list of byte | None (unknowable)"""
    out = []
    for it in items:
        if it == "??":
            out.append(None)
        elif isinstance(it, str):
            out.extend(bytes.fromhex(it))
        else:  # ["ptr", kind, label, off]
            kind, label, off = it[1], it[2], it[3]
            if kind in ("global", "func") and label in labels:
                out.extend(((labels[label] + off) & 0xFFFFFFFF).to_bytes(4, "little"))
            else:
                out.extend([None] * 4)
    return out


def both_nan(exp, have, i):
    """byte i lies in an aligned 4 or 8 byte cell that holds a NaN on both sides: WebAssembly leaves
    sign and payload of a computed NaN open, so those bits are not compared"""
    for size, fmt in ((8, "<d"), (4, "<f")):
        start = i - i % size
        cell = exp[start:start + size]
        if len(cell) == size and None not in cell and start + size <= len(have):
            a = struct.unpack(fmt, bytes(cell))[0]
            b = struct.unpack(fmt, bytes(have[start:start + size]))[0]
            if a != a and b != b:
                return True
    return False


def prepare_module(module, argv, mon, case, kind, replay=None, reducible_required=True):
    """Translate one module, run the reference, queue a V8 job.  argv: {fname: [vec...]}"""
    from ppci import ir
    facts = {f.name: cfg_facts(f) for f in module.functions}
    reducible = all(x["reducible"] for x in facts.values())
    for x in facts.values():
        mon.count("cfg", "reducible" if x["reducible"] else "irreducible")
        for k in ("self_loop", "multi_exit_loop", "exit_targets_2", "shared_header", "no_exit",
                  "unmerged_branch_before_loop", "phi_backedge_cjump", "same_target_cjump"):
            if x[k]:
                mon.count("cfg", k)
        if x["nested"]:
            mon.count("cfg", "nested_loops")
        if x["loops"]:
            mon.count("cfg", "functions_with_loops")
    try:
        data, seen = translate(module, mon)
    except RecursionError as e:
        exc = e
        data = None
    except Exception as e:  # judged below
        exc = e
        data = None
    if data is None:
        import traceback
        tb = traceback.extract_tb(exc.__traceback__)
        where = "%s:%d" % (os.path.basename(tb[-1].filename), tb[-1].lineno) if tb else "?"
        what = "%s: %s" % (type(exc).__name__, str(exc)[:100])
        if reducible:
            mon.violation("ir_to_wasm raised %s at %s on a module with reducible control flow" % (what, where),
                          dict(case, error=what, where=where, cfg=facts, ir=module_text(module)[:12000],
                               traceback="".join(traceback.format_exception(type(exc), exc, exc.__traceback__))[-1800:]),
                          replay)
            mon.evals += 1
        else:
            mon.count("rejected", "irreducible: " + type(exc).__name__)
            mon.evals += 1
        return
    mon.obs["modules_translated"] += 1
    if not reducible:
        mon.count("rejected", "irreducible-but-translated")
    labels = seen.get("labels", {})
    variables = [(v.name, v.amount) for v in module.variables]
    missing = [n for n, _ in variables if n not in labels]
    if missing:
        mon.inconclusive.append("global_labels of IrToWasmCompiler has no address for %s" % missing[:3])
        return
    # reference runs
    sit = StackInterp(module, ptr_size=4, count_ops=True)
    runs = []
    for fname, vecs in argv.items():
        fn = module.get_function(fname)
        ptys = [ty_name(p.ty) for p in fn.arguments]
        if any(isinstance(p.ty, ir.BlobDataTyp) for p in fn.arguments):
            continue
        rty = ty_name(fn.return_ty) if isinstance(fn, ir.Function) else None
        for vec in vecs:
            ref = sit.run(fname, vec, max_steps=60000)
            if ref.status != "ok":
                mon.discard("reference %s: %s" % (ref.status, (ref.reason or "")[:30]))
                continue
            if sit.peak > STACK_LIMIT:
                mon.discard("needs more than ppci2wasm's virtual stack")
                continue
            if sit.trunc_poison:
                # refinterp makes an out-of-range float -> int conversion a poison value that only
                # matters when observed; wasm's trunc traps at once.  Undefined in C and in the IR.
                mon.discard("reference run converts an out-of-range float to int")
                continue
            runs.append({"f": fname, "vec": vec, "ptys": ptys, "rty": rty, "ref": ref})
    if not runs:
        mon.discard("module without a defined reference run")
        return
    imports = []
    ext_types = {}
    for e in module.externals:
        if isinstance(e, ir.ExternalSubRoutine) and e.is_used:
            ptys = [ty_name(t) for t in e.argument_types]
            ret = ty_name(e.return_ty) if isinstance(e, ir.ExternalFunction) else None
            ext_types[e.name] = ptys
            norm = []
            for t in ptys:
                if t in ("f32", "f64", "ptr"):
                    norm.append(None)
                else:
                    norm.append([int(t[1:]), t[0] == "i"])
            imports.append({"module": "js", "name": e.name, "kind": "func",
                            "ext": {"params": [WASM_TY[t] for t in ptys], "norm": norm,
                                    "ret": WASM_TY[ret] if ret else None, "retzero": ret == "ptr"}})
    job = {"id": "m%d" % len(mon.pending), "wasm": data, "imports": imports, "mode": "run", "fresh": True,
           "memory": "memory", "memdump": [[labels[n], sz] for n, sz in variables],
           "calls": [{"f": r["f"], "args": [arg_text(t, v) for t, v in zip(r["ptys"], r["vec"])],
                      "ret": WASM_TY[r["rty"]] if r["rty"] else None} for r in runs]}
    mon.pending.append({"job": job, "runs": runs, "module": module, "case": case, "kind": kind, "labels": labels,
                        "variables": variables, "ext_types": ext_types, "replay": replay, "facts": facts,
                        "pointed": seen.get("pointed")})


def flush(mon, force=True, batch=24):
    if not mon.pending or (not force and len(mon.pending) < batch):
        return
    from vlib import v8run
    pend, mon.pending = mon.pending, []
    for i, p in enumerate(pend):
        p["job"]["id"] = "m%d" % i
    tmp = os.environ.get("VERIF_TMP") or "."
    try:
        res, versions = v8run.run_v8([p["job"] for p in pend], tmp, timeout=240)
    except v8run.V8Error as e:
        if "timed out" in str(e) and len(pend) > 1:
            for p in pend:   # find the module that hangs
                try:
                    r1, _ = v8run.run_v8([p["job"]], tmp, timeout=90)
                    judge(mon, p, r1[p["job"]["id"]])
                except v8run.V8Error as e1:
                    mon.discard("v8 run did not finish")
                    mon.inconclusive.append("V8 did not finish %s (%s): %s" % (p["case"].get("id"), p["kind"], str(e1)[:120]))
            return
        mon.inconclusive.append("V8 driver: %s" % str(e)[:300])
        return
    for p in pend:
        judge(mon, p, res[p["job"]["id"]])


def judge(mon, p, res):
    from vlib import ircmp
    module, case = p["module"], p["case"]
    if not res.get("valid"):
        mon.evals += 1
        mon.violation("V8 rejects the binary ir_to_wasm produced: %s" % (res.get("verr") or "")[:200],
                      dict(case, verr=res.get("verr"), ir=module_text(module)[:12000]), p["replay"])
        return
    mon.obs["v8_valid"] += 1
    if res.get("inst") != "ok" or "runs" not in res:
        mon.evals += 1
        mon.violation("V8 cannot instantiate the module: %s" % res.get("inst"),
                      dict(case, inst=res.get("inst"), ir=module_text(module)[:12000]), p["replay"])
        return
    mon.count("modules_run", p["kind"])
    mh = None
    labels = p["labels"]
    for r, got in zip(p["runs"], res["runs"]):
        ref = r["ref"]
        mon.evals += 1
        for op, n in ref.ops.items():
            mon.count("ir_ops", op, n)
        if ref.steps >= 10 and ref.branches >= 1:
            if mh is None:
                mh = ircmp.structural_hash(module)
            mon.nontrivial.add(h([mh, r["f"], r["vec"]]))
        diffs = []
        gret = got.get("ret")
        if isinstance(gret, str) and (gret.startswith("trap:") or gret.startswith("error:") or gret.startswith("inst:")):
            diffs.append("V8 run ends with %s; reference returns %r after %d steps" % (gret, ref.retval, ref.steps))
        else:
            if r["rty"] is not None:
                want = ref.retval
                if r["rty"] == "ptr":
                    if isinstance(want, list) and want[0] == "ptr" and len(want) == 4 and want[2] in labels:
                        want = (labels[want[2]] + want[3]) & 0xFFFFFFFF
                        have = int(gret) & 0xFFFFFFFF
                    elif isinstance(want, list) and want[0] == "ptrnum":
                        want = want[1]
                        have = int(gret) & 0xFFFFFFFF
                    else:
                        want = have = None
                else:
                    have = norm_value(r["rty"], gret)
                if have != want:
                    diffs.append("returns %r, reference %r" % (have, want))
            for (name, size), hx in zip(p["variables"], got.get("mem") or []):
                exp = expected_global(ref.globals[name], labels)
                have = bytes.fromhex(hx)
                bad = [i for i, e in enumerate(exp) if e is not None and i < len(have) and have[i] != e]
                bad = [i for i in bad if not both_nan(exp, have, i)]
                if len(have) != len(exp):
                    bad = [0]
                mon.obs["globals_compared"] += 1
                if bad:
                    diffs.append("global %s (address %d) holds %s, reference %s (first difference at byte %d)" % (
                        name, labels[name], hx, "".join("??" if e is None else "%02x" % e for e in exp), bad[0]))
            if got.get("mem") is None:
                mon.inconclusive.append("driver returned no memory dump")
            # external trace
            gtrace = []
            rtrace = []
            for ename, eargs in got.get("trace") or []:
                tys = p["ext_types"].get(ename, [])
                gtrace.append([ename, [norm_value(t, a) if t != "ptr" else "ptr" for t, a in zip(tys, eargs)]])
            for ename, eargs in ref.trace:
                rtrace.append([ename, ["ptr" if isinstance(a, list) else a for a in eargs]])
            mon.obs["trace_events_compared"] += len(rtrace)
            if gtrace != rtrace:
                k = 0
                while k < len(gtrace) and k < len(rtrace) and gtrace[k] == rtrace[k]:
                    k += 1
                diffs.append("external call #%d: %r, reference %r (%d vs %d calls)" % (
                    k, gtrace[k] if k < len(gtrace) else None, rtrace[k] if k < len(rtrace) else None,
                    len(gtrace), len(rtrace)))
        if diffs:
            mon.violation("%s %s%r: %s" % (p["kind"], r["f"], tuple(r["vec"]), diffs[0]),
                          dict(case, function=r["f"], args=r["vec"], differences=diffs[:5], cfg=p["facts"],
                               source=case.get("source"), ir=module_text(module)[:14000]), p["replay"])
            return   # one violation per module
        if len(mon.samples) < 2 and ref.steps > 40 and ref.branches > 3:
            mon.samples.append({"case": {k: v for k, v in case.items() if k != "source"}, "kind": p["kind"],
                                "function": r["f"], "args": r["vec"], "ret": ref.retval, "steps": ref.steps})


# --------------------------------------------------------------------------
# workloads


NARROW = "wasm-narrow-arithmetic-not-wrapped"
CASTS = ("wasm-cast-pairs-unsupported", "wasm-float-to-int-rounds-to-nearest", "wasm-signed-to-u64-zero-extends",
         "wasm-u32-to-f32-invalid-opcode")


def avoided_types(avoid):
    """IR types the generators may use under the open findings"""
    types = list(ALL_TYPES)
    if NARROW in avoid:
        types = [t for t in types if t not in ("i8", "u8", "i16", "u16", "u32")]
    if "wasm-i64-bitwise-shift-unsupported" in avoid:
        # irgen's safe divisors / shift counts need '&' in the operand type
        types = [t for t in types if t not in ("i64", "u64")]
    if "wasm-integer-immediate-out-of-signed-range" in avoid:
        types = [t for t in types if t != "u64"]
    return types


def gen_cfg(r, avoid, shape=None):
    cfg = {"ptr_size": 4, "shape": "mem" if r.random() < 0.3 else "ssa", "size": r.choice([6, 10, 14])}
    if shape:
        cfg["shape"] = shape
    cfg["types"] = avoided_types(avoid)
    if "wasm-data-segment-arguments" in avoid:
        cfg["init_globals"] = False
    if "wasm-invert-and-unsigned-negate-unsupported" in avoid:
        if any(t[0] == "u" for t in cfg["types"]):
            cfg["unops"] = False
        else:
            cfg["kinds_off"] = ("unop~",)
    if any(k in avoid for k in CASTS):
        cfg["casts"] = False
        cfg["float_to_int"] = False
    if "wasm-blob-copy-unsupported" in avoid:
        cfg["blobs"] = False
    if "wasm-function-pointer-table-index-zero" in avoid:
        pass
    return cfg


CFG_AVOID = [
    # (finding key, fact, what)
    ("structure-same-target-cjump-asserts", "same_target_cjump", "conditional jump with identical targets"),
    ("structure-nested-loop-miscompiled", "nested", "nested loops"),
    ("structure-loop-with-two-exit-targets-rejected", "multi_exit_loop",
     "loop with two exit targets its header does not dominate"),
    ("structure-duplicated-code-loses-loop", "unmerged_branch_before_loop",
     "loop reachable from both arms of a branch that has no merge block of its own"),
    ("wasm-phi-copies-before-conditional-jump", "phi_backedge_cjump",
     "conditional back edge into a block with phis"),
]


def static_avoid(module, avoid):
    """Input-side predicates of open findings: the trigger construct is looked for in the
    *generated module* (never in the outcome); modules that contain it are not used."""
    for f in module.functions:
        facts = cfg_facts(f)
        for key, fact, what in CFG_AVOID:
            if key in avoid and facts.get(fact):
                return what
        if not facts["reducible"] and "structure-irreducible-cfg-not-rejected" in avoid:
            return "irreducible control flow"
    return None


def part_gen(spec, mon):
    from vlib import irgen
    avoid = spec["avoid"]
    for idx in range(spec["start"], spec["start"] + spec["count"]):
        r = rng(spec["seed"], PROPERTY, idx)
        cfg = gen_cfg(r, avoid, spec.get("shape"))
        m, info = irgen.gen_module(r, cfg)
        if "structure-same-target-cjump-asserts" in avoid:
            if neutralise_same_target(m):
                mon.count("neutralised", "same-target-cjump")
        why = static_avoid(m, avoid)
        if why:
            mon.discard("avoided: " + why)
            continue
        for t in info["tags"]:
            mon.count("tags", t)
        argv = {fn: irgen.gen_args(r, m, fn, 3) for fn in info["functions"]}
        prepare_module(m, argv, mon, {"id": "irgen/%s/%d" % (spec["seed"], idx), "index": idx, "cfg": cfg}, "gen",
                       replay=dict(spec, start=idx, count=1))
        flush(mon, force=False)
    flush(mon)


def _fn(m, name, ret, ptys):
    from ppci import ir
    f = ir.Function(name, ir.Binding.GLOBAL, ret) if ret is not None else ir.Procedure(name, ir.Binding.GLOBAL)
    m.add_function(f)
    ps = []
    for i, t in enumerate(ptys):
        p = ir.Parameter("p%d" % i, t)
        f.add_parameter(p)
        ps.append(p)
    b = ir.Block(name + "_b0")
    f.add_block(b)
    f.entry = b
    return f, ps, b


FVALS = [0.0, -0.0, 1.0, -1.0, 0.5, 2.5, -2.5, 3.75, 1e10, -1e10, 1e-10, 16777217.0, 0.1, 255.9, -128.9, 65535.5,
         0.49999999999999994, 1.5, -0.5, -1.5, 4294967295.5, 2147483647.0]


def part_matrix(spec, mon):
    """One function per operator / cast / comparison of one type; operands are parameters."""
    from ppci import ir
    from vlib.irgen import boundary_int
    avoid = spec["avoid"]
    tyname = spec["ty"]
    ty = ir.get_ty(tyname)
    r = rng(spec["seed"], PROPERTY, "matrix" + tyname)
    isf = not ty.is_integer
    sel = matrix_select(tyname, avoid)
    if sel is None:
        return
    ops, unops, cast_to, conds = sel
    nvec = 40 if spec["tier"] == "quick" else 400

    def val():
        if isf:
            v = r.choice(FVALS)
            return struct.unpack("<f", struct.pack("<f", v))[0] if ty.bits == 32 else v
        return boundary_int(r, ty)

    mods = []

    class _Argv(dict):
        """one module per function: an unsupported operator must not hide the others"""

    argv = _Argv()

    def newmod():
        mm = ir.Module("matrix")
        mods.append(mm)
        return mm

    for op in ops:
        m = newmod()
        f, (a, b), blk = _fn(m, "op_%d" % len(argv), ty, [ty, ty])
        t = ir.Binop(a, op, b, "t", ty)
        blk.add_instruction(t)
        blk.add_instruction(ir.Return(t))
        vecs = []
        for _ in range(nvec):
            x, y = val(), val()
            if op in ("/", "%") and not isf and (y == 0 or (ty.signed and y == -1)):
                y = r.choice([1, 2, 3, 7])
            if op == "/" and isf and y == 0.0:
                y = 2.0
            if op in ("<<", ">>"):
                y = r.randrange(ty.bits)
            vecs.append([x, y])
        argv[f.name] = vecs
        mon.count("matrix_ops", op, len(vecs))
        # result used by a widening cast, a comparison and a store: what a missing wrap would disturb
        if not isf:
            wide = ir.i64 if ty.bits < 64 else ir.f64
            if True:
                m = newmod()
                f2, (a, b, c), blk = _fn(m, "opuse_%d" % len(argv), ir.i32, [ty, ty, ty])
                t = ir.Binop(a, op, b, "t", ty)
                blk.add_instruction(t)
                yes, no = ir.Block(f2.name + "_y"), ir.Block(f2.name + "_n")
                f2.add_block(yes)
                f2.add_block(no)
                blk.add_instruction(ir.CJump(t, r.choice(["<", ">=", "==", ">"]), c, yes, no))
                one = ir.Const(1, "one", ir.i32)
                yes.add_instruction(one)
                yes.add_instruction(ir.Return(one))
                zero = ir.Const(0, "zero", ir.i32)
                no.add_instruction(zero)
                no.add_instruction(ir.Return(zero))
                argv[f2.name] = [v + [val() if r.random() < 0.6 else Mon_wrap(ty, v[0], op, v[1])] for v in vecs]
    for op in unops:
        m = newmod()
        f, (a,), blk = _fn(m, "un_%d" % len(argv), ty, [ty])
        t = ir.Unop(op, a, "t", ty)
        blk.add_instruction(t)
        blk.add_instruction(ir.Return(t))
        argv[f.name] = [[val()] for _ in range(nvec)]
        mon.count("matrix_ops", "u" + op, nvec)
    for c in conds:
        m = newmod()
        f, (a, b), blk = _fn(m, "cmp_%d" % len(argv), ir.i32, [ty, ty])
        yes, no = ir.Block(f.name + "_y"), ir.Block(f.name + "_n")
        f.add_block(yes)
        f.add_block(no)
        blk.add_instruction(ir.CJump(a, c, b, yes, no))
        one = ir.Const(1, "one", ir.i32)
        yes.add_instruction(one)
        yes.add_instruction(ir.Return(one))
        zero = ir.Const(0, "zero", ir.i32)
        no.add_instruction(zero)
        no.add_instruction(ir.Return(zero))
        vecs = []
        for _ in range(nvec):
            x = val()
            vecs.append([x, x if r.random() < 0.25 else val()])
        argv[f.name] = vecs
        mon.count("matrix_ops", "cmp" + c, nvec)
    for dn in cast_to:
        dty = ir.get_ty(dn)
        m = newmod()
        f, (a,), blk = _fn(m, "cast_%s" % dn, dty, [ty])
        t = ir.Cast(a, "t", dty)
        blk.add_instruction(t)
        blk.add_instruction(ir.Return(t))
        vecs = []
        for _ in range(nvec):
            v = val()
            if isf and dty.is_integer:
                lo = -(1 << (dty.bits - 1)) if dty.signed else 0
                hi = (1 << (dty.bits - 1)) - 1 if dty.signed else (1 << dty.bits) - 1
                if not (lo <= int(v) <= hi) or abs(v) >= 2.0 ** 63:
                    v = r.choice([0.5, 1.5, 2.5, 3.7, 100.99, 0.999])
                    if dty.signed and r.random() < 0.5:
                        v = -v
                if ty.bits == 32:
                    v = struct.unpack("<f", struct.pack("<f", v))[0]
            if not isf and dn == "f32" and abs(v) >= 1 << 53:
                # refinterp converts through a double: keep the value exact there (single rounding)
                v = (abs(v) >> 12 << 12) * (1 if v > 0 else -1)
            vecs.append([v])
        argv[f.name] = vecs
        mon.count("matrix_ops", "cast", len(vecs))
        # memory round trip of the cast result
        m = newmod()
        f, (a,), blk = _fn(m, "castmem_%s" % dn, dty, [ty])
        al = ir.Alloc("al", 8, 8)
        blk.add_instruction(al)
        ad = ir.AddressOf(al, "ad")
        blk.add_instruction(ad)
        t = ir.Cast(a, "t", dty)
        blk.add_instruction(t)
        blk.add_instruction(ir.Store(t, ad))
        ld = ir.Load(ad, "ld", dty)
        blk.add_instruction(ld)
        blk.add_instruction(ir.Return(ld))
        argv[f.name] = vecs
    for m in mods:
        fname = m.functions[0].name
        prepare_module(m, {fname: argv[fname]}, mon, {"id": "matrix/%s/%s" % (tyname, fname)}, "matrix",
                       replay=dict(spec))
    flush(mon)


def Mon_wrap(ty, a, op, b):
    """the wrapped result of a op b (so that the comparison in opuse_* sees equality often)"""
    bits = ty.bits
    try:
        if op == "+":
            v = a + b
        elif op == "-":
            v = a - b
        elif op == "*":
            v = a * b
        elif op == "&":
            v = a & b
        elif op == "|":
            v = a | b
        elif op == "^":
            v = a ^ b
        elif op == "<<":
            v = a << b
        elif op == ">>":
            v = a >> b
        else:
            q = abs(a) // abs(b)
            if (a < 0) != (b < 0):
                q = -q
            v = q if op == "/" else a - q * b
    except (ZeroDivisionError, ValueError):
        v = 0
    v &= (1 << bits) - 1
    if ty.signed and v >> (bits - 1):
        v -= 1 << bits
    return v


CASTS_OK_WHILE_OPEN = (
    [("i32", d) for d in ("i8", "u8", "i16", "u16", "i32", "u32", "i64", "f32", "f64")]
    + [("u32", d) for d in ("i8", "u8", "i16", "u16", "i32", "u32", "i64", "u64", "f64")]
    + [(s_, d) for s_ in ("i64", "u64") for d in ("i32", "u32", "i64", "u64", "f32", "f64")]
    + [("f32", "f64"), ("f64", "f32")])


def matrix_select(tyname, avoid):
    """(binops, unops, cast targets, conditions) of the matrix for one type under the avoid switches"""
    isf = tyname[0] == "f"
    if NARROW in avoid and tyname in ("i8", "u8", "i16", "u16", "u32"):
        return None
    ops = ["+", "-", "*", "/"] if isf else ["+", "-", "*", "/", "%", "&", "|", "^", "<<", ">>"]
    if "wasm-i64-bitwise-shift-unsupported" in avoid and tyname in ("i64", "u64"):
        ops = ["+", "-", "*", "/", "%"]
    unops = ["-"] if isf else ["-", "~"]
    if "wasm-invert-and-unsigned-negate-unsupported" in avoid:
        unops = [] if tyname[0] == "u" else ["-"]
    cast_to = list(ALL_TYPES)
    if any(k in avoid for k in CASTS):
        cast_to = [d for d in cast_to if (tyname, d) in CASTS_OK_WHILE_OPEN]
    if NARROW in avoid:
        # a narrow result is only looked at modulo 2^bits at the boundary and in memory: fine
        pass
    conds = ["==", "!=", "<", ">", "<=", ">="]
    return ops, unops, cast_to, conds


# --------------------------------------------------------------------------
# directed control-flow skeletons
#
# A skeleton is a small statement tree; it is lowered to   i32 f(i32 x)   in memory form (i32
# arithmetic only, so that no open translator finding is touched): ``acc`` records the path taken
# (acc = acc * 3 + k at node k), conditions look at bits of x and acc, loops are counted.
#   ("a",)                       path node
#   ("if", j, then, else)        condition j (j < 4: bit j of x flipped by bit 1 of acc; j >= 4: bit j-4 of x)
#   ("while", n, body)  ("do", n, body)
#   ("break", j, level)  ("continue", j, level)  ("return", j)        conditional exits
#   ("same", j)                  conditional jump with identical targets
#   ("twoentry", j, n, b1, b2)   cycle with two entry blocks (irreducible)
#   ("self", n)                  single block loop


CATALOGUE = {
    "straight": [("a",), ("a",)],
    "if-else": [("if", 0, [("a",)], [("a",)]), ("a",)],
    "if-chain": [("if", 0, [("a",)], [("if", 1, [("a",)], [("if", 2, [("a",)], [("a",)])])]), ("a",)],
    "nested-if": [("if", 0, [("if", 1, [("a",)], [("a",)]), ("a",)], [("a",)]), ("a",)],
    "while": [("while", 3, [("a",)]), ("a",)],
    "do-while": [("do", 3, [("a",)]), ("a",)],
    "self-loop": [("self", 4), ("a",)],
    "two-loops-in-sequence": [("while", 2, [("a",)]), ("a",), ("while", 3, [("a",)]), ("a",)],
    "loop-with-if": [("while", 4, [("if", 0, [("a",)], [("a",)]), ("a",)]), ("a",)],
    "loop-continue": [("while", 4, [("a",), ("continue", 4, 0), ("a",)]), ("a",)],
    "loop-break": [("while", 4, [("a",), ("break", 4, 0), ("a",)]), ("a",)],
    "loop-break-then-loop": [("while", 4, [("a",), ("break", 4, 0), ("a",)]), ("a",), ("while", 2, [("a",)]), ("a",)],
    "do-while-break-then-loop": [("do", 3, [("a",), ("break", 5, 0), ("a",)]), ("while", 2, [("a",)]), ("a",)],
    "loop-return": [("while", 4, [("a",), ("return", 4), ("a",)]), ("a",)],
    "early-return-then-loop": [("if", 0, [("return", 5), ("a",)], [("a",)]), ("while", 3, [("a",)]), ("a",)],
    "loop-in-both-arms": [("if", 0, [("while", 2, [("a",)])], [("while", 3, [("a",)])]), ("a",)],
    "if-then-loop": [("if", 0, [("a",)], []), ("while", 3, [("a",)]), ("a",)],
    "nested-loops": [("while", 3, [("a",), ("while", 2, [("a",)]), ("a",)]), ("a",)],
    "nested-loops-3": [("while", 2, [("while", 2, [("while", 2, [("a",)])])]), ("a",)],
    "nested-do-while": [("do", 2, [("do", 3, [("a",)])]), ("a",)],
    "nested-break-inner": [("while", 3, [("while", 3, [("a",), ("break", 4, 0)]), ("a",)]), ("a",)],
    "nested-break-outer": [("while", 3, [("while", 3, [("a",), ("break", 4, 1)]), ("a",)]), ("a",)],
    "nested-continue-outer": [("while", 3, [("while", 3, [("a",), ("continue", 4, 1)]), ("a",)]), ("a",)],
    "same-target-cjump": [("a",), ("same", 0), ("a",)],
    "same-target-cjump-in-loop": [("while", 3, [("a",), ("same", 1)]), ("a",)],
    "two-entry-loop": [("twoentry", 4, 3, [("a",)], [("a",)]), ("a",)],
    "two-entry-loop-nested": [("while", 2, [("twoentry", 5, 2, [("a",)], [("a",)])]), ("a",)],
}


def random_skeleton(r, depth=0, in_loop=0, budget=None):
    budget = budget if budget is not None else [r.randint(4, 12)]
    out = []
    for _ in range(r.randint(1, 3)):
        if budget[0] <= 0:
            break
        budget[0] -= 1
        k = r.random()
        if k < 0.3 or depth >= 3:
            out.append(("a",))
        elif k < 0.5:
            out.append(("if", r.randrange(8), random_skeleton(r, depth + 1, in_loop, budget),
                        random_skeleton(r, depth + 1, in_loop, budget) if r.random() < 0.6 else []))
        elif k < 0.68:
            out.append((r.choice(["while", "while", "do"]), r.randint(1, 4),
                        random_skeleton(r, depth + 1, in_loop + 1, budget)))
        elif k < 0.78 and in_loop:
            out.append(("break", r.randrange(8), r.randrange(in_loop) if r.random() < 0.3 else 0))
        elif k < 0.86 and in_loop:
            out.append(("continue", r.randrange(8), r.randrange(in_loop) if r.random() < 0.3 else 0))
        elif k < 0.93:
            out.append(("return", r.randrange(8)))
        elif k < 0.95:
            out.append(("same", r.randrange(4)))
        elif k < 0.97:
            out.append(("self", r.randint(1, 3)))
        elif k < 0.985 and depth < 2:
            out.append(("twoentry", r.randrange(8), r.randint(1, 3), [("a",)],
                        random_skeleton(r, depth + 2, in_loop, budget)))
        else:
            out.append(("a",))
    return out


class Lower:
    """skeleton -> ir function in memory form"""

    def __init__(self, module, name, gvar):
        from ppci import ir
        self.ir = ir
        self.f = ir.Function(name, ir.Binding.GLOBAL, ir.i32)
        module.add_function(self.f)
        self.x = ir.Parameter("x", ir.i32)
        self.f.add_parameter(self.x)
        self.n = 0
        self.k = 0
        self.g = gvar
        self.cur = self.block("entry")
        self.f.entry = self.cur
        self.acc = self.slot("acc", 1)
        self.loops = []     # (continue target, break target)

    def name(self, base):
        self.n += 1
        return "%s%d" % (base, self.n)

    def block(self, base):
        b = self.ir.Block(self.name(self.f.name + "_" + base))
        self.f.add_block(b)
        return b

    def emit(self, ins):
        self.cur.add_instruction(ins)
        return ins

    def const(self, v):
        return self.emit(self.ir.Const(v, self.name("c"), self.ir.i32))

    def slot(self, base, init):
        ir = self.ir
        a = self.emit(ir.Alloc(self.name(base), 4, 4))
        ad = self.emit(ir.AddressOf(a, self.name(base + "p")))
        self.emit(ir.Store(self.const(init), ad))
        return ad

    def load(self, ad):
        return self.emit(self.ir.Load(ad, self.name("v"), self.ir.i32))

    def binop(self, a, op, b):
        return self.emit(self.ir.Binop(a, op, b, self.name("t"), self.ir.i32))

    def node(self):
        self.k += 1
        v = self.binop(self.binop(self.load(self.acc), "*", self.const(3)), "+", self.const(self.k))
        self.emit(self.ir.Store(v, self.acc))

    def cond(self, j):
        """-> (a, b) for  cjmp a == b"""
        if j >= 4:      # bit j-4 of x alone
            return self.binop(self.binop(self.x, ">>", self.const(j - 4)), "&", self.const(1)), self.const(1)
        t = self.binop(self.binop(self.x, ">>", self.const(j)), "^", self.binop(self.load(self.acc), ">>", self.const(1)))
        return self.binop(t, "&", self.const(1)), self.const(1)

    def ret(self):
        v = self.load(self.acc)
        self.emit(self.ir.Store(v, self.g))
        self.emit(self.ir.Return(v))

    def stmts(self, body):
        """-> False when control cannot continue"""
        ir = self.ir
        for st in body:
            kind = st[0]
            if kind == "a":
                self.node()
            elif kind == "if":
                a, b = self.cond(st[1])
                tb, eb, jb = self.block("then"), self.block("else"), self.block("join")
                self.emit(ir.CJump(a, "==", b, tb, eb if st[3] else jb))
                if not st[3]:
                    self.f.remove_block(eb)
                self.cur = tb
                self.node()
                alive = self.stmts(st[2])
                if alive:
                    self.emit(ir.Jump(jb))
                if st[3]:
                    self.cur = eb
                    if self.stmts(st[3]):
                        self.emit(ir.Jump(jb))
                self.cur = jb
                if not jb.references:
                    self.f.remove_block(jb)
                    return False
            elif kind in ("while", "do"):
                i = self.slot("i", 0)
                head, body_b, latch, exit_b = (self.block("head"), self.block("body"), self.block("latch"),
                                               self.block("exit"))
                self.emit(ir.Jump(head if kind == "while" else body_b))
                self.cur = head
                self.emit(ir.CJump(self.load(i), "<", self.const(st[1]), body_b, exit_b))
                self.cur = body_b
                self.loops.append((latch, exit_b))
                alive = self.stmts(st[2])
                self.loops.pop()
                if alive:
                    self.emit(ir.Jump(latch))
                self.cur = latch
                self.emit(ir.Store(self.binop(self.load(i), "+", self.const(1)), i))
                self.emit(ir.Jump(head))
                self.cur = exit_b
            elif kind in ("break", "continue"):
                if not self.loops:
                    continue
                level = min(st[2], len(self.loops) - 1)
                tgt = self.loops[-1 - level][0 if kind == "continue" else 1]
                a, b = self.cond(st[1])
                nb = self.block("next")
                self.emit(ir.CJump(a, "==", b, tgt, nb))
                self.cur = nb
            elif kind == "return":
                a, b = self.cond(st[1])
                rb, nb = self.block("ret"), self.block("next")
                self.emit(ir.CJump(a, "==", b, rb, nb))
                self.cur = rb
                self.node()
                self.ret()
                self.cur = nb
            elif kind == "same":
                a, b = self.cond(st[1])
                nb = self.block("next")
                self.emit(ir.CJump(a, "==", b, nb, nb))
                self.cur = nb
            elif kind == "self":
                i = self.slot("i", 0)
                lb, nb = self.block("self"), self.block("next")
                self.emit(ir.Jump(lb))
                self.cur = lb
                self.node()
                v = self.binop(self.load(i), "+", self.const(1))
                self.emit(ir.Store(v, i))
                self.emit(ir.CJump(v, "<", self.const(st[1]), lb, nb))
                self.cur = nb
            elif kind == "twoentry":
                i = self.slot("i", 0)
                la, lb, nb = self.block("ea"), self.block("eb"), self.block("next")
                a, b = self.cond(st[1])
                self.emit(ir.CJump(a, "==", b, la, lb))
                self.cur = la
                self.node()
                if self.stmts(st[3]):
                    self.emit(ir.Jump(lb))
                self.cur = lb
                self.node()
                if self.stmts(st[4]):
                    v = self.binop(self.load(i), "+", self.const(1))
                    self.emit(ir.Store(v, i))
                    self.emit(ir.CJump(v, "<", self.const(st[2]), la, nb))
                self.cur = nb
        return True

    def finish(self, body):
        self.stmts(body)
        self.node()
        self.ret()
        from vlib.irgen import prune_unreachable
        prune_unreachable(self.f)


def build_skeleton(name, body):
    from ppci import ir
    m = ir.Module("skel")
    g = ir.Variable("g", ir.Binding.GLOBAL, 4, 4)
    m.add_variable(g)
    Lower(m, "f", g).finish(body)
    return m


SKEL_ARGS = list(range(16))


def neutralise_same_target(module):
    """avoid switch of structure-same-target-cjump-asserts: cjmp c ? L : L  ->  jmp L"""
    from ppci import ir
    n = 0
    for f in module.functions:
        for b in f.blocks:
            last = b.instructions[-1]
            if isinstance(last, ir.CJump) and last.lab_yes is last.lab_no:
                tgt = last.lab_yes
                b.remove_instruction(last)
                last.delete()
                b.add_instruction(ir.Jump(tgt))
                n += 1
    return n


def part_cfg(spec, mon):
    avoid = spec["avoid"]
    todo = [(name, body) for name, body in sorted(CATALOGUE.items())] if spec.get("catalogue", True) else []
    for idx in range(spec["start"], spec["start"] + spec["count"]):
        r = rng(spec["seed"], PROPERTY, "cfg%d" % idx)
        todo.append(("random/%d" % idx, random_skeleton(r)))
    for name, body in todo:
        m = build_skeleton(name, body)
        why = static_avoid(m, avoid)
        mon.count("skeletons", "avoided" if why else "used")
        if why:
            mon.discard("avoided: " + why)
            continue
        mon.count("skeleton_names", name.split("/")[0])
        prepare_module(m, {"f": [[x] for x in SKEL_ARGS]}, mon, {"id": "cfg/" + name, "skeleton": repr(body)}, "cfg",
                       replay=dict(spec))
        flush(mon, force=False)
    flush(mon)


# --------------------------------------------------------------------------
# C programs for the 32-bit path  c_to_ir(src, "arm") -> ir_to_wasm


class CGen32:
    """Small seeded generator of C translation units for the arm type sizes (int, long and
    pointers 32 bit).  The oracle is the reference interpreter on the IR ppci's front-end
    produces, so nothing here has to be free of C-level undefined behaviour: a run that is
    undefined in IR terms (division by zero, out-of-range shift, ...) is discarded.
    Constructs behind open findings are left out (see the dials set from ``avoid``)."""

    def __init__(self, r, avoid):
        self.r = r
        self.narrow = NARROW not in avoid and not any(k in avoid for k in CASTS)
        self.i64 = ("wasm-i64-bitwise-shift-unsupported" not in avoid and not any(k in avoid for k in CASTS)
                    and "wasm-integer-immediate-out-of-signed-range" not in avoid)
        self.inv = "wasm-invert-and-unsigned-negate-unsupported" not in avoid
        self.init = "wasm-data-segment-arguments" not in avoid
        self.f2i = not any(k in avoid for k in CASTS)
        self.structs = "wasm-blob-copy-unsupported" not in avoid
        self.ptrinit = self.init and "wasm-global-pointer-initializer-unsupported" not in avoid
        self.nest = 1 if "structure-nested-loop-miscompiled" in avoid else 2
        # short-circuit operators and early returns make the structure detector generate code
        # twice; while that is an open finding such programs would only be thrown away
        self.dup = "structure-duplicated-code-loses-loop" not in avoid
        self.tags = set()
        self.nvar = 0
        self.helpers = []
        self.optable = False

    # ---- expressions of type int
    def const(self):
        r = self.r
        if r.random() < 0.7:
            return str(r.choice([0, 1, 2, 3, 5, 7, 8, 10, 13, 16, 31, 100, 255, 1000]))
        return r.choice(["2147483647", "(-2147483647 - 1)", "65535", "(-1)", "(-7)", "(-100)", "123456789", "0x7fff0000"])

    def atom(self, sc):
        r = self.r
        k = r.random()
        if k < 0.55 and sc["ints"]:
            return r.choice(sc["ints"])
        if k < 0.65:
            return "g%d" % r.randrange(3)
        if k < 0.73:
            return "arr[(%s) & 7]" % self.expr(sc, 2)
        if k < 0.78 and sc.get("ptr"):
            self.tags.add("pointer-deref")
            return "(*%s)" % sc["ptr"]
        if k < 0.80 and self.ptrinit:
            self.tags.add("initialised-pointer")
            if self.optable and r.random() < 0.4 and not sc.get("nocall"):
                return "gops[(%s) & 1](%s, %s)" % (self.expr(sc, 2), self.expr(sc, 2), self.expr(sc, 2))
            return r.choice(["(*gp)", "(*gtab[(%s) & 1])" % self.expr(sc, 2), "gstr[(%s) & 3]" % self.expr(sc, 2)])
        if k < 0.82 and self.narrow:
            self.tags.add("narrow-global")
            return r.choice(["gc", "gs", "guc", "gus", "(int)gu"])
        return self.const()

    def expr(self, sc, depth=0):
        r = self.r
        if depth >= 3 or r.random() < 0.25:
            return self.atom(sc)
        k = r.random()
        a = self.expr(sc, depth + 1)
        if k < 0.40:
            return "(%s %s %s)" % (a, r.choice(["+", "-", "*", "&", "|", "^"]), self.expr(sc, depth + 1))
        if k < 0.48:
            self.tags.add("division")
            return "(%s %s ((%s & 7) + 1))" % (a, r.choice(["/", "%"]), self.expr(sc, depth + 1))
        if k < 0.56:
            self.tags.add("shift")
            return "(%s %s %d)" % (a, r.choice(["<<", ">>"]), r.randrange(32))
        if k < 0.66:
            self.tags.add("comparison-value")
            return "(%s %s %s)" % (a, r.choice(["<", ">", "<=", ">=", "==", "!="]), self.expr(sc, depth + 1))
        if k < 0.72 and self.dup:
            self.tags.add("logical")
            return "(%s %s %s)" % (a, r.choice(["&&", "||"]), self.expr(sc, depth + 1))
        if k < 0.76:
            return "(!%s)" % a
        if k < 0.80:
            return "(-%s)" % a
        if k < 0.83 and self.inv:
            self.tags.add("bitwise-not")
            return "(~%s)" % a
        if k < 0.89:
            self.tags.add("ternary")
            return "(%s ? %s : %s)" % (a, self.expr(sc, depth + 1), self.expr(sc, depth + 1))
        if k < 0.93 and self.helpers and not sc.get("nocall"):
            self.tags.add("call")
            return "%s(%s, %s)" % (r.choice(self.helpers), a, self.expr(sc, depth + 1))
        if k < 0.95 and self.narrow:
            self.tags.add("narrowing-cast")
            return "((%s)%s)" % (r.choice(["char", "unsigned char", "short", "unsigned short"]), a)
        if k < 0.97 and self.narrow:
            self.tags.add("unsigned")
            return "((int)((unsigned)%s %s (unsigned)%s))" % (a, r.choice(["/", "%", ">>", "<", "*"]),
                                                             "((%s & 15) + 1)" % self.expr(sc, depth + 1))
        if k < 0.985 and self.i64:
            self.tags.add("long-long")
            return "((int)(((long long)%s * %s) >> %d))" % (a, self.expr(sc, depth + 1), r.randrange(40))
        return a

    def dexpr(self, sc, depth=0):
        """expression of type double"""
        r = self.r
        if depth >= 2 or r.random() < 0.3:
            k = r.random()
            if k < 0.4:
                return r.choice(["gd", "0.5", "2.0", "1.25", "-3.5", "100.0", "0.1"])
            return "(double)%s" % self.atom(sc)
        return "(%s %s %s)" % (self.dexpr(sc, depth + 1), r.choice(["+", "-", "*"]), self.dexpr(sc, depth + 1))

    # ---- statements
    def lhs(self, sc):
        r = self.r
        k = r.random()
        if k < 0.5 and sc["locals"]:
            return r.choice(sc["locals"])
        if k < 0.75:
            return "g%d" % r.randrange(3)
        if k < 0.9:
            return "arr[(%s) & 7]" % self.expr(sc, 2)
        if sc.get("ptr"):
            return "*%s" % sc["ptr"]
        return "g0"

    def block(self, sc, budget, ind, loop_depth, in_loop):
        r = self.r
        out = []
        n = r.randint(1, 4)
        for _ in range(n):
            if budget[0] <= 0:
                break
            budget[0] -= 1
            k = r.random()
            pad = "  " * ind
            if k < 0.38:
                op = r.choice(["=", "=", "=", "+=", "-=", "^=", "|=", "&=", "*="])
                out.append("%s%s %s %s;" % (pad, self.lhs(sc), op, self.expr(sc)))
            elif k < 0.52:
                self.tags.add("if")
                out.append("%sif (%s) {" % (pad, self.expr(sc, 1)))
                out += self.block(sc, budget, ind + 1, loop_depth, in_loop)
                if r.random() < 0.5:
                    out.append("%s} else {" % pad)
                    out += self.block(sc, budget, ind + 1, loop_depth, in_loop)
                out.append("%s}" % pad)
            elif k < 0.66 and loop_depth < self.nest:
                self.nvar += 1
                v = "i%d" % self.nvar
                kind = r.choice(["for", "for", "while", "do"])
                self.tags.add(kind + "-loop")
                trip = r.randint(1, 5)
                sc2 = dict(sc, ints=sc["ints"] + [v])
                if kind == "for":
                    out.append("%sfor (%s = 0; %s < %d; %s++) {" % (pad, v, v, trip, v))
                    out += self.block(sc2, budget, ind + 1, loop_depth + 1, True)
                    out.append("%s}" % pad)
                elif kind == "while":
                    out.append("%s%s = %d;" % (pad, v, trip))
                    out.append("%swhile (%s > 0) {" % (pad, v))
                    out.append("%s  %s--;" % (pad, v))
                    out += self.block(sc2, budget, ind + 1, loop_depth + 1, True)
                    out.append("%s}" % pad)
                else:
                    out.append("%s%s = 0;" % (pad, v))
                    out.append("%sdo {" % pad)
                    out.append("%s  %s++;" % (pad, v))
                    out += self.block(sc2, budget, ind + 1, loop_depth + 1, True)
                    out.append("%s} while (%s < %d);" % (pad, v, trip))
            elif k < 0.70 and in_loop:
                self.tags.add("break")
                out.append("%sif (%s) break;" % (pad, self.expr(sc, 2)))
            elif k < 0.74 and in_loop:
                self.tags.add("continue")
                out.append("%sif (%s) continue;" % (pad, self.expr(sc, 2)))
            elif k < 0.78 and (self.dup or r.random() < 0.2):
                self.tags.add("early-return")
                out.append("%sif (%s) return %s;" % (pad, self.expr(sc, 2), self.expr(sc, 2)))
            elif k < 0.84 and not sc.get("nocall"):
                self.tags.add("report")
                out.append("%sreport(%s);" % (pad, self.expr(sc, 1)))
            elif k < 0.88:
                self.tags.add("switch")
                out.append("%sswitch ((%s) & 3) {" % (pad, self.expr(sc, 2)))
                for c in range(r.randint(1, 3)):
                    out.append("%s  case %d: %s += %s;%s" % (pad, c, self.lhs(sc), self.expr(sc, 2),
                                                           " break;" if r.random() < 0.7 else ""))
                out.append("%s  default: %s ^= %s; break;" % (pad, self.lhs(sc), self.expr(sc, 2)))
                out.append("%s}" % pad)
            elif k < 0.92:
                self.tags.add("double")
                out.append("%sgd = %s;" % (pad, self.dexpr(sc)))
                out.append("%sif (gd %s %s) %s += 1;" % (pad, r.choice(["<", ">", "<=", ">="]), self.dexpr(sc, 1), self.lhs(sc)))
            elif k < 0.94 and self.f2i:
                self.tags.add("float-to-int")
                out.append("%s%s = (int)(%s * 0.25);" % (pad, self.lhs(sc), self.dexpr(sc, 1)))
            elif k < 0.96 and self.structs:
                self.tags.add("struct-assign")
                out.append("%ss1.a = %s; s1.b = %s;" % (pad, self.expr(sc, 2), self.expr(sc, 2)))
                out.append("%ss2 = s1;" % pad)
                out.append("%s%s = s2.a - s2.b;" % (pad, self.lhs(sc)))
            elif k < 0.98 and sc.get("ptr"):
                self.tags.add("pointer-retarget")
                out.append("%s%s = &arr[(%s) & 7];" % (pad, sc["ptr"], self.expr(sc, 2)))
            elif len(self.helpers) >= 2 and not sc.get("nocall"):
                self.tags.add("function-pointer")
                out.append("%sfp = (%s) ? %s : %s;" % (pad, self.expr(sc, 2), self.helpers[0], self.helpers[1]))
                out.append("%s%s = fp(%s, %s);" % (pad, self.lhs(sc), self.expr(sc, 2), self.expr(sc, 2)))
            else:
                out.append("%s%s = %s;" % (pad, self.lhs(sc), self.expr(sc)))
        return out

    def function(self, name, params, size, helper):
        r = self.r
        nloc = r.randint(1, 3)
        locs = ["v%d" % i for i in range(nloc)]
        first = self.nvar
        sc = {"ints": list(params) + locs, "locals": locs + list(params), "ptr": "p" if r.random() < 0.6 else None,
              "nocall": helper and not self.helpers}
        body = self.block(sc, [size], 1, 0, False)
        decl = ["  int %s;" % ", ".join("%s = %s" % (v, self.const()) for v in locs)]
        loopvars = ["i%d" % i for i in range(first + 1, self.nvar + 1)]
        if loopvars:
            decl.append("  int %s;" % ", ".join("%s = 0" % v for v in loopvars))
        if sc["ptr"]:
            decl.append("  int *p = &g%d;" % r.randrange(3))
        if any("fp(" in ln or "fp =" in ln for ln in body):
            decl.append("  int (*fp)(int, int);")
        head = "%sint %s(%s)" % ("static " if helper else "", name, ", ".join("int " + p for p in params))
        ret = "  return %s;" % self.expr(sc, 1)
        return [head + " {"] + decl + body + [ret, "}"]

    def program(self):
        r = self.r
        out = []
        if self.init:
            self.tags.add("initialised-globals")
            out.append("int g0 = %d, g1 = %d, g2;" % (r.randint(-50, 50), r.randint(0, 1000)))
            out.append("int arr[8] = {%s};" % ", ".join(str(r.randint(-9, 99)) for _ in range(r.randint(1, 8))))
            out.append("double gd = %s;" % r.choice(["1.5", "-0.25", "100.0"]))
        else:
            out.append("int g0, g1, g2;")
            out.append("int arr[8];")
            out.append("double gd;")
        if self.narrow:
            out.append("char gc; short gs; unsigned char guc; unsigned short gus; unsigned gu;")
        if self.structs:
            out.append("struct S { int a; int b; } s1, s2;")
        out.append("void report(int);")
        if self.ptrinit:
            # globals initialised with addresses of data, of a string literal and (below) of functions
            out.append("int *gp = &g1;")
            out.append("int *gtab[2] = {&g0, &g2};")
            out.append("const char *gstr = \"wasm\";")
            nh = r.randint(0, 2)
            if nh == 2:
                out.append("static int h0(int a, int b);")
                out.append("static int h1(int a, int b);")
                out.append("int (*gops[2])(int, int) = {h0, h1};")
        else:
            nh = r.randint(0, 2)
        for i in range(nh):
            name = "h%d" % i
            out += self.function(name, ["a", "b"], r.choice([3, 5, 8]), True)
            self.helpers.append(name)
        self.optable = self.ptrinit and nh == 2
        entry = self.function("entry", ["a", "b", "c"], r.choice([6, 10, 16]), False)
        if not self.init:
            # the avoid switch of wasm-data-segment-arguments: globals are filled by code
            fill = ["  g0 = a ^ 5; g1 = 77; arr[1] = b; arr[6] = -3; gd = 1.5;"]
            k = [i for i, ln in enumerate(entry) if not ln.startswith("  int ")][1]
            entry[k:k] = fill
        if self.narrow:
            k = [i for i, ln in enumerate(entry) if not ln.startswith("  int ")][1]
            entry[k:k] = ["  gc = (char)a; gs = (short)b; guc = (unsigned char)c; gus = (unsigned short)(a * 3); gu = (unsigned)b;"]
        out += entry
        return "\n".join(out) + "\n"


C_ARGS = [[0, 1, 2], [7, -3, 100], [-1, 2147483647, 5], [123456, 3, -9]]


def part_c(spec, mon):
    import contextlib
    import logging
    from ppci import api
    from ppci.common import CompilerError
    avoid = spec["avoid"]
    logging.disable(logging.CRITICAL)
    for idx in range(spec["start"], spec["start"] + spec["count"]):
        r = rng(spec["seed"], PROPERTY, "c%d" % idx)
        gen = CGen32(r, avoid)
        src = gen.program()
        case = {"id": "c32/%s/%d" % (spec["seed"], idx), "index": idx, "source": src}
        try:
            with contextlib.redirect_stdout(io.StringIO()), contextlib.redirect_stderr(io.StringIO()):
                m = api.c_to_ir(io.StringIO(src), "arm")
        except CompilerError as e:
            mon.count("c_diagnostics", str(getattr(e, "msg", e))[:60])
            mon.discard("C front-end diagnostic (C01's business)")
            continue
        except Exception as e:  # a front-end crash is C01's / C28's business, not C23's
            mon.count("c_diagnostics", "%s: %s" % (type(e).__name__, str(e)[:50]))
            mon.discard("C front-end exception (C01's business)")
            continue
        if "structure-same-target-cjump-asserts" in avoid:
            if neutralise_same_target(m):
                mon.count("neutralised", "same-target-cjump")
        why = static_avoid(m, avoid)
        if why:
            mon.discard("avoided: " + why)
            continue
        for t in gen.tags:
            mon.count("c_tags", t)
        prepare_module(m, {"entry": C_ARGS}, mon, case, "c", replay=dict(spec, start=idx, count=1))
        flush(mon, force=False, batch=8)
    flush(mon)


def run_shard(spec):
    mon = Mon(spec)
    part = spec["part"]
    if part == "gen":
        part_gen(spec, mon)
    elif part == "matrix":
        part_matrix(spec, mon)
    elif part == "cfg":
        part_cfg(spec, mon)
    elif part == "c":
        part_c(spec, mon)
    return mon.result()


# --------------------------------------------------------------------------
# witnesses of the known findings


def _probe(build):
    def run():
        mon = Mon({"maxviol": 5})
        module, argv = build()
        prepare_module(module, argv, mon, {"id": "probe"}, "probe")
        flush(mon)
        if mon.viol:
            return mon.viol[0]["summary"]
        if mon.inconclusive:
            raise RuntimeError(mon.inconclusive[0])
        if not mon.evals:
            raise RuntimeError("probe made no comparison (%r)" % (mon.disc,))
        return None
    return run


def _unary(src, dst, make, vecs):
    """f(src a) -> dst : make(ir, block, a) builds the value to return"""
    def build():
        from ppci import ir
        m = ir.Module("p")
        f, (a,), b = _fn(m, "f", ir.get_ty(dst), [ir.get_ty(src)])
        b.add_instruction(ir.Return(make(ir, b, a)))
        return m, {"f": vecs}
    return build


def _cast_probe(src, dst, vecs):
    def make(ir, b, a):
        return b.add_instruction(ir.Cast(a, "t", ir.get_ty(dst))) or b.instructions[-1]
    return _unary(src, dst, make, vecs)


def _b_data():
    from ppci import ir
    m = ir.Module("p")
    g = ir.Variable("g", ir.Binding.GLOBAL, 4, 4, value=b"\x2a\x00\x00\x00")
    m.add_variable(g)
    f, _, b = _fn(m, "f", ir.i32, [])
    v = ir.Load(g, "v", ir.i32)
    b.add_instruction(v)
    b.add_instruction(ir.Return(v))
    return m, {"f": [[]]}


def _b_binop(tyname, op, vecs):
    def build():
        from ppci import ir
        ty = ir.get_ty(tyname)
        m = ir.Module("p")
        f, (a, b2), b = _fn(m, "f", ty, [ty, ty])
        t = ir.Binop(a, op, b2, "t", ty)
        b.add_instruction(t)
        b.add_instruction(ir.Return(t))
        return m, {"f": vecs}
    return build


def _b_inv():
    from ppci import ir
    m = ir.Module("p")
    f, (a,), b = _fn(m, "f", ir.i32, [ir.i32])
    t = ir.Unop("~", a, "t", ir.i32)
    b.add_instruction(t)
    b.add_instruction(ir.Return(t))
    return m, {"f": [[5], [-1]]}


def _b_narrow():
    """(u8) 200 + 100 wraps to 44, which is < 100"""
    from ppci import ir
    m = ir.Module("p")
    f, (a, b2), b = _fn(m, "f", ir.i32, [ir.u8, ir.u8])
    t = ir.Binop(a, "+", b2, "t", ir.u8)
    b.add_instruction(t)
    yes, no = ir.Block("yes"), ir.Block("no")
    f.add_block(yes)
    f.add_block(no)
    b.add_instruction(ir.CJump(t, "<", b2, yes, no))
    one = ir.Const(1, "one", ir.i32)
    yes.add_instruction(one)
    yes.add_instruction(ir.Return(one))
    zero = ir.Const(0, "zero", ir.i32)
    no.add_instruction(zero)
    no.add_instruction(ir.Return(zero))
    return m, {"f": [[200, 100], [1, 2]]}


def _b_blob():
    from ppci import ir
    m = ir.Module("p")
    f, (x,), b = _fn(m, "f", ir.i32, [ir.i32])
    a1 = ir.Alloc("a1", 8, 4)
    b.add_instruction(a1)
    p1 = ir.AddressOf(a1, "p1")
    b.add_instruction(p1)
    a2 = ir.Alloc("a2", 8, 4)
    b.add_instruction(a2)
    p2 = ir.AddressOf(a2, "p2")
    b.add_instruction(p2)
    four = ir.Const(4, "four", ir.ptr)
    b.add_instruction(four)
    q1 = ir.Binop(p1, "+", four, "q1", ir.ptr)
    b.add_instruction(q1)
    b.add_instruction(ir.Store(x, p1))
    b.add_instruction(ir.Store(x, q1))
    b.add_instruction(ir.CopyBlob(p2, p1, 8))
    q2 = ir.Binop(p2, "+", four, "q2", ir.ptr)
    b.add_instruction(q2)
    v = ir.Load(q2, "v", ir.i32)
    b.add_instruction(v)
    b.add_instruction(ir.Return(v))
    return m, {"f": [[5], [-9]]}


def _b_bigconst():
    from ppci import ir
    m = ir.Module("p")
    f, _, b = _fn(m, "f", ir.u64, [])
    c = ir.Const((1 << 64) - 1, "c", ir.u64)
    b.add_instruction(c)
    b.add_instruction(ir.Return(c))
    return m, {"f": [[]]}


def _b_phi():
    """do { i2 = i + 1 } while (i2 < n); return i   -- the phi's value of the last iteration"""
    from ppci import ir
    m = ir.Module("p")
    f, (n,), b = _fn(m, "f", ir.i32, [ir.i32])
    head, ex = ir.Block("head"), ir.Block("ex")
    f.add_block(head)
    f.add_block(ex)
    z = ir.Const(0, "z", ir.i32)
    b.add_instruction(z)
    one = ir.Const(1, "one", ir.i32)
    b.add_instruction(one)
    b.add_instruction(ir.Jump(head))
    i = ir.Phi("i", ir.i32)
    head.add_instruction(i)
    i2 = ir.Binop(i, "+", one, "i2", ir.i32)
    head.add_instruction(i2)
    i.set_incoming(b, z)
    i.set_incoming(head, i2)
    head.add_instruction(ir.CJump(i2, "<", n, head, ex))
    ex.add_instruction(ir.Return(i))
    return m, {"f": [[1], [4], [0]]}


def _b_fptr_null():
    from ppci import ir
    m = ir.Module("p")
    h, (a,), hb = _fn(m, "h", ir.i32, [ir.i32])
    hb.add_instruction(ir.Return(a))
    f, (x,), b = _fn(m, "f", ir.i32, [ir.i32])
    al = ir.Alloc("al", 4, 4)
    b.add_instruction(al)
    ad = ir.AddressOf(al, "ad")
    b.add_instruction(ad)
    b.add_instruction(ir.Store(h, ad))
    p = ir.Load(ad, "p", ir.ptr)
    b.add_instruction(p)
    z = ir.Const(0, "z", ir.ptr)
    b.add_instruction(z)
    yes, no = ir.Block("yes"), ir.Block("no")
    f.add_block(yes)
    f.add_block(no)
    b.add_instruction(ir.CJump(p, "==", z, yes, no))
    one = ir.Const(1, "one", ir.i32)
    yes.add_instruction(one)
    yes.add_instruction(ir.Return(one))
    v = ir.FunctionCall(p, [x], "v", ir.i32)
    no.add_instruction(v)
    no.add_instruction(ir.Return(v))
    return m, {"f": [[5]]}


def _b_reloc():
    from ppci import ir
    m = ir.Module("p")
    t = ir.Variable("t", ir.Binding.GLOBAL, 4, 4)
    m.add_variable(t)
    g = ir.Variable("g", ir.Binding.GLOBAL, 8, 4, value=(b"\x01\x00\x00\x00", (ir.ptr, "t")))
    m.add_variable(g)
    f, (x,), b = _fn(m, "f", ir.i32, [ir.i32])
    four = ir.Const(4, "four", ir.ptr)
    b.add_instruction(four)
    q = ir.Binop(g, "+", four, "q", ir.ptr)
    b.add_instruction(q)
    p = ir.Load(q, "p", ir.ptr)
    b.add_instruction(p)
    b.add_instruction(ir.Store(x, p))
    v = ir.Load(t, "v", ir.i32)
    b.add_instruction(v)
    b.add_instruction(ir.Return(v))
    return m, {"f": [[5]]}


def _b_blobarg():
    from ppci import ir
    m = ir.Module("p")
    bt = ir.BlobDataTyp(8, 4)
    h = ir.Function("h", ir.Binding.GLOBAL, ir.i32)
    m.add_function(h)
    bp = ir.Parameter("bp", bt)
    h.add_parameter(bp)
    hb = ir.Block("hb")
    h.add_block(hb)
    h.entry = hb
    ad = ir.AddressOf(bp, "ad")
    hb.add_instruction(ad)
    v = ir.Load(ad, "v", ir.i32)
    hb.add_instruction(v)
    hb.add_instruction(ir.Return(v))
    f, (x,), b = _fn(m, "f", ir.i32, [ir.i32])
    al = ir.Alloc("al", 8, 4)
    b.add_instruction(al)
    pa = ir.AddressOf(al, "pa")
    b.add_instruction(pa)
    four = ir.Const(4, "four", ir.ptr)
    b.add_instruction(four)
    q = ir.Binop(pa, "+", four, "q", ir.ptr)
    b.add_instruction(q)
    b.add_instruction(ir.Store(x, pa))
    b.add_instruction(ir.Store(x, q))
    r = ir.FunctionCall(h, [al], "r", ir.i32)
    b.add_instruction(r)
    b.add_instruction(ir.Return(r))
    return m, {"f": [[5]]}


def _b_skel(name):
    def build():
        return build_skeleton(name, CATALOGUE[name]), {"f": [[x] for x in SKEL_ARGS]}
    return build


PROBES = {
    "wasm-data-segment-arguments": _probe(_b_data),
    "wasm-i64-bitwise-shift-unsupported": _probe(_b_binop("i64", "&", [[12, 10], [-1, 1 << 40]])),
    "wasm-invert-and-unsigned-negate-unsupported": _probe(_b_inv),
    "wasm-cast-pairs-unsupported": _probe(_cast_probe("i8", "i64", [[-3], [100]])),
    "wasm-float-to-int-rounds-to-nearest": _probe(_cast_probe("f64", "i32", [[2.7], [-2.7], [0.5], [1.5]])),
    "wasm-signed-to-u64-zero-extends": _probe(_cast_probe("i32", "u64", [[-1], [7]])),
    "wasm-u32-to-f32-invalid-opcode": _probe(_cast_probe("u32", "f32", [[3], [4000000000]])),
    "wasm-narrow-arithmetic-not-wrapped": _probe(_b_narrow),
    "wasm-blob-copy-unsupported": _probe(_b_blob),
    "wasm-integer-immediate-out-of-signed-range": _probe(_b_bigconst),
    "wasm-phi-copies-before-conditional-jump": _probe(_b_phi),
    "wasm-function-pointer-table-index-zero": _probe(_b_fptr_null),
    "wasm-global-pointer-initializer-unsupported": _probe(_b_reloc),
    "wasm-blob-parameter-unsupported": _probe(_b_blobarg),
    "structure-same-target-cjump-asserts": _probe(_b_skel("same-target-cjump-in-loop")),
    "structure-nested-loop-miscompiled": _probe(_b_skel("nested-loops")),
    "structure-loop-with-two-exit-targets-rejected": _probe(_b_skel("nested-break-outer")),
    "structure-duplicated-code-loses-loop": _probe(_b_skel("early-return-then-loop")),
    "structure-irreducible-cfg-not-rejected": _probe(_b_skel("two-entry-loop")),
}
