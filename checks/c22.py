"""C22 WebAssembly execution follows the specification (DESIGN 4, C22).

Oracle: V8 (node).  For every generated module the harness' own encoder makes
the bytes V8 runs; ppci instantiates the same module (alternately built from
components and read from those bytes) with target="python" and
target="native", performs the same call script and the monitor compares, per
invocation: result (i32/i64 exact, f32/f64 bitwise, any NaN == any NaN, f32
rounded to single), trap / no trap; and at the end: exported globals, the whole
linear memory (size + sha256), and the host-call log.

Three workloads:
  matrix  one function per numeric operator (all of wasmgen.SIG), called on the
          cross product of boundary operands (operator semantics in isolation);
  cmpuse  every comparison operator x every consumer shape (eqz, eqz eqz, if, select,
          br_if, br_table, another comparison, local, arithmetic, call argument,
          loop exit, return guard ...) x boundary operands incl. NaN, +-0, +-inf:
          wasm2ppci keeps comparison results as lazy (op, a, b) tuples until consumed;
  gen     wasmgen execution-profile modules (control flow, calls, indirect
          calls, locals, globals, memory, start, host imports), 8 calls/export.

Every (batch of modules, target) runs in a subprocess (vlib.ppci_wasm_run)
that reports after every call; when the process dies (native traps are fatal
signals) the death is an observation about the call in flight -- judged as a
difference in kind of failure -- and the rest of the batch continues in a new
process.  A timeout is inconclusive (discarded), never a verdict.

Judgement of exceptions: ppci has one trap class (WasmTrapException) plus
runtime.Unreachable; any Python exception that aborts an export call counts as
"trapped" when V8 traps (the class is recorded, not compared); an exception
where V8 returns a value, a value where V8 traps, and a dead process are
violations.

Open findings switch constructs off per target (FINDINGS below); a module is
generated once per distinct switch set, so a construct that is broken on one
target only stays in the workload of the other.

Guards (not findings): the value returned by a function without result is
ignored (the native ctypes prototype returns an arbitrary int); NaN bit
patterns are kept out of memory / reinterpret / copysign by a sanitiser in the
generated code itself (vlib.wasmgen.FuncGen.no_nan), because the spec leaves
sign and payload of NaN results open.  Narrowed w.r.t. DESIGN: imports are
host functions only (the native target cannot link globals/memories), the
thorough tier runs 8000 modules (DESIGN: 10 k) and has no unrestricted
"neutralise and retest" sweep.
"""
import json
import os
import subprocess

from vlib.core import rng, h, PYTHON, VERIF

PROPERTY = "C22"
RULE = ("matrix: every numeric operator x cross product of boundary operands (12 ints / 22-26 floats per type); "
        "gen: wasmgen execution-profile modules with 8 invocations per export on boundary-biased arguments; both "
        "ppci targets against V8. non-trivial = an invocation whose reference run returned a value or trapped inside "
        "generated code (all are); distinct by hash of (module bytes, call)")
ASSUMPTIONS = ["V8 (node v20) implements the WebAssembly 1.0 semantics incl. sign-extension and saturating truncation",
               "vlib.wasmgen.encode emits the module the description denotes (V8 must validate it, else inconclusive)",
               "NaN payloads/signs of results are not compared (non-deterministic per spec)"]
MANIFEST_ENTRY = {
    "text": "Instantiating generated modules with ppci (python and native targets) and calling their exports gives "
            "the results, traps, memory, globals and host-call sequence V8 gives.",
    "note": "Many open findings (see known_findings.d/C22.json) switch constructs off per target: on the native "
            "target nothing that traps is generated (traps kill the process); float rounding/min/max/sqrt corner "
            "cases, float comparisons with NaN (native), out-of-bounds accesses and indirect-call checks are excluded "
            "until fixed. Imports are host functions only. Deep recursion excluded.",
    "technique": "runtime monitoring: differential execution against V8 over generated wasm modules and an operator "
                 "x boundary-operand matrix",
}
SHARD_TIMEOUT = {"quick": 1200, "thorough": 5 * 3600}
TARGETS = ("python", "native")

# finding key -> (targets it applies to, generator flags it switches on)
FINDINGS = {}


def finding(key, targets, flags):
    FINDINGS[key] = (tuple(targets), tuple(flags))


NATIVE_NO_TRAPS = ["no-int-div-by-zero", "no-div-s-overflow", "no-trapping-trunc-out-of-range", "no-mem-oob",
                   "no-call-indirect-trap", "no-unreachable"]
finding("native-no-trap-mechanism", ["native"], NATIVE_NO_TRAPS)
finding("native-rem-s-overflow-sigfpe", ["native"], ["no-rem-s-overflow"])
finding("native-float-compare-unordered", ["native"], ["float-cmp-gt-ge-only"])
finding("py-trunc-out-of-range-no-trap", ["python"], ["no-trapping-trunc-out-of-range"])
finding("py-div-s-overflow-no-trap", ["python"], ["no-div-s-overflow"])
finding("py-float-div-by-zero-raises", ["python"], ["float-div-nonzero-divisor"])
finding("rt-rounding-nan-negative-zero", TARGETS, ["rounding-nonneg-finite-only"])
finding("rt-min-max-nan-signed-zero", TARGETS, ["minmax-const-second-operand"])
finding("rt-sqrt-negative-raises", TARGETS, ["sqrt-of-abs"])
finding("rt-trunc-sat-nan-raises", TARGETS, ["trunc-sat-no-nan"])
finding("py-memory-oob-no-trap", ["python"], ["no-mem-oob"])
finding("py-float-const-inf-nan-nameerror", ["python"], ["no-nonfinite-float-const"])
finding("py-exported-float-global-unreadable", ["python"], ["no-exported-float-global"])
finding("py-f32-arithmetic-not-rounded", ["python"], ["no-f32-arith"])
finding("call-indirect-no-signature-check", ["python"], ["no-call-indirect-sig-mismatch"])
finding("py-f32-runtime-helpers-not-rounded", ["python"], ["no-f32-sqrt-demote"])
finding("py-f32-convert-i64-double-rounding", ["python"], ["f32-convert-i64-53bit"])
finding("py-call-indirect-no-bounds-check", ["python"], ["no-call-indirect-oob"])
finding("native-x86-i64-shift-miscompiled-under-pressure", ["native"], ["const-shift-count", "no-i64-shift"])
finding("wasm2ir-br-table-mutates-module", TARGETS, ["no-module-reuse"])
finding("wasm2ir-loop-in-dead-code-crash", TARGETS, ["no-loop-in-dead-code"])
finding("py-imported-func-in-elem-keyerror", ["python"], ["no-imported-func-in-elem"])


def EXHAUSTIVE(tier):
    return False


def flags_for(avoid, target):
    out = set()
    for key in avoid:
        if key in FINDINGS and target in FINDINGS[key][0]:
            out.update(FINDINGS[key][1])
    return out


def plan(tier, seed, avoid):
    from vlib import wasmgen as g

    nmod = 400 if tier == "quick" else 8000
    per = 16 if tier == "quick" else 125
    specs = [{"part": "gen", "start": s, "n": min(per, nmod - s)} for s in range(0, nmod, per)]
    ops = sorted(g.SIG)
    grp = 10
    dense = tier != "quick"
    for k in range(0, len(ops), grp):
        specs.append({"part": "matrix", "ops": ops[k:k + grp], "dense": dense})
    cmps = [o for o in ops if g.SIG[o][1] == "i32" and (o.endswith(".eqz") or o.split(".")[1] in g._ICMP + g._FCMP)]
    for k in range(0, len(cmps), 9):
        specs.append({"part": "cmpuse", "ops": cmps[k:k + 9], "dense": dense})
    return specs


def floors(tier):
    return {"evaluations": 20000, "distinct_nontrivial": 8000,
            "observed.target.python.calls": 8000, "observed.target.native.calls": 8000,
            "observed.gen.modules": 300, "observed.matrix.ops": 130,
            "observed.opcodes_executed_python": 150, "observed.opcodes_executed_native": 150,
            "observed.reference.trap": 200, "observed.agree.trap.python": 50,
            "observed.build.components": 100, "observed.build.bytes": 100,
            "observed.cmp_consumers": len(CMP_SHAPES), "observed.cmp_consumers.if_eqz": 1000,
            "observed.features.cmp_negated": 100, "observed.features.cmp_special_operand": 200}


# ---------------------------------------------------------------------------
# running ppci in subprocesses

def run_ppci(target, modules, tmp, tag, timeout_per_module=60):
    """-> {id: {"inst", "calls": {k: text}, "dead": None|{"where", "signal"}, "end": {...}|None}}, discarded"""
    results = {}
    pending = list(modules)
    discarded = {}
    rounds = 0
    while pending:
        rounds += 1
        job = os.path.join(tmp, "ppci-%s-%s-%d.json" % (tag, target, rounds))
        out = job + "l"
        with open(job, "w") as f:
            json.dump({"target": target, "modules": pending}, f)
        env = dict(os.environ)
        rc = None
        try:
            with open(os.path.join(tmp, "ppci-%s-%s.log" % (tag, target)), "ab") as log:
                p = subprocess.run([PYTHON, "-m", "vlib.ppci_wasm_run", job, out], stdout=log, stderr=log,
                                   stdin=subprocess.DEVNULL, env=env, cwd=tmp,
                                   timeout=30 + timeout_per_module * len(pending))
            rc = p.returncode
        except subprocess.TimeoutExpired:
            rc = "timeout"
        cur = None
        inflight = None
        if os.path.exists(out):
            with open(out) as f:
                for line in f:
                    try:
                        o = json.loads(line)
                    except ValueError:
                        continue
                    r = results.setdefault(o["id"], {"inst": None, "calls": {}, "dead": None, "end": None})
                    if o["ev"] == "begin":
                        cur, inflight = o["id"], "instantiate"
                    elif o["ev"] == "inst":
                        r["inst"], inflight = o["v"], "after-instantiate"
                        r["module_changed"] = o.get("module_changed")
                    elif o["ev"] == "calling":
                        inflight = o["k"]
                    elif o["ev"] == "call":
                        r["calls"][o["k"]] = o["v"]
                        inflight = "between-calls"
                    elif o["ev"] == "end":
                        r["end"] = o
                        cur = inflight = None
            os.unlink(out)
        os.unlink(job)
        ids = [m["id"] for m in pending]
        if rc == 0 and cur is None:
            done = set(i for i in ids if results.get(i, {}).get("end") is not None)
            pending = [m for m in pending if m["id"] not in done]
            if pending:   # should not happen
                for m in pending:
                    discarded["runner_lost_module"] = discarded.get("runner_lost_module", 0) + 1
                pending = []
            continue
        if cur is None:
            # died/timed out outside any module (start-up): give up on the rest, harness problem
            done = set(i for i in ids if results.get(i, {}).get("end") is not None)
            rest = [m for m in pending if m["id"] not in done]
            discarded["runner_failed_rc_%s" % rc] = discarded.get("runner_failed_rc_%s" % rc, 0) + len(rest)
            break
        if rc == "timeout":
            results[cur]["dead"] = {"where": inflight, "signal": "timeout"}
            discarded["timeout"] = discarded.get("timeout", 0) + 1
        else:
            results[cur]["dead"] = {"where": inflight, "signal": rc}
        k = ids.index(cur)
        pending = pending[k + 1:]
    return results, discarded


# ---------------------------------------------------------------------------
# comparison

def is_trap(x):
    return x.startswith("trap:")


def ppci_aborted(x):
    return x.startswith(("trap:", "exc:"))


class Shard:
    def __init__(self, spec):
        self.spec = spec
        self.evals = 0
        self.hashes = []
        self.obs = {"target": {t: {"calls": 0, "modules": 0, "values_equal": 0, "deaths": 0} for t in TARGETS},
                    "reference": {"value": 0, "trap": 0, "trap_class": {}, "inst_trap": 0},
                    "agree": {"trap": {t: 0 for t in TARGETS}}, "ppci_abort_kinds": {t: {} for t in TARGETS},
                    "opcodes_executed_python": {}, "opcodes_executed_native": {}, "gen": {"modules": 0},
                    "matrix": {"ops": {}, "skipped_by_avoid": {}}, "build": {"components": 0, "bytes": 0},
                    "features": {}, "state": {"globals_compared": 0, "memory_compared": 0, "log_compared": 0},
                    "flags": {t: {} for t in TARGETS}, "cmp_consumers": {}}
        self.disc = {}
        self.viol = []
        self.samples = []
        self.inconclusive = []

    def bump(self, d, k, n=1):
        d[k] = d.get(k, 0) + n

    def violation(self, summary, case):
        if len(self.viol) < 10:
            self.viol.append({"summary": summary, "case": case})

    def result(self):
        return {"evaluations": self.evals, "nontrivial_hashes": self.hashes, "observed": self.obs,
                "discarded": self.disc, "samples": self.samples[:2], "violations": self.viol,
                "inconclusive": self.inconclusive}


def compare(sh, target, mod, ref, got, ops_of_call=None):
    """mod: job module (id, desc, calls); ref: V8 result; got: ppci result record."""
    case0 = {"target": target, "module_id": mod["id"], "desc": mod["desc"], "build": mod.get("build"),
             "flags": sorted(mod.get("flags", []))}
    T = sh.obs["target"][target]
    T["modules"] += 1
    if got is None:
        sh.bump(sh.disc, "module_not_run")
        return
    dead = got["dead"]
    # instantiation
    if ref["inst"] != "ok":
        sh.obs["reference"]["inst_trap"] += 1
        if dead and dead["where"] in ("instantiate", "after-instantiate") and dead["signal"] != "timeout":
            sh.evals += 1
            sh.violation("%s: process died (rc %s) during instantiation; V8: %s" % (target, dead["signal"], ref["inst"]),
                         dict(case0, v8=ref["inst"]))
        elif got["inst"] is not None:
            sh.evals += 1
            if got["inst"] == "ok":
                sh.violation("%s: instantiation succeeds, V8: %s" % (target, ref["inst"]), dict(case0, v8=ref["inst"]))
            else:
                sh.bump(sh.obs["ppci_abort_kinds"][target], got["inst"].split(":")[1] if ":" in got["inst"] else got["inst"])
        return
    if got["inst"] != "ok":
        if dead and dead["signal"] == "timeout":
            return
        sh.evals += 1
        if dead:
            sh.violation("%s: process died (rc %s) during instantiation of a module V8 instantiates" % (
                target, dead["signal"]), case0)
        else:
            sh.violation("%s: instantiate fails with %s, V8 instantiates the module" % (target, got["inst"]),
                         dict(case0, ppci=got["inst"]))
        return
    if got.get("module_changed") is not None:
        sh.evals += 1
        sh.bump(sh.obs["state"], "module_unchanged_checked")
        if got["module_changed"]:
            sh.violation("%s: instantiate() changed the Module object (to_bytes() differs afterwards)" % target, case0)
    if mod.get("reuse"):
        sh.bump(sh.obs["state"], "second_instance_of_same_module")
    ncalls = len(mod["calls"])
    complete = True
    for k in range(ncalls):
        c = mod["calls"][k]
        a = ref["calls"][k]
        if k not in got["calls"]:
            complete = False
            if dead and dead["where"] == k and dead["signal"] != "timeout":
                sh.evals += 1
                T["calls"] += 1
                T["deaths"] += 1
                sh.violation("%s: process died (rc %s) in %s(%s); V8: %s" % (
                    target, dead["signal"], c["f"], ", ".join(x[1] for x in c["args"]), a),
                    dict(case0, call=c, call_index=k, v8=a, ppci="process death rc %s" % dead["signal"],
                         calls_before=mod["calls"][:k]))
            else:
                sh.bump(sh.disc, "call_after_death_or_timeout")
            break
        b = got["calls"][k]
        sh.evals += 1
        T["calls"] += 1
        if ops_of_call is not None:
            for op in ops_of_call(c):
                sh.bump(sh.obs["opcodes_executed_" + target], op)
        if is_trap(a):
            if ppci_aborted(b):
                sh.obs["agree"]["trap"][target] += 1
                sh.bump(sh.obs["ppci_abort_kinds"][target], b.split(":")[1] + (":" + b.split(":")[2] if b.startswith("trap:wasm") else ""))
            else:
                sh.violation("%s: %s(%s) returns %s, V8 traps (%s)" % (
                    target, c["f"], ", ".join(x[1] for x in c["args"]), b, a),
                    dict(case0, call=c, call_index=k, v8=a, ppci=b, calls_before=mod["calls"][:k]))
        elif a == b:
            T["values_equal"] += 1
        else:
            sh.violation("%s: %s(%s) = %s, V8: %s" % (target, c["f"], ", ".join(x[1] for x in c["args"]), b, a),
                         dict(case0, call=c, call_index=k, v8=a, ppci=b, calls_before=mod["calls"][:k]))
    if not complete or got["end"] is None:
        return
    end = got["end"]
    if ref.get("globals"):
        sh.evals += 1
        sh.obs["state"]["globals_compared"] += len(ref["globals"])
        if ref["globals"] != end.get("globals"):
            sh.violation("%s: exported globals after the calls: %s, V8: %s" % (target, end.get("globals"), ref["globals"]),
                         dict(case0, v8=ref["globals"], ppci=end.get("globals"), calls=mod["calls"]))
    if ref.get("mem"):
        sh.evals += 1
        sh.obs["state"]["memory_compared"] += 1
        pm = end.get("mem") or {}
        if pm.get("sha") != ref["mem"]["sha"] or pm.get("pages") != ref["mem"]["pages"]:
            sh.violation("%s: linear memory after the calls differs: pages %s vs %s, first runs %s vs %s" % (
                target, pm.get("pages"), ref["mem"]["pages"], str(pm.get("nz", pm))[:100], str(ref["mem"]["nz"])[:100]),
                dict(case0, v8=ref["mem"], ppci=pm, calls=mod["calls"]))
    if "log" in ref:
        sh.evals += 1
        sh.obs["state"]["log_compared"] += 1
        if ref["log"] != end.get("log"):
            sh.violation("%s: host call log %s, V8: %s" % (target, str(end.get("log"))[:100], str(ref["log"])[:100]),
                         dict(case0, v8=ref["log"], ppci=end.get("log"), calls=mod["calls"]))


# ---------------------------------------------------------------------------
# gen workload

def export_info(desc):
    gt = [x["typ"] for x in desc["globals"]]
    gl = [{"name": e["name"], "typ": gt[e["index"]]} for e in desc["exports"] if e["kind"] == "global"]
    mem = None
    for e in desc["exports"]:
        if e["kind"] == "memory":
            mem = e["name"]
    return gl, mem


def run_gen(sh, spec):
    import base64
    from vlib import wasmgen as g, v8run

    tmp = os.environ["VERIF_TMP"]
    avoid = spec["avoid"]
    variants = {}      # (idx, frozenset flags) -> job module
    per_target = {t: [] for t in TARGETS}
    v8jobs = []
    for idx in range(spec["start"], spec["start"] + spec["n"]):
        for t in TARGETS:
            flags = frozenset(flags_for(avoid, t))
            key = (idx, flags)
            if key not in variants:
                r = rng(spec["seed"], PROPERTY, idx)
                desc, feats = g.gen_module(r, g.Dials(), flags)
                calls = g.gen_calls(r, desc, 8)
                ref_bytes = g.encode(desc)
                gl, mem = export_info(desc)
                vid = "m%d-%d" % (idx, len([1 for k in variants if k[0] == idx]))
                build = "components" if idx % 2 == 0 else "bytes"
                reuse = "no-module-reuse" not in flags
                variants[key] = {"id": vid, "desc": desc, "build": build, "calls": calls, "globals": gl, "memory": mem,
                                 "watch_module": reuse, "reuse": reuse and idx % 8 == 3,
                                 "wasm": base64.b64encode(ref_bytes).decode("ascii"), "flags": sorted(flags),
                                 "features": feats}
                v8jobs.append({"id": vid, "wasm": ref_bytes, "imports": desc["imports"], "mode": "run", "calls": calls,
                               "globals": gl, "memory": mem})
                for k, v in feats.items():
                    if not k.startswith(("const.", "defs.")):
                        sh.bump(sh.obs["features"], k, v)
            per_target[t].append(variants[key])
            for fl in flags:
                sh.bump(sh.obs["flags"][t], fl)
    try:
        ref, versions = v8run.run_v8(v8jobs, tmp)
    except v8run.V8Error as e:
        sh.inconclusive.append("V8 oracle failed: %s" % e)
        return
    for j in v8jobs:
        r = ref[j["id"]]
        if not r["valid"]:
            sh.inconclusive.append("generator produced a module V8 rejects (%s): %s" % (j["id"], r.get("verr")))
            return
        sh.obs["gen"]["modules"] += 1
        for c in r.get("calls", []):
            if is_trap(c):
                sh.obs["reference"]["trap"] += 1
                sh.bump(sh.obs["reference"]["trap_class"], c)
            else:
                sh.obs["reference"]["value"] += 1
    for t in TARGETS:
        mods = per_target[t]
        got, disc = run_ppci(t, [{k: v for k, v in m.items() if k != "features"} for m in mods], tmp, "gen%d" % spec["start"])
        for k, v in disc.items():
            sh.bump(sh.disc, k, v)
        for m in mods:
            sh.obs["build"][m["build"]] += 1
            body_ops = set()
            for f in m["desc"]["funcs"]:
                for ins in f["body"]:
                    body_ops.add(ins[0])
            compare(sh, t, m, ref[m["id"]], got.get(m["id"]))
            if got.get(m["id"]) and got[m["id"]]["inst"] == "ok":
                for op in body_ops:
                    sh.bump(sh.obs["opcodes_executed_" + t], op)
            for k, c in enumerate(m["calls"]):
                sh.hashes.append(h([m["wasm"], c["f"], c["args"]]))
        if len(sh.samples) < 2 and mods:
            m = mods[0]
            sh.samples.append({"target": t, "module_wat": g.to_wat(m["desc"])[:1200], "calls": m["calls"][:3],
                               "v8": ref[m["id"]].get("calls", [ref[m["id"]].get("inst")])[:3]})


# ---------------------------------------------------------------------------
# operator matrix

def fmt(t, v):
    return str(v) if t in ("i32", "i64") else ("%08x" % v if t == "f32" else "%016x" % v)


def matrix_pool(g, dense):
    pool = {
        "i32": [0, 1, -1, 2, 31, 32, 33, -0x80000000, 0x7FFFFFFF, 0x55555555, 255, 65536],
        "i64": [0, 1, -1, 2, 63, 64, 65, -0x8000000000000000, 0x7FFFFFFFFFFFFFFF, 0x100000000, (1 << 53) + 1,
                -0x80000000, 0x1000001000000001],
        "f32": [g.f32_bits(x) for x in [0.0, -0.0, 1.0, -1.5, 0.5, -0.5, 2.5, 3.5, 1e-45, 3.4028234663852886e38,
                                        2147483648.0, -2147483904.0, 4294967296.0, 9.3e18, -9.3e18, 1.9e19, 0.1,
                                        16777217.0, -0.9, 2147483520.0, -2147483648.0, 4294967040.0]]
        + [0x7F800000, 0xFF800000, 0x7FC00000],
        "f64": [g.f64_bits(x) for x in [0.0, -0.0, 1.0, -1.5, 0.5, -0.5, 2.5, 3.5, 5e-324, 1.7976931348623157e308,
                                        2147483647.5, 2147483648.0, -2147483648.9, -2147483649.0, 4294967295.9,
                                        4294967296.0, 9223372036854775808.0, -9223372036854777856.0,
                                        1.8446744073709552e19, 0.1, -0.9, 1e30, 4503599627370497.5,
                                        -9223372036854775808.0, 9223372036854774784.0, 18446744073709549568.0]]
        + [0x7FF0000000000000, 0xFFF0000000000000, 0x7FF8000000000000],
    }
    if dense:
        pool["i32"] = sorted(set(pool["i32"] + [g.sx(v, 32) for v in g.I32_POOL]))
        pool["i64"] = sorted(set(pool["i64"] + [g.sx(v, 64) for v in g.I64_POOL]))
        pool["f32"] = sorted(set(pool["f32"] + g.F32_POOL))
        pool["f64"] = sorted(set(pool["f64"] + g.F64_POOL))
    return pool


def fval(g, t, v):
    return g.bits_f32(v) if t == "f32" else g.bits_f64(v)


def matrix_skip(g, op, types, vals, flags):
    """By-construction predicates of the operand classes an open finding excludes -> flag name or None."""
    import math

    base = op.split(".")[1]
    if types[0] in ("f32", "f64"):
        fv = [fval(g, t, v) for t, v in zip(types, vals)]
        nan = any(math.isnan(x) for x in fv)
    if base in ("div_s", "div_u", "rem_s", "rem_u"):
        bits = 32 if types[0] == "i32" else 64
        if vals[1] == 0 and "no-int-div-by-zero" in flags:
            return "no-int-div-by-zero"
        if base == "div_s" and vals[0] == -(1 << (bits - 1)) and vals[1] == -1 and "no-div-s-overflow" in flags:
            return "no-div-s-overflow"
        if base == "rem_s" and vals[0] == -(1 << (bits - 1)) and vals[1] == -1 and "no-rem-s-overflow" in flags:
            return "no-rem-s-overflow"
    if op in g.TRAPPING_TRUNC and "no-trapping-trunc-out-of-range" in flags:
        x = fv[0]
        if math.isnan(x) or math.isinf(x):
            return "no-trapping-trunc-out-of-range"
        bits = 32 if op.startswith("i32") else 64
        lo, hi = (-(1 << (bits - 1)), (1 << (bits - 1)) - 1) if op.endswith("_s") else (0, (1 << bits) - 1)
        if not lo <= math.trunc(x) <= hi:
            return "no-trapping-trunc-out-of-range"
    if base in ("ceil", "floor", "trunc", "nearest") and "rounding-nonneg-finite-only" in flags:
        if nan or math.copysign(1.0, fv[0]) < 0 and fv[0] > -1.0:
            return "rounding-nonneg-finite-only"
    if base in ("min", "max") and "minmax-const-second-operand" in flags:
        if nan or (fv[0] == 0 and fv[1] == 0):
            return "minmax-const-second-operand"
    if base == "sqrt" and "sqrt-of-abs" in flags:
        if fv[0] < 0:
            return "sqrt-of-abs"
    if "trunc_sat" in op and "trunc-sat-no-nan" in flags and nan:
        return "trunc-sat-no-nan"
    if base == "div" and types[0] in ("f32", "f64") and "float-div-nonzero-divisor" in flags and fv[1] == 0:
        return "float-div-nonzero-divisor"
    if base in ("eq", "ne", "lt", "le") and types[0] in ("f32", "f64") and "float-cmp-gt-ge-only" in flags and nan:
        return "float-cmp-gt-ge-only"
    if op in ("f32.convert_i64_s", "f32.convert_i64_u") and ("no-f32-arith" in flags or "f32-convert-i64-53bit" in flags):
        # single f32 operators are exact after the final rounding except int -> double -> single double rounding
        x = vals[0] if op.endswith("_s") else vals[0] % (1 << 64)
        if abs(x).bit_length() - ((abs(x) & -abs(x)).bit_length() if x else 0) >= 53:
            return "f32-convert-i64-53bit"
    return None


def run_matrix(sh, spec):
    import base64
    import itertools
    from vlib import wasmgen as g, v8run

    tmp = os.environ["VERIF_TMP"]
    pool = matrix_pool(g, spec.get("dense"))
    r = rng(spec["seed"], PROPERTY, "matrix" + spec["ops"][0])
    # seed-dependent extra operands
    for t in pool:
        pool[t] = pool[t] + [g.rand_value(r, t) for _ in range(2)]
    desc = {"types": [], "imports": [], "funcs": [], "table": None, "memory": None, "globals": [], "exports": [],
            "start": None, "elems": [], "datas": [], "custom": []}
    allcalls = []
    for k, op in enumerate(spec["ops"]):
        a, res = g.SIG[op]
        sig = [list(a), [res]]
        if sig not in desc["types"]:
            desc["types"].append(sig)
        desc["funcs"].append({"type": desc["types"].index(sig), "locals": [],
                              "body": [["local.get", i] for i in range(len(a))] + [[op]]})
        name = op.replace(".", "_")
        desc["exports"].append({"name": name, "kind": "func", "index": k})
        for combo in itertools.product(*[pool[t] for t in a]):
            allcalls.append(({"f": name, "args": [[t, fmt(t, v)] for t, v in zip(a, combo)], "ret": res}, op, a, combo))
    ref_bytes = g.encode(desc)
    wasm64 = base64.b64encode(ref_bytes).decode("ascii")
    jobs = {}
    v8jobs = []
    for t in TARGETS:
        flags = flags_for(spec["avoid"], t)
        calls = []
        for c, op, a, combo in allcalls:
            why = matrix_skip(g, op, a, combo, flags)
            if why:
                sh.bump(sh.obs["matrix"]["skipped_by_avoid"], "%s.%s" % (t, why))
                continue
            calls.append(c)
        jobs[t] = {"id": "mx-" + t, "desc": desc, "build": "components" if t == "python" else "bytes", "calls": calls,
                   "globals": [], "memory": None, "wasm": wasm64, "flags": sorted(flags)}
        v8jobs.append({"id": "mx-" + t, "wasm": ref_bytes, "imports": [], "mode": "run", "calls": calls,
                       "globals": [], "memory": None})
    try:
        ref, versions = v8run.run_v8(v8jobs, tmp)
    except v8run.V8Error as e:
        sh.inconclusive.append("V8 oracle failed: %s" % e)
        return
    for op in spec["ops"]:
        sh.bump(sh.obs["matrix"]["ops"], op)
    for t in TARGETS:
        rj = ref["mx-" + t]
        if not rj["valid"]:
            sh.inconclusive.append("matrix module rejected by V8: %s" % rj.get("verr"))
            return
        for c in rj["calls"]:
            if is_trap(c):
                sh.obs["reference"]["trap"] += 1
                sh.bump(sh.obs["reference"]["trap_class"], c)
            else:
                sh.obs["reference"]["value"] += 1
        # a death costs one restart (re-instantiation); keep restarting from the call after the fatal one
        mod = jobs[t]
        offset = 0
        merged = {"inst": None, "calls": {}, "dead": None, "end": None}
        deaths = []
        while True:
            part = dict(mod, calls=mod["calls"][offset:])
            got, disc = run_ppci(t, [part], tmp, "mx")
            for k, v in disc.items():
                sh.bump(sh.disc, k, v)
            gr = got.get(mod["id"])
            if gr is None:
                break
            merged["inst"] = gr["inst"]
            for k, v in gr["calls"].items():
                merged["calls"][k + offset] = v
            if gr["dead"] and isinstance(gr["dead"]["where"], int) and gr["dead"]["signal"] != "timeout" \
                    and len(deaths) < 12:
                k = gr["dead"]["where"] + offset
                deaths.append((k, gr["dead"]["signal"]))
                merged["calls"][k] = "dead:rc%s" % gr["dead"]["signal"]
                offset = k + 1
                if offset >= len(mod["calls"]):
                    merged["end"] = {}
                    break
                continue
            merged["dead"] = gr["dead"]
            merged["end"] = gr["end"]
            break
        sh.obs["build"][mod["build"]] += 1
        # deaths were turned into pseudo results so that the remaining calls stay observable
        for k, sig in deaths:
            c = mod["calls"][k]
            sh.obs["target"][t]["deaths"] += 1
            sh.violation("%s: process died (rc %s) in %s(%s); V8: %s" % (
                t, sig, c["f"], ", ".join(x[1] for x in c["args"]), rj["calls"][k]),
                {"target": t, "op": c["f"], "call": c, "v8": rj["calls"][k], "ppci": "process death rc %s" % sig,
                 "flags": sorted(mod["flags"])})
        # compare the rest (pseudo results compare unequal silently: already reported)
        ref_clean = dict(rj)
        sub = dict(mod)
        keep = [k for k in range(len(mod["calls"])) if not str(merged["calls"].get(k, "")).startswith("dead:")]
        sub["calls"] = [mod["calls"][k] for k in keep]
        ref_clean["calls"] = [rj["calls"][k] for k in keep]
        m2 = dict(merged, calls={i: merged["calls"][k] for i, k in enumerate(keep) if k in merged["calls"]})
        m2["end"] = merged["end"] if merged["end"] else None
        sub["desc"] = {"matrix_ops": spec["ops"]}
        compare(sh, t, sub, ref_clean, m2, ops_of_call=lambda c: [c["f"].replace("_", ".", 1)])
        for c in sub["calls"]:
            sh.hashes.append(h([t, c["f"], c["args"]]))
    if len(sh.samples) < 1:
        c = jobs["python"]["calls"][len(jobs["python"]["calls"]) // 2]
        sh.samples.append({"matrix_call": c, "v8": ref["mx-python"]["calls"][len(jobs["python"]["calls"]) // 2]})


# ---------------------------------------------------------------------------
# comparison-consumer matrix: wasm2ppci keeps the result of a comparison as a lazy (op, a, b)
# tuple until something consumes it; every consumer shape is exercised for every comparison
# operator on boundary operands (NaN, +-0, +-inf for floats)

CMP_SHAPES = ["eqz", "eqz_eqz", "if", "if_eqz", "select", "select_eqz", "br_if", "br_if_eqz", "eq_zero",
              "ne_swapped", "ltu_eqz_swapped", "local_then_eqz", "add_eqz_swapped", "br_table", "nested_if",
              "tee_if", "if_noelse_set", "loop_exit", "extend", "call_arg", "return_if"]


def cmp_shape_body(shape, ab, ba, nparams):
    """Function body (result i32) consuming comparison code `ab` (and `ba`: operands swapped).
    Locals: params, then one i32 scratch local at index nparams.  Function 0 of the module is
    the helper (i32)->i32 x*2+1."""
    c7, c9, c0, c1 = [["i32.const", 7]], [["i32.const", 9]], [["i32.const", 0]], [["i32.const", 1]]
    E = [["i32.eqz"]]
    t = nparams
    if shape == "eqz":
        return ab + E
    if shape == "eqz_eqz":
        return ab + E + E
    if shape in ("if", "if_eqz"):
        return ab + (E if shape == "if_eqz" else []) + [["if", "i32"]] + c7 + [["else"]] + c9 + [["end"]]
    if shape in ("select", "select_eqz"):
        return c7 + c9 + ab + (E if shape == "select_eqz" else []) + [["select"]]
    if shape in ("br_if", "br_if_eqz"):
        return [["block", "i32"]] + c7 + ab + (E if shape == "br_if_eqz" else []) + [["br_if", 0], ["drop"]] + c9 + [["end"]]
    if shape == "eq_zero":
        return ab + c0 + [["i32.eq"]]
    if shape == "ne_swapped":
        return ab + ba + [["i32.ne"]]
    if shape == "ltu_eqz_swapped":
        return ab + E + ba + [["i32.lt_u"]]
    if shape == "local_then_eqz":
        return ab + [["local.set", t], ["local.get", t]] + E
    if shape == "add_eqz_swapped":
        return ab + ba + E + [["i32.add"]]
    if shape == "br_table":
        return [["block", ""], ["block", ""]] + ab + [["br_table", [0], 1], ["end"]] + c7 + [["return"], ["end"]] + c9
    if shape == "nested_if":
        return ab + [["if", "i32"]] + ba + E + [["if", "i32"]] + c1 + [["else"], ["i32.const", 2], ["end"], ["else"],
                                                                      ["i32.const", 3], ["end"]]
    if shape == "tee_if":
        return ab + [["local.tee", t], ["if", "i32"], ["local.get", t]] + [["else"]] + c9 + [["end"]]
    if shape == "if_noelse_set":
        return c9 + [["local.set", t]] + ab + E + [["if", ""]] + c7 + [["local.set", t], ["end"], ["local.get", t]]
    if shape == "loop_exit":
        # loop runs once more when the (negated) comparison holds the first time round
        return c0 + [["local.set", t], ["loop", ""], ["local.get", t]] + c1 + [["i32.add"], ["local.set", t]] + ab + E + \
            [["local.get", t], ["i32.const", 2], ["i32.lt_u"], ["i32.and"], ["br_if", 0], ["end"], ["local.get", t]]
    if shape == "extend":
        return ab + [["i64.extend_i32_u"], ["i64.const", 3], ["i64.mul"], ["i32.wrap_i64"]]
    if shape == "call_arg":
        return ab + [["call", 0]] + ba + E + [["call", 0], ["i32.add"]]
    if shape == "return_if":
        return ab + E + [["if", ""]] + c7 + [["return"], ["end"]] + c9
    raise KeyError(shape)


def run_cmpuse(sh, spec):
    import base64
    import itertools
    import math
    from vlib import wasmgen as g, v8run

    tmp = os.environ["VERIF_TMP"]
    r = rng(spec["seed"], PROPERTY, "cmpuse" + spec["ops"][0])
    pool = {
        "i32": [0, 1, -1, 2, -0x80000000, 0x7FFFFFFF, 255],
        "i64": [0, 1, -1, -0x8000000000000000, 0x7FFFFFFFFFFFFFFF, 0x100000000, -0x80000000],
        "f32": [g.f32_bits(x) for x in (0.0, -0.0, 1.0, -1.5, 1e-45, 3.4028234663852886e38)] + [0x7F800000, 0xFF800000, 0x7FC00000],
        "f64": [g.f64_bits(x) for x in (0.0, -0.0, 1.0, -1.5, 5e-324, 1.7976931348623157e308)] + [0x7FF0000000000000, 0xFFF0000000000000, 0x7FF8000000000000],
    }
    for t in pool:
        pool[t] = pool[t] + [g.rand_value(r, t) for _ in range(3 if spec.get("dense") else 1)]
    desc = {"types": [[["i32"], ["i32"]]], "imports": [], "table": None, "memory": None, "globals": [], "exports": [],
            "start": None, "elems": [], "datas": [], "custom": [],
            "funcs": [{"type": 0, "locals": [], "body": [["local.get", 0], ["i32.const", 2], ["i32.mul"], ["i32.const", 1],
                                                         ["i32.add"]]}]}
    allcalls = []
    for op in spec["ops"]:
        a, _ = g.SIG[op]
        sig = [list(a), ["i32"]]
        if sig not in desc["types"]:
            desc["types"].append(sig)
        ab = [["local.get", i] for i in range(len(a))] + [[op]]
        ba = [["local.get", i] for i in reversed(range(len(a)))] + [[op]]
        for shape in CMP_SHAPES:
            name = "%s__%s" % (op.replace(".", "_"), shape)
            desc["funcs"].append({"type": desc["types"].index(sig), "locals": ["i32"],
                                  "body": cmp_shape_body(shape, ab, ba, len(a))})
            desc["exports"].append({"name": name, "kind": "func", "index": len(desc["funcs"]) - 1})
            for combo in itertools.product(*[pool[t] for t in a]):
                allcalls.append(({"f": name, "args": [[t, fmt(t, v)] for t, v in zip(a, combo)], "ret": "i32"}, op, a, combo))
    ref_bytes = g.encode(desc)
    wasm64 = base64.b64encode(ref_bytes).decode("ascii")
    v8jobs, jobs = [], {}
    for t in TARGETS:
        flags = flags_for(spec["avoid"], t)
        calls = []
        for c, op, a, combo in allcalls:
            base = op.split(".")[1]
            if a[0] in ("f32", "f64") and base in ("eq", "ne", "lt", "le") and "float-cmp-gt-ge-only" in flags and \
                    any(math.isnan(fval(g, ty, v)) for ty, v in zip(a, combo)):
                sh.bump(sh.obs["matrix"]["skipped_by_avoid"], "%s.cmpuse.float-cmp-gt-ge-only" % t)
                continue
            calls.append(c)
        jobs[t] = {"id": "cu-" + t, "desc": desc, "build": "bytes" if t == "python" else "components", "calls": calls,
                   "globals": [], "memory": None, "wasm": wasm64, "flags": sorted(flags)}
        v8jobs.append({"id": "cu-" + t, "wasm": ref_bytes, "imports": [], "mode": "run", "calls": calls, "globals": [],
                       "memory": None})
    try:
        ref, versions = v8run.run_v8(v8jobs, tmp)
    except v8run.V8Error as e:
        sh.inconclusive.append("V8 oracle failed: %s" % e)
        return
    for t in TARGETS:
        rj = ref["cu-" + t]
        if not rj["valid"] or rj.get("inst") != "ok":
            sh.inconclusive.append("comparison-consumer module rejected by V8: %s %s" % (rj.get("verr"), rj.get("inst")))
            return
        sh.obs["reference"]["value"] += len(rj["calls"])
        got, disc = run_ppci(t, [jobs[t]], tmp, "cu")
        for k, v in disc.items():
            sh.bump(sh.disc, k, v)
        sh.obs["build"][jobs[t]["build"]] += 1
        sub = dict(jobs[t], desc={"cmpuse_ops": spec["ops"], "shapes": CMP_SHAPES})
        compare(sh, t, sub, rj, got.get("cu-" + t),
                ops_of_call=lambda c: [c["f"].split("__")[0].replace("_", ".", 1)])
        for c in jobs[t]["calls"]:
            sh.hashes.append(h([t, c["f"], c["args"]]))
            sh.bump(sh.obs["cmp_consumers"], c["f"].split("__")[1])
    if len(sh.samples) < 1:
        k = len(jobs["python"]["calls"]) // 3
        sh.samples.append({"cmpuse_call": jobs["python"]["calls"][k], "v8": ref["cu-python"]["calls"][k]})


def run_shard(spec):
    sh = Shard(spec)
    if spec["part"] == "gen":
        run_gen(sh, spec)
    elif spec["part"] == "cmpuse":
        run_cmpuse(sh, spec)
    else:
        run_matrix(sh, spec)
    return sh.result()





# ---------------------------------------------------------------------------
# known-finding probes: minimal witnesses, expected values from the spec (not from V8)

def _f64(x):
    from vlib import wasmgen as g
    return "%016x" % g.f64_bits(x)


def _witness_modules():
    """-> {module id: (desc, calls)}; every witness is one exported function."""
    from vlib import wasmgen as g

    def mod(funcs, **kw):
        d = {"types": [], "imports": [], "funcs": [], "table": None, "memory": None, "globals": [], "exports": [],
             "start": None, "elems": [], "datas": [], "custom": []}
        d.update(kw)
        nimp = len([i for i in d["imports"] if i["kind"] == "func"])
        for k, (name, params, res, body) in enumerate(funcs):
            sig = [list(params), [res] if res else []]
            if sig not in d["types"]:
                d["types"].append(sig)
            d["funcs"].append({"type": d["types"].index(sig), "locals": [], "body": body})
            d["exports"].append({"name": name, "kind": "func", "index": nimp + k})
        return d

    def binop(name, op, t, res):
        return (name, [t, t], res, [["local.get", 0], ["local.get", 1], [op]])

    def unop(name, op, t, res):
        return (name, [t], res, [["local.get", 0], [op]])

    nan, ninf = "7ff8000000000000", "7ff0000000000000"
    mods = {}
    mods["div0"] = (mod([binop("divs", "i32.div_s", "i32", "i32")]),
                    [{"f": "divs", "args": [["i32", "1"], ["i32", "0"]], "ret": "i32"}])
    mods["rems"] = (mod([binop("rems", "i32.rem_s", "i32", "i32")]),
                    [{"f": "rems", "args": [["i32", "-2147483648"], ["i32", "-1"]], "ret": "i32"}])
    mods["divov"] = (mod([binop("divs", "i32.div_s", "i32", "i32")]),
                     [{"f": "divs", "args": [["i32", "-2147483648"], ["i32", "-1"]], "ret": "i32"}])
    mods["unreach"] = (mod([("u", [], "i32", [["unreachable"]])]), [{"f": "u", "args": [], "ret": "i32"}])
    pure = mod([binop("feq", "f64.eq", "f64", "i32"), unop("trunc", "i32.trunc_f64_s", "f64", "i32"),
                binop("fdiv", "f64.div", "f64", "f64"), unop("ceil", "f64.ceil", "f64", "f64"),
                unop("floor", "f64.floor", "f64", "f64"), binop("fmin", "f64.min", "f64", "f64"),
                unop("sqrt", "f64.sqrt", "f64", "f64"), unop("sat", "i32.trunc_sat_f64_s", "f64", "i32"),
                ("f32sum", ["f32", "f32"], "f32", [["local.get", 0], ["local.get", 1], ["f32.add"], ["local.get", 0],
                                                   ["f32.sub"]])])
    mods["pure"] = (pure, [
        {"f": "feq", "args": [["f64", nan], ["f64", _f64(1.0)]], "ret": "i32"},
        {"f": "trunc", "args": [["f64", _f64(1e30)]], "ret": "i32"},
        {"f": "fdiv", "args": [["f64", _f64(1.0)], ["f64", _f64(0.0)]], "ret": "f64"},
        {"f": "ceil", "args": [["f64", _f64(-0.5)]], "ret": "f64"},
        {"f": "floor", "args": [["f64", nan]], "ret": "f64"},
        {"f": "fmin", "args": [["f64", _f64(0.0)], ["f64", nan]], "ret": "f64"},
        {"f": "sqrt", "args": [["f64", _f64(-1.0)]], "ret": "f64"},
        {"f": "sat", "args": [["f64", nan]], "ret": "i32"},
        {"f": "f32sum", "args": [["f32", "4b800000"], ["f32", "3f800000"]], "ret": "f32"}])
    mods["deadloop"] = (mod([("d", [], None, [["br", 0], ["loop", ""], ["end"]])]), [{"f": "d", "args": [], "ret": None}])
    mods["impelem"] = (mod([("x", [], "i32", [["i32.const", 5]])],
                           types=[[["i32"], ["i32"]]],
                           imports=[{"module": "env", "name": "hi32", "kind": "func", "type": 0}],
                           table={"min": 1, "max": 1}, elems=[{"offset": ["i32.const", 0], "funcs": [0]}]),
                       [{"f": "x", "args": [], "ret": "i32"}])
    mods["oob"] = (mod([("ld", ["i32"], "i32", [["local.get", 0], ["i32.load", 2, 0]])], memory={"min": 1, "max": 1}),
                   [{"f": "ld", "args": [["i32", "-4"]], "ret": "i32"}])
    mods["infconst"] = (mod([("c", [], "f64", [["f64.const", int(ninf, 16)]])]), [{"f": "c", "args": [], "ret": "f64"}])
    fg = mod([("x", [], "i32", [["i32.const", 5]])], globals=[{"typ": "f64", "mut": True, "init": ["f64.const", g.f64_bits(2.5)]}])
    fg["exports"].append({"name": "g0", "kind": "global", "index": 0})
    mods["fglobal"] = (fg, [{"f": "x", "args": [], "ret": "i32"}])
    sig = mod([("takesf", ["f32"], "i32", [["i32.const", 7]]),
               ("ci", ["i32"], "i32", [["local.get", 0], ["i32.const", 0], ["call_indirect", 1]])],
              table={"min": 1, "max": 1}, elems=[{"offset": ["i32.const", 0], "funcs": [0]}])
    assert sig["types"][1] == [["i32"], ["i32"]]
    mods["sig"] = (sig, [{"f": "ci", "args": [["i32", "3"]], "ret": "i32"}])
    tb = mod([("two", [], "i32", [["i32.const", 2]]),
              ("ci", ["i32"], "i32", [["local.get", 0], ["call_indirect", 0]])],
             table={"min": 1, "max": 1}, elems=[{"offset": ["i32.const", 0], "funcs": [0]}])
    mods["tableoob"] = (tb, [{"f": "ci", "args": [["i32", "0"]], "ret": "i32"}, {"f": "ci", "args": [["i32", "-1"]], "ret": "i32"}])
    # 4 values live across two runtime calls, select, then a variable shift
    sh = mod([("sh", ["i32"], "i64", [
        ["local.get", 1], ["global.get", 1],
        ["global.get", 0], ["f64.convert_i64_s"], ["f64.const", g.f64_bits(-1.5)], ["f64.mul"], ["i64.trunc_sat_f64_s"],
        ["local.get", 1], ["local.get", 2], ["i64.or"],
        ["f64.const", g.f64_bits(1.5)], ["i32.trunc_f64_s"], ["select"], ["i64.shr_u"], ["i64.add"]])],
        globals=[{"typ": "i64", "mut": False, "init": ["i64.const", 11]},
                 {"typ": "i64", "mut": True, "init": ["i64.const", -9007199254740993]}])
    sh["funcs"][0]["locals"] = ["i64", "i64"]
    f32m = mod([("sq2", ["f32"], "f32", [["local.get", 0], ["f32.sqrt"], ["f32.sqrt"]]),
                ("dem", ["f64"], "f64", [["local.get", 0], ["f32.demote_f64"], ["f64.promote_f32"]]),
                ("cvt", ["i64"], "f32", [["local.get", 0], ["f32.convert_i64_s"]])])
    mods["f32rt"] = (f32m, [{"f": "sq2", "args": [["f32", "5f7fffff"]], "ret": "f32"},
                            {"f": "dem", "args": [["f64", _f64(0.1)]], "ret": "f64"},
                            {"f": "cvt", "args": [["i64", "1152921573326323713"]], "ret": "f32"}])
    mods["shiftsel"] = (sh, [{"f": "sh", "args": [["i32", "3"]], "ret": "i64"}])
    return mods


_WITNESS = {}


def witness(target, name):
    """-> (inst text, [call texts], end record) of witness module `name` on `target`; 'dead:rc' for a death."""
    import base64
    from vlib import wasmgen as g

    if target not in _WITNESS:
        mods = _witness_modules()
        want = {# tableoob first: its witness relies on being the first module of the process (index -1 reads the
                # table's size field, 1, which is then used as the process-wide function pointer number 1)
                "python": ["tableoob", "divov", "pure", "deadloop", "impelem", "oob", "infconst", "fglobal", "sig",
                           "unreach", "shiftsel", "f32rt"],
                "native": ["div0", "rems", "unreach", "pure", "deadloop", "shiftsel"]}[target]
        jobs = []
        for n in want:
            desc, calls = mods[n]
            if target == "native" and n == "pure":
                calls = [c for c in calls if c["f"] in ("feq", "ceil", "fmin")]
            gl, mem = export_info(desc)
            jobs.append({"id": n, "desc": desc, "build": "bytes", "wasm": base64.b64encode(g.encode(desc)).decode("ascii"),
                         "calls": calls, "globals": gl, "memory": mem})
        got, disc = run_ppci(target, jobs, os.environ["VERIF_TMP"], "probe")
        _WITNESS[target] = (got, {j["id"]: j for j in jobs})
    got, jobs = _WITNESS[target]
    r = got.get(name)
    if r is None:
        raise RuntimeError("witness %s not run on %s" % (name, target))
    calls = []
    for k, c in enumerate(jobs[name]["calls"]):
        if k in r["calls"]:
            calls.append(r["calls"][k])
        elif r["dead"] and r["dead"]["where"] == k:
            calls.append("dead:rc%s" % r["dead"]["signal"])
        else:
            calls.append("not-run")
    return r["inst"], dict(zip([c["f"] for c in jobs[name]["calls"]], calls)), r["end"]


def _expect(target, mod, fn, want, what):
    inst, calls, end = witness(target, mod)
    got = calls.get(fn, "not-run") if inst == "ok" else "instantiate: %s" % inst
    if want == "trap":
        ok = got.startswith(("trap:", "exc:"))
    else:
        ok = got == want
    return None if ok else "%s target: %s gives %s, spec: %s" % (target, what, got, want)


def _expect_k(target, mod, k, want, what):
    """like _expect for the k-th call of a witness whose calls go to one function"""
    inst, calls, end = witness(target, mod)
    got = _WITNESS[target][0][mod]["calls"].get(k, "not-run") if inst == "ok" else "instantiate: %s" % inst
    ok = got.startswith(("trap:", "exc:")) if want == "trap" else got == want
    return None if ok else "%s target: %s gives %s, spec: %s" % (target, what, got, want)


def probe_native_traps():
    a = _expect("native", "div0", "divs", "trap", "i32.div_s(1, 0)")
    b = _expect("native", "unreach", "u", "trap", "unreachable")
    return "; ".join(x for x in (a, b) if x) or None


def probe_br_table_mutation():
    import logging
    from ppci import wasm

    logging.disable(logging.CRITICAL)
    m = wasm.Module("""(module (func (export "f") (param i32) (result i32)
        block block block local.get 0 br_table 0 1 2 end i32.const 10 return end i32.const 20 return end i32.const 30))""")
    before = m.to_bytes()
    first = wasm.instantiate(m, {}, target="python")
    a = [first.exports.f(k) for k in range(4)]
    changed = m.to_bytes() != before
    try:
        second = wasm.instantiate(m, {}, target="python")
        b = [second.exports.f(k) for k in range(4)]
    except Exception as e:  # noqa
        b = "%s: %s" % (type(e).__name__, e)
    if a == [10, 20, 30, 30] and b == a and not changed:
        return None
    return "first instance of a br_table module gives %s, second instance of the same Module object gives %s; " \
           "Module bytes changed by instantiate: %s" % (a, b, changed)


PROBES = {
    "wasm2ir-br-table-mutates-module": probe_br_table_mutation,
    "native-no-trap-mechanism": probe_native_traps,
    "native-rem-s-overflow-sigfpe": lambda: _expect("native", "rems", "rems", "0", "i32.rem_s(INT_MIN, -1)"),
    "native-float-compare-unordered": lambda: _expect("native", "pure", "feq", "0", "f64.eq(nan, 1.0)"),
    "py-trunc-out-of-range-no-trap": lambda: _expect("python", "pure", "trunc", "trap", "i32.trunc_f64_s(1e30)"),
    "py-div-s-overflow-no-trap": lambda: _expect("python", "divov", "divs", "trap", "i32.div_s(INT_MIN, -1)"),
    "py-float-div-by-zero-raises": lambda: _expect("python", "pure", "fdiv", "7ff0000000000000", "f64.div(1.0, 0.0)"),
    "rt-rounding-nan-negative-zero": lambda: "; ".join(x for x in (
        _expect("python", "pure", "ceil", "8000000000000000", "f64.ceil(-0.5)"),
        _expect("python", "pure", "floor", "nan", "f64.floor(nan)"),
        _expect("native", "pure", "ceil", "8000000000000000", "f64.ceil(-0.5)")) if x) or None,
    "rt-min-max-nan-signed-zero": lambda: "; ".join(x for x in (
        _expect("python", "pure", "fmin", "nan", "f64.min(0.0, nan)"),
        _expect("native", "pure", "fmin", "nan", "f64.min(0.0, nan)")) if x) or None,
    "rt-sqrt-negative-raises": lambda: _expect("python", "pure", "sqrt", "nan", "f64.sqrt(-1.0)"),
    "rt-trunc-sat-nan-raises": lambda: _expect("python", "pure", "sat", "0", "i32.trunc_sat_f64_s(nan)"),
    "wasm2ir-loop-in-dead-code-crash": lambda: "; ".join(x for x in (
        _expect("python", "deadloop", "d", "void", "call of (func br 0 loop end)"),
        _expect("native", "deadloop", "d", "void", "call of (func br 0 loop end)")) if x) or None,
    "py-imported-func-in-elem-keyerror": lambda: _expect("python", "impelem", "x", "5",
                                                         "module with an imported function in an element segment"),
    "py-memory-oob-no-trap": lambda: _expect("python", "oob", "ld", "trap", "i32.load at address 0xfffffffc of a 1-page memory"),
    "py-float-const-inf-nan-nameerror": lambda: _expect("python", "infconst", "c", "7ff0000000000000", "f64.const inf"),
    "py-exported-float-global-unreadable": lambda: (lambda end: None if end and end.get("globals", {}).get("g0") == _f64(2.5)
                                                    else "python target: exported f64 global reads as %s, spec: 2.5" % (
                                                        end and end.get("globals")))(witness("python", "fglobal")[2]),
    "py-f32-arithmetic-not-rounded": lambda: _expect("python", "pure", "f32sum", "00000000",
                                                      "(16777216f + 1f) - 16777216f in f32"),
    "py-f32-runtime-helpers-not-rounded": lambda: "; ".join(x for x in (
        _expect("python", "f32rt", "sq2", "477fffff", "f32.sqrt(f32.sqrt(0x1.fffffep+63))"),
        _expect("python", "f32rt", "dem", "3fb99999a0000000", "f64.promote_f32(f32.demote_f64(0.1))")) if x) or None,
    "py-f32-convert-i64-double-rounding": lambda: _expect("python", "f32rt", "cvt", "5d800001",
                                                           "f32.convert_i64_s(0x1000001000000001)"),
    "py-call-indirect-no-bounds-check": lambda: _expect_k("python", "tableoob", 1, "trap",
                                                          "call_indirect with index -1 into a table of size 1"),
    "native-x86-i64-shift-miscompiled-under-pressure": lambda: _expect(
        "native", "shiftsel", "sh", "65503", "g1 >>u select(trunc_sat(...), l1|l2, trunc(1.5)) + l1 (g1 = -(2^53+1))"),
    "call-indirect-no-signature-check": lambda: _expect("python", "sig", "ci", "trap",
                                                        "call_indirect (type (i32)->i32) of a (f32)->i32 function"),
}
