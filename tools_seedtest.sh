#!/bin/sh
# tools_seedtest.sh <Cxx> <dir with mutated ppci checkout> [tier]
# Runs a check against a mutated tree (VERIF_REPO) without touching /repo or the committed evidence.
id="$1"; tree="$2"; tier="${3:-quick}"
out=/verif/.work/seedruns/$id-$(basename "$tree"); mkdir -p "$out"
VERIF_REPO="$tree" VERIF_EVIDENCE_DIR="$out" VERIF_REPLAY_DIR="$out" VERIF_JOBS="${VERIF_JOBS:-8}" ./check "$id" --tier "$tier" > "$out/stdout.txt" 2>&1
rc=$?
echo "seedtest $id on $tree: exit $rc"; grep -v "^WARNING" "$out/stdout.txt" | cut -c1-220 | head -6
exit $rc
