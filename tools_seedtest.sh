#!/bin/sh
# tools_seedtest.sh <Cxx> <seed-name> [tier]
# Applies seeded/<name>/patch.diff to a scratch worktree of /repo's current HEAD and runs the check against it
# (VERIF_REPO), without touching /repo or the committed evidence. The worktree is removed afterwards.
id="$1"; name="$2"; tier="${3:-quick}"
wt=/tmp/seedrun-$name-$$
git -C /repo worktree add -q --detach "$wt" HEAD || exit 3
if ! git -C "$wt" apply /verif/seeded/$name/patch.diff; then echo "patch does not apply on current HEAD"; git -C /repo worktree remove --force "$wt"; exit 3; fi
out=/verif/.work/seedruns/$id-seed-$name; mkdir -p "$out"
VERIF_REPO="$wt" VERIF_EVIDENCE_DIR="$out" VERIF_REPLAY_DIR="$out" VERIF_JOBS="${VERIF_JOBS:-8}" ./check "$id" --tier "$tier" > "$out/stdout.txt" 2>&1
rc=$?
git -C /repo worktree remove --force "$wt"
echo "seedtest $id on seeded/$name: exit $rc"; grep -v "^WARNING" "$out/stdout.txt" | cut -c1-220 | head -4
./tools_seedrecord.py "$id" "$name"
exit $rc
