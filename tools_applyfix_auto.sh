#!/bin/sh
# tools_applyfix_auto.sh "<pytest paths>" key1 key2 ... : commit subject/body taken from the finding's mechanism/witness
tests="$1"; shift
for key in "$@"; do
  subj=$(/venv/bin/python - "$key" <<'PY'
import json,glob,sys
key=sys.argv[1]
for f in glob.glob('/verif/known_findings.d/*.json'):
    for e in json.load(open(f))['findings']:
        if e['key']==key:
            m=(e.get('mechanism') or key).strip().replace('\n',' ')
            print(m[:1].lower()+m[1:] if m else key); sys.exit(0)
print(key)
PY
)
  body=$(/venv/bin/python - "$key" <<'PY'
import json,glob,sys,textwrap
key=sys.argv[1]
for f in glob.glob('/verif/known_findings.d/*.json'):
    for e in json.load(open(f))['findings']:
        if e['key']==key:
            print(textwrap.fill('Witness: '+(e.get('witness') or '').replace('\n',' '),76)); sys.exit(0)
PY
)
  short=$(printf '%s' "$subj" | cut -c1-150)
  ./tools_applyfix.sh "$key" "$tests" "$short" "$body" || echo "FAILED: $key"
done
