#!/venv/bin/python
"""Regenerates MANIFEST.json from checks/*.py metadata (MANIFEST_ENTRY dicts)
and validates it and every evidence file against the schemas when jsonschema
is importable (python3-vt)."""
import importlib
import json
import os
import sys

VERIF = os.path.dirname(os.path.abspath(__file__))
sys.path.insert(0, VERIF)

NA = {}  # property -> reason (filled below when a check module is absent)


def main():
    props = [json.loads(l) for l in open(os.path.join(VERIF, "properties.jsonl"))]
    checks, na = [], []
    for p in props:
        pid = p["id"]
        path = os.path.join(VERIF, "checks", pid.lower() + ".py")
        if not os.path.exists(path):
            na.append({"property_id": pid, "reason": NA.get(pid, "check not built yet (runtime monitor designed in DESIGN.md section 4, not implemented at this commit)")})
            continue
        mod = importlib.import_module("checks." + pid.lower())
        ent = getattr(mod, "MANIFEST_ENTRY", {})
        checks.append({
            "property_id": pid,
            "quick_cmd": "./check %s --tier quick" % pid,
            "thorough_cmd": "./check %s --tier thorough" % pid,
            "evidence_file": "evidence/%s.json" % pid,
            "replay_cmd_template": "./check %s --replay {path}" % pid,
            "engine": "vlib",
            "level_claimed": {
                "category": getattr(mod, "LEVEL", "exploration"),
                "text": ent.get("text", mod.RULE),
                "design_ref": "DESIGN.md section 4, %s" % pid,
            },
            "level_note": ent.get("note", "; ".join(getattr(mod, "ASSUMPTIONS", []))),
            "technique": ent.get("technique", "runtime monitoring: reference-model oracle over generated executions"),
        })
    man = {
        "version": 1,
        "setup_cmd": "./setup.sh",
        "hooks": {
            "guard": "PPCI_VERIF",
            "enable": "workers are started with PPCI_VERIF=1 and wrap public ppci functions after import (harness-side monkeypatching); no guarded source hooks exist in /repo",
            "baseline_off_cmd": "cd /repo && env -u PPCI_VERIF /venv/bin/python -m pytest -ra -q -p no:cacheprovider --timeout=900 --continue-on-collection-errors",
            "source_commits": [],
            "add_only": True,
        },
        "engines": [{"name": "vlib", "path": "vlib/core.py",
                     "serves_properties": [c["property_id"] for c in checks],
                     "kind_free_text": "sharded subprocess runner; per-property monitors in checks/; three-valued verdicts; known-findings protocol"}],
        "checks": checks,
        "not_applicable": na,
        "notes": "Runtime monitoring only. See DESIGN.md. known_findings.json lists open findings (KNOWN-FINDING lines) and fixed ones (regression probes).",
    }
    with open(os.path.join(VERIF, "MANIFEST.json"), "w") as f:
        json.dump(man, f, indent=1)
    print("MANIFEST.json: %d checks, %d not_applicable" % (len(checks), len(na)))


if __name__ == "__main__":
    main()
