#!/bin/sh
# Offline, idempotent.  Installs the contract libraries beside the harness
# (git-ignored .deps) and records which oracle tools are present.
here="$(cd "$(dirname "$0")" && pwd)"
cd "$here" || exit 1
mkdir -p .deps .work evidence replays
if [ ! -d .deps/icontract ] || [ ! -d .deps/deal ]; then
  PIP_NO_INDEX=1 /venv/bin/pip install --quiet --no-index --find-links /opt/veriftools/wheels \
      --target .deps icontract deal >.work/pip.log 2>&1 || echo "setup: icontract/deal not installed (checks fall back to plain wrappers)"
fi
/venv/bin/python -m vlib.selftest || exit 1
exit 0
