"""Preprocessor workloads for C26: macro definition/use sections and #if expression sections.

A *unit* is a sequence of self-contained *sections*, separated in the output by
marker identifiers, so one `gcc -E -P` run judges many sections.  gcc is the
oracle for the expansion; this module only has to produce inputs gcc accepts
(sections gcc rejects are dropped and counted).  For #if sections the generator
evaluates the expression itself with the rules of C99 6.10.1 (all signed
operands are intmax_t, all unsigned ones uintmax_t, 64 bit) so that it never
emits signed overflow, an evaluated division by zero or an out-of-range shift,
and so that it can *tag* constructs of known findings (facts about the input,
never about ppci's output).

Also here: the neutral tokenizer both outputs are re-lexed with.
"""
import re

# ---- neutral pp-token lexer ------------------------------------------------------------------

PUNCT = ["%:%:", "...", "<<=", ">>=", "->", "++", "--", "<<", ">>", "<=", ">=", "==", "!=", "&&", "||", "*=", "/=",
         "%=", "+=", "-=", "&=", "^=", "|=", "##", "<:", ":>", "<%", "%>", "%:"]
TOKEN_RE = re.compile(r"""
    (?P<ws>\s+)
  | (?P<str>L?"(?:[^"\\\n]|\\.)*")
  | (?P<chr>L?'(?:[^'\\\n]|\\.)*')
  | (?P<num>\.?[0-9](?:[eEpP][+-]|[0-9A-Za-z_.])*)
  | (?P<id>[A-Za-z_][A-Za-z_0-9]*)
  | (?P<punct>%s|[-+*/%%<>=!&|^~?:;,.()\[\]{}#@$`\\])
""" % "|".join(re.escape(p) for p in PUNCT), re.X)


def lex(text):
    """Spellings of the preprocessing tokens of text (whitespace dropped); None if unlexable."""
    out, pos = [], 0
    while pos < len(text):
        m = TOKEN_RE.match(text, pos)
        if not m:
            return None
        if m.lastgroup != "ws":
            out.append(m.group())
        pos = m.end()
    return out


def strip_linemarkers(text):
    return "\n".join(ln for ln in text.split("\n") if not ln.lstrip().startswith("#"))


# ---- finding keys -------------------------------------------------------------------------------

K_PP_FLOOR = "pp-if-division-floors"
K_PP_UNSIGNED = "pp-if-no-unsigned-arithmetic"
K_PP_CHAR = "pp-if-char-constant-unsigned"
ALL_KEYS = (K_PP_FLOOR, K_PP_UNSIGNED, K_PP_CHAR)   # + the macro keys below

M64 = (1 << 64) - 1
IMAX, IMIN = (1 << 63) - 1, -(1 << 63)


class V:
    """A #if sub-expression: text, value (as C sees it), unsigned?, tags, ops."""
    __slots__ = ("text", "val", "uns", "tags", "ops", "prec")

    def __init__(self, text, val, uns, prec, tags=(), ops=()):
        self.text, self.val, self.uns, self.prec = text, val, uns, prec
        self.tags, self.ops = frozenset(tags), frozenset(ops)

    def emb(self, need, r):
        if self.prec < need or (self.prec < 16 and r.random() < 0.3):
            return "(" + self.text + ")"
        return self.text


PREC = {"*": 13, "/": 13, "%": 13, "+": 12, "-": 12, "<<": 11, ">>": 11, "<": 10, "<=": 10, ">": 10, ">=": 10,
        "==": 9, "!=": 9, "&": 8, "^": 7, "|": 6, "&&": 5, "||": 4, "?:": 3}


class IfGen:
    def __init__(self, r, avoid=(), defined=(), undefined=(), nummacros=()):
        self.r = r
        self.avoid = frozenset(avoid)
        self.defined = list(defined)
        self.undefined = list(undefined)
        self.nummacros = list(nummacros)   # (name, V) object-like macros expanding to a literal

    def leaf(self):
        r = self.r
        c = r.random()
        if c < 0.55:
            v = r.choice((0, 1, 2, 3, 5, 7, 8, 10, 100, 255, 256, 65535, 0x7fffffff, 0x80000000, 0xffffffff,
                          1 << 32, IMAX, 1 << 63, M64, r.getrandbits(r.choice((4, 8, 16, 33, 63)))))
            suf = r.choice(("", "", "", "u", "U", "l", "L", "ul", "UL", "ll", "ull", "LLU"))
            base = r.choice("ddxo")
            uns = "u" in suf.lower()
            if v > IMAX:
                if not uns and base == "d":
                    suf, uns = "u", True    # a decimal literal this large needs a u suffix to be valid
                uns = True
            txt = {"d": "%d", "x": "0x%x", "o": "0%o"}[base] % v if v or base != "o" else "0"
            return V(txt + suf, v, uns, 16)
        if c < 0.65:
            txt, v = r.choice((("'a'", 97), ("'0'", 48), ("'\\n'", 10), ("'\\0'", 0), ("'\\\\'", 92), ("'\\x41'", 65),
                               ("'\\377'", -1), ("'\\x80'", -128)))
            tags = {K_PP_CHAR} if v < 0 else set()
            if tags & self.avoid:
                txt, v, tags = "'a'", 97, set()
            return V(txt, v, False, 16, tags, [("char", "s")])
        if c < 0.78 and (self.defined or self.undefined):
            pool = [(n, 1) for n in self.defined] + [(n, 0) for n in self.undefined]
            n, v = r.choice(pool)
            form = r.choice(("defined %s", "defined(%s)", "defined ( %s )"))
            return V(form % n, v, False, 14, (), [("defined", "s")])
        if c < 0.86 and self.undefined:
            # an identifier that is not a macro evaluates to 0
            return V(r.choice(self.undefined), 0, False, 16, (), [("undefined-identifier", "s")])
        if c < 0.95 and self.nummacros:
            n, v = r.choice(self.nummacros)
            return V(n, v.val, v.uns, 16, v.tags, [("macro-operand", "u" if v.uns else "s")])
        return self._small()

    def _small(self):
        v = self.r.randrange(10)
        return V(str(v), v, False, 16)

    @staticmethod
    def conv(x, uns, tags):
        if uns and x < 0:
            tags.add(K_PP_UNSIGNED)   # a negative value converted to uintmax_t
            return x & M64
        return x

    def unary(self, op, a):
        tags = set(a.tags)
        uns = a.uns
        if op == "!":
            v, uns = int(a.val == 0), False
        elif op == "+":
            v = a.val
        else:
            exact = -a.val if op == "-" else ~a.val
            if uns:
                v = exact & M64
                if v != exact:
                    tags.add(K_PP_UNSIGNED)
            else:
                if not IMIN <= exact <= IMAX:
                    return None
                v = exact
        if tags & self.avoid:
            return None
        inner = a.emb(14, self.r)
        if inner[0] in "+-" and op in "+-":
            inner = "(" + inner + ")"
        return V(op + inner, v, uns, 14, tags, a.ops | {(op, "u" if uns else "s")})

    def binary(self, op, a, b, dead_b=False):
        tags = set(a.tags) | set(b.tags)
        if op in ("&&", "||"):
            uns = False
            if dead_b:
                v = 0 if op == "&&" else 1
            elif op == "&&":
                v = int(bool(a.val) and bool(b.val))
            else:
                v = int(bool(a.val) or bool(b.val))
        elif op in ("<<", ">>"):
            uns = a.uns
            n = b.val
            if not 0 <= n < 64:
                return None
            if op == "<<":
                if uns:
                    v = (a.val << n) & M64
                    if v != a.val << n:
                        tags.add(K_PP_UNSIGNED)
                else:
                    if a.val < 0 or a.val << n > IMAX:
                        return None
                    v = a.val << n
            else:
                v = a.val >> n
        else:
            uns = a.uns or b.uns
            x, y = self.conv(a.val, uns, tags), self.conv(b.val, uns, tags)
            if op in ("<", "<=", ">", ">=", "==", "!="):
                v = int({"<": x < y, "<=": x <= y, ">": x > y, ">=": x >= y, "==": x == y, "!=": x != y}[op])
                res_uns = False
                ops = a.ops | b.ops | {(op, "u" if uns else "s")}
                if tags & self.avoid:
                    return None
                p = PREC[op]
                return V("%s %s %s" % (a.emb(p, self.r), op, b.emb(p + 1, self.r)), v, res_uns, p, tags, ops)
            if op in ("/", "%"):
                if y == 0:
                    return None
                if not uns and x == IMIN and y == -1:
                    return None
                q = abs(x) // abs(y)
                if (x < 0) != (y < 0):
                    q = -q
                rem = x - q * y
                if rem != 0 and (x < 0) != (y < 0):
                    tags.add(K_PP_FLOOR)
                v = q if op == "/" else rem
            else:
                exact = {"+": x + y, "-": x - y, "*": x * y, "&": x & y, "|": x | y, "^": x ^ y}[op]
                if uns:
                    v = exact & M64
                    if v != exact:
                        tags.add(K_PP_UNSIGNED)
                else:
                    if not IMIN <= exact <= IMAX:
                        return None
                    v = exact
        if tags & self.avoid:
            return None
        p = PREC[op]
        return V("%s %s %s" % (a.emb(p, self.r), op, b.emb(p + 1, self.r)), v, uns, p, tags,
                 a.ops | b.ops | {(op, "u" if uns else "s")})

    def ternary(self, c, a, b):
        tags = set(c.tags) | set(a.tags) | set(b.tags)
        uns = a.uns or b.uns
        chosen = a if c.val else b
        v = self.conv(chosen.val, uns, tags)
        if tags & self.avoid:
            return None
        text = "%s ? %s : %s" % (c.emb(4, self.r), a.emb(4, self.r), b.emb(3, self.r))
        return V(text, v, uns, 3, tags, c.ops | a.ops | b.ops | {("?:", "u" if uns else "s")})

    def dead(self, typed=False):
        """A never-evaluated division by zero.  As an arm of ?: its *type* still matters; gcc gives a
        skipped division by zero the type of its left operand (cpplib returns lhs), the standard the
        common type: only all-signed operands are used there, where both agree."""
        z = self.r.choice(("0", "(1 - 1)") if typed else ("0", "(1 - 1)", "0u"))
        return V("%s %s %s" % (self.r.choice(("1", "7", "-3")), self.r.choice("/%"), z), 0, z == "0u", 13, (),
                 [("unevaluated-div0", "s")])

    def count_literal(self, cnt):
        """A shift count; its own signedness must not influence the type of the shift."""
        suf = self.r.choice(("", "", "u", "U", "ul", "l", "ULL"))
        return V("%d%s" % (cnt, suf), cnt, "u" in suf.lower(), 16)

    # -- typed probes: make the intmax_t/uintmax_t type of every operator's result observable ----
    def typed_operand(self, uns, big=None):
        """A small or sign-bit-set operand of the requested signedness."""
        r = self.r
        big = r.random() < 0.5 if big is None else big
        if not big:
            k = r.choice((1, 2, 3, 5, 7, 8, 16, 100))
            return V("%d%s" % (k, r.choice(("u", "U", "ul")) if uns else r.choice(("", "", "l", "LL"))), k, uns, 16)
        k = r.choice((1, 2, 3, 7, 8, 16, 100, 255, 4096, 1 << 40))
        if uns:
            c = r.random()
            if c < 0.4:
                v = M64 + 1 - k
                return V(r.choice(("%du", "0x%xu", "0x%xUL")) % v, v, True, 16)
            if c < 0.7:
                return self.unary("-", V("%du" % k, k, True, 16))
            return self.unary("~", V("%du" % (k - 1), k - 1, True, 16))
        c = r.random()
        if c < 0.6:
            return self.unary("-", V("%d%s" % (k, r.choice(("", "l", "LL"))), k, False, 16))
        if c < 0.8:
            return self.unary("~", V(str(k - 1), k - 1, False, 16))
        return self.binary("-", V("0", 0, False, 16), V(str(k), k, False, 16))

    @staticmethod
    def topbit(v):
        return v.val is not None and (v.val < 0 or v.val > IMAX)

    def probe_subject(self):
        """X = op(operands of mixed signedness) with the sign bit set, plus its description."""
        r = self.r
        kind = r.choice(("<<", ">>", ">>", "+", "-", "*", "/", "%", "&", "|", "^", "neg", "not", "plus", "?:",
                         "cmp", "logic", "lnot", "shift-chain"))
        for _ in range(30):
            sa, sb = r.random() < 0.5, r.random() < 0.5
            x = None
            if kind in ("<<", ">>"):
                a = self.typed_operand(sa, big=(kind == ">>") or (sa and self.r.random() < 0.6))
                if a is None:
                    continue
                cnt = r.choice((0, 1, 2, 3, 7, 31, 32, 62, 63)) if kind == ">>" else r.choice((0, 1, 2, 3, 8, 31, 61, 62, 63))
                b = V("%d%s" % (cnt, r.choice(("u", "U", "ul")) if sb else r.choice(("", "l"))), cnt, sb, 16)
                x = self.binary(kind, a, b)
            elif kind == "shift-chain":
                a = self.typed_operand(sa, big=True)
                c1 = V("%d%s" % (r.choice((0, 1, 2)), "u" if sb else ""), 0, sb, 16)
                c1.val = int(c1.text.rstrip("u"))
                x = a and self.binary(">>", a, c1)
                x = x and self.binary(">>", x, self.count_literal(r.choice((0, 1, 3))))
            elif kind in ("+", "-", "*", "/", "%", "&", "|", "^"):
                a, b = self.typed_operand(sa), self.typed_operand(sb)
                x = a and b and self.binary(kind, a, b)
            elif kind in ("neg", "not", "plus"):
                a = self.typed_operand(sa)
                x = a and self.unary({"neg": "-", "not": "~", "plus": "+"}[kind], a)
            elif kind == "?:":
                a, b = self.typed_operand(sa), self.typed_operand(sb)
                c = self.typed_operand(r.random() < 0.5, big=False)
                if r.random() < 0.5:
                    c = V("0", 0, False, 16)
                x = a and b and self.ternary(c, a, b)
            else:
                # results of comparisons, && || and ! are signed whatever the operands: negate to see it
                a, b = self.typed_operand(sa), self.typed_operand(sb)
                if a is None or b is None:
                    continue
                if kind == "cmp":
                    y = self.binary(r.choice(("<", "<=", ">", ">=", "==", "!=")), a, b)
                elif kind == "logic":
                    y = self.binary(r.choice(("&&", "||")), a, b)
                else:
                    y = self.unary("!", a)
                x = y and y.val == 1 and self.unary("-", y)
            what = "%s:%s%s" % (kind, "u" if sa else "s", "u" if sb else "s")
            if x and self.topbit(x):
                return x, what
            if x and 0 <= x.val < (1 << 62):
                # a non-negative result shows its type after subtracting something larger:
                # signed -> -1, unsigned -> wraps to UINTMAX_MAX
                y = self.binary("-", x, V(str(x.val + 1), x.val + 1, False, 16))
                if y and self.topbit(y):
                    return y, what
        return None, None

    def typed_probe(self):
        """consumer(X): an expression whose truth value depends on the *type* of X, not only its bits."""
        r = self.r
        x, what = self.probe_subject()
        if x is None:
            return None, None
        zero = V("0", 0, False, 16)
        cons = r.choice(("<0", ">=0", "0>", "/", "%", ">>", "?:s", "?:u", "/neg", "<-1"))
        e = None
        if cons == "<0":
            e = self.binary("<", x, zero)
        elif cons == ">=0":
            e = self.binary(">=", x, zero)
        elif cons == "0>":
            e = self.binary(">", zero, x)
        elif cons == "<-1":
            e = self.binary("<=", x, self.unary("-", V("1", 1, False, 16)))
            cons = "<=-1"
            # X <= -1: signed negative X -> true; unsigned X -> compared with UINTMAX_MAX -> true as well:
            # only sensitive through the conversion of -1, kept as a control
        elif cons in ("/", "%", ">>", "/neg"):
            k = r.choice((2, 3, 5, 7)) if cons != ">>" else r.choice((1, 2, 5, 33))
            kk = V(str(k), k, False, 16)
            if cons == "/neg":
                kk = self.unary("-", kk)
            y = kk and self.binary({"/neg": "/"}.get(cons, cons), x, kk)
            if y is not None:
                # compare with the value C gives, spelled with the type C gives
                if y.uns:
                    lit = V("%du" % y.val, y.val, True, 16)
                elif y.val < 0:
                    lit = self.unary("-", V(str(-y.val), -y.val, False, 16)) if -y.val <= IMAX else None
                else:
                    lit = V(str(y.val), y.val, False, 16)
                e = lit and self.binary("==", y, lit)
        else:
            other = V("0u", 0, True, 16) if cons == "?:u" else zero
            cnd = V(r.choice(("1", "7", "1u")), 1, False, 16)
            y = self.ternary(cnd, x, other) if r.random() < 0.5 else self.ternary(zero, other, x)
            e = y and self.binary("<", y, zero)
        if e is None:
            return None, None
        if r.random() < 0.3:
            e = self.unary("!", e) or e
        return e, "%s %s" % (what, cons)

    def tree(self, depth):
        r = self.r
        if depth <= 0 or r.random() < 0.15:
            return self.leaf()
        for _ in range(12):
            c = r.random()
            n = None
            if c < 0.62:
                op = r.choice(("+", "-", "*", "/", "/", "%", "%", "<<", ">>", "&", "|", "^", "<", "<=", ">", ">=",
                               "==", "!=", "&&", "||"))
                a = self.tree(depth - 1)
                if op in ("<<", ">>"):
                    cnt = r.choice((0, 1, 2, 7, 8, 31, 32, 33, 62, 63))
                    if op == "<<" and not a.uns:
                        if a.val < 0:
                            continue
                        cnt = min(cnt, max(0, 62 - a.val.bit_length()))
                    b = self.count_literal(cnt)
                    if cnt >= 2 and r.random() < 0.35:
                        # a << 1 + 2: the count is an additive expression (binds tighter than the shift)
                        k = r.randrange(1, cnt)
                        b = self.binary("+", V(str(k), k, False, 16), V(str(cnt - k), cnt - k, False, 16)) or b
                    n = self.binary(op, a, b)
                elif op in ("&&", "||") and r.random() < 0.3:
                    want = op == "||"
                    if bool(a.val) != want:
                        a = V("1" if want else "0", int(want), False, 16)
                    n = self.binary(op, a, self.dead(), dead_b=True)
                else:
                    b = self.tree(depth - 1)
                    if op in "/%" and r.random() < 0.5:
                        if r.random() < 0.6:
                            a = self.unary("-", a) or a
                        if r.random() < 0.4:
                            b = self.unary("-", b) or b
                    n = self.binary(op, a, b)
            elif c < 0.82:
                n = self.unary(r.choice("--~~!+"), self.tree(depth - 1))
            else:
                cnd = self.tree(depth - 1)
                if r.random() < 0.25:
                    live, dead = self.tree(depth - 1), self.dead(typed=True)
                    n = self.ternary(cnd, live, dead) if cnd.val else self.ternary(cnd, dead, live)
                else:
                    n = self.ternary(cnd, self.tree(depth - 1), self.tree(depth - 1))
            if n is not None:
                return n
        return self.leaf()


# ---- sections -----------------------------------------------------------------------------------

class Section:
    def __init__(self, kind, text, tags=(), feats=(), nontrivial=True):
        self.kind = kind
        self.text = text            # lines, ends with newline; all macros it defines are #undef'd at the end
        self.tags = frozenset(tags)
        self.feats = frozenset(feats)
        self.nontrivial = nontrivial
        self.probes = []            # typed probes used: "<operator>:<signedness of operands> <consumer>"


def if_section(r, n, avoid):
    """#if / #elif chain; every arm holds a distinct marker token."""
    defined = ["D%d_%d" % (n, i) for i in range(2)]
    undefined = ["U%d_%d" % (n, i) for i in range(2)]
    lines = ["#define %s" % defined[0], "#define %s 1" % defined[1]]
    g = IfGen(r, avoid, defined, undefined)
    # numeric macros usable as operands
    nums = []
    for i in range(r.randrange(0, 3)):
        v = g.leaf()
        if v.prec == 16 and v.text[0].isdigit():
            name = "N%d_%d" % (n, i)
            lines.append("#define %s %s" % (name, v.text))
            nums.append((name, v))
    g.nummacros = nums
    tags, feats = set(), set()
    probes = []
    arms = r.randrange(1, 4)
    for k in range(arms):
        e, what = g.typed_probe() if r.random() < 0.55 else (None, None)
        if e is None:
            e = g.tree(r.choice((1, 2, 2, 3, 3, 4)))
        else:
            probes.append(what)
            if r.random() < 0.3:
                # bury the probe in a larger expression, keeping its truth value decisive
                t = g.tree(2)
                e = (g.binary("&&", e, t) if t.val else g.binary("||", e, t)) or e
        tags |= e.tags
        feats |= {"if:%s:%s" % o for o in e.ops}
        lines.append("%s %s" % ("#if" if k == 0 else "#elif", e.text))
        lines.append("arm%d_%d" % (n, k))
        if r.random() < 0.25:
            # nested conditional
            e2 = g.tree(2)
            tags |= e2.tags
            feats |= {"if:%s:%s" % o for o in e2.ops} | {"nested-if"}
            lines += ["#if %s" % e2.text, "in%d_%d" % (n, k), "#else", "out%d_%d" % (n, k), "#endif"]
    if r.random() < 0.8:
        lines += ["#else", "arm%d_else" % n]
        feats.add("else")
    lines.append("#endif")
    c = r.random()
    if c < 0.3:
        nm = r.choice(defined + undefined)
        lines += ["#ifdef %s" % nm, "ifdef%d" % n, "#else", "ifndef%d" % n, "#endif"]
        feats.add("ifdef")
    elif c < 0.5:
        nm = r.choice(defined + undefined)
        lines += ["#ifndef %s" % nm, "a%d" % n, "#endif"]
        feats.add("ifndef")
    for d in defined + [nm for nm, _ in nums]:
        lines.append("#undef %s" % d)
    sec = Section("if", "\n".join(lines) + "\n", tags, feats)
    sec.probes = probes
    return sec


K_STR_SPACE = "stringify-puts-space-between-all-tokens"
K_PASTE_EMPTY = "paste-with-empty-argument"
K_NOARG_LINES = "zero-parameter-macro-invoked-across-lines"
K_EMPTY_EXPANSION_ARG = "argument-expanding-to-nothing"
K_PASTE_NUM = "paste-result-pp-number-rejected"
K_BLUE = "self-referential-macro-reexpanded-from-argument"
K_FNAME_MACRO = "function-macro-name-followed-by-macro-expanding-to-parenthesis"


def macro_section(r, n, avoid):
    """Object-like and function-like macro definitions followed by uses."""
    avoid = frozenset(avoid)
    feats, tags = set(), set()
    P = "m%d_" % n
    objs, funcs = [], []          # names; funcs: (name, nparams, variadic)
    pasting = set()               # function-like macros whose body pastes
    maybe_empty = set()           # macros whose expansion can be empty
    selfref = set()               # macros whose expansion contains a no-longer-expandable macro name
    ends_empty = set()            # macros whose expansion can end in a macro that expands to nothing
    starts_paren = set()          # object-like macros whose expansion can start with "("

    def guard_fname(body, params=()):
        """Keeps known-finding constructs out of a macro body (or tags them):
        * F X ... where F is a function-like macro name and X is not "(": ppci expands X while looking
          for the "(", so X must not be a macro or parameter that can vanish or produce a "(";
        * inside parentheses (a possible argument list of an invocation formed by the body) no macro
          whose expansion can be empty / end empty / contain a no-longer-expandable name."""
        out, depth = [], 0
        fnames = {f[0] for f in funcs}
        vanishing = set(params) | {"__VA_ARGS__"} | maybe_empty | starts_paren | ends_empty
        for t in body:
            if out and out[-1] in fnames and t != "(" and (t in vanishing or t in objs or t in fnames):
                if K_FNAME_MACRO in avoid:
                    out.append("+")
                else:
                    tags.add(K_FNAME_MACRO)
            if depth > 0 and (t in maybe_empty or t in ends_empty):
                if K_EMPTY_EXPANSION_ARG in avoid:
                    t = "q"
                else:
                    tags.add(K_EMPTY_EXPANSION_ARG)
            if depth > 0 and t in selfref:
                if K_BLUE in avoid:
                    t = "q"
                else:
                    tags.add(K_BLUE)
            if t == "(":
                depth += 1
            elif t == ")":
                depth = max(0, depth - 1)
            out.append(t)
        return out

    lines = []
    idents = ["x", "y", "z", "foo", "bar"]

    def tok_pool(params, self_name=None, in_func=False):
        pool = list(idents) + ["1", "2", "42", "0x10", "+", "-", "*", "(", ")", ",", ";", "[", "]"]
        pool += params * 3
        pool += objs
        for f in funcs:
            if f[0] in pasting:
                # invoked from inside another body its arguments are not under control (empty, numbers)
                if K_PASTE_EMPTY in avoid or K_PASTE_NUM in avoid:
                    continue
                tags.update((K_PASTE_EMPTY, K_PASTE_NUM))
            pool.append(f[0])
        if self_name and r.random() < 0.3:
            pool.append(self_name)
        return pool

    def balanced_body(params, self_name, maxlen):
        out, depth = [], 0
        pool = tok_pool(params, self_name)
        for _ in range(r.randrange(0, maxlen)):
            t = r.choice(pool)
            if t == ")":
                if depth == 0:
                    continue
                depth -= 1
            elif t == "(":
                depth += 1
            out.append(t)
        out += [")"] * depth
        return out

    ndefs = r.randrange(1, 6)
    for i in range(ndefs):
        name = "%s%s%d" % (P, r.choice(("A", "B", "F", "G")), i)
        c = r.random()
        if c < 0.35:
            body = balanced_body([], name, 6)
            if r.random() < 0.2 and objs:
                body.append(r.choice(objs))
                feats.add("object-macro-nested")
            if name in body:
                feats.add("object-macro-self-reference")
            body = guard_fname(body)
            if body and (body[0] == "(" or body[0] in starts_paren):
                starts_paren.add(name)
            lines.append("#define %s %s" % (name, " ".join(body)))
            objs.append(name)
            feats.add("object-macro")
            if all(t in maybe_empty for t in body):
                maybe_empty.add(name)
            if body and (body[-1] in maybe_empty or body[-1] in ends_empty):
                ends_empty.add(name)
            if name in body or any(t in selfref for t in body):
                selfref.add(name)
        else:
            np_ = r.randrange(0, 4)
            params = ["p%d" % k for k in range(np_)]
            variadic = r.random() < 0.2
            body = balanced_body(params + (["__VA_ARGS__"] if variadic else []), name, 8)
            if params and r.random() < 0.3:
                body.insert(r.randrange(len(body) + 1), "#" + r.choice(params))
                feats.add("stringify")
            if variadic and r.random() < 0.3:
                body.insert(r.randrange(len(body) + 1), "#__VA_ARGS__")
                feats.add("stringify-va-args")
            if params and r.random() < 0.3:
                left = r.choice(params + ["x", "pre"])
                right = r.choice(params + ["y", "1", "post"])
                if not (left[0].isdigit()):
                    body.insert(r.randrange(len(body) + 1), "%s ## %s" % (left, right))
                    feats.add("paste")
            if name in body:
                feats.add("function-macro-self-reference")
            body = guard_fname(body, params)
            sig = ", ".join(params + (["..."] if variadic else []))
            lines.append("#define %s(%s) %s" % (name, sig, " ".join(body)))
            funcs.append((name, np_, variadic))
            if any("##" in t for t in body):
                pasting.add(name)
            if name in body or any(t in selfref for t in body):
                selfref.add(name)
            if body and (body[-1] in maybe_empty or body[-1] in ends_empty or body[-1] in params
                         or body[-1] == "__VA_ARGS__"):
                ends_empty.add(name)
            if all(t in maybe_empty or t in params or t == "__VA_ARGS__" or
                   ("##" in t and not any(c.isdigit() or c in "xyzpre" for c in t.replace("p", "", 1)[:0]))
                   for t in body if not t.startswith("#")) and not any(t.startswith("#") for t in body) \
                    and not any("##" in t for t in body):
                maybe_empty.add(name)
            feats.add("function-macro")
            if variadic:
                feats.add("variadic")
            if np_ == 0 and not variadic:
                feats.add("function-macro-no-params")

    def arg(depth=0):
        c = r.random()
        if c < 0.12:
            feats.add("empty-argument")
            return ""
        if c < 0.22:
            feats.add("argument-with-parenthesised-comma")
            return "(%s, %s)" % (r.choice(idents), r.choice(idents))
        if c < 0.32 and objs:
            nm = r.choice(objs)
            if nm in selfref:
                if K_BLUE in avoid:
                    return r.choice(idents)
                tags.add(K_BLUE)
            if nm in maybe_empty or nm in ends_empty:
                if K_EMPTY_EXPANSION_ARG in avoid:
                    return r.choice(idents)
                tags.add(K_EMPTY_EXPANSION_ARG)
            feats.add("argument-is-macro")
            return nm
        if c < 0.42 and funcs and depth < 2:
            inner = call(depth + 1)
            if inner.split("(")[0].strip() in selfref:
                if K_BLUE in avoid:
                    return r.choice(idents)
                tags.add(K_BLUE)
            if inner.split("(")[0].strip() in maybe_empty | ends_empty:
                if K_EMPTY_EXPANSION_ARG in avoid:
                    return r.choice(idents)
                tags.add(K_EMPTY_EXPANSION_ARG)
            feats.add("argument-is-invocation")
            return inner
        if c < 0.50:
            feats.add("argument-string")
            return r.choice(('"s"', '"a b"', '"q\\"q"', '"n\\n"', "'c'", "'\\''"))
        if c < 0.58 and funcs:
            # F(F) with F's body naming its parameter before "(": rescanning must not invoke F again
            if K_BLUE in avoid:
                return r.choice(idents)
            tags.add(K_BLUE)
            feats.add("argument-is-function-macro-name")
            return r.choice(funcs)[0]
        return " ".join(r.choice(idents + ["1", "2", "+", "*"]) for _ in range(r.randrange(1, 4)))

    def call(depth=0):
        name, np_, variadic = r.choice(funcs)
        k = np_
        if variadic:
            k += r.randrange(1, 3)
        args = [arg(depth) for _ in range(k)]
        if np_ == 0 and not variadic:
            args = []
        if name in pasting:
            if K_PASTE_NUM in avoid:
                # only identifiers reach ##: a number on the left of ## gives a pp-number ppci rejects
                args = [r.choice(idents) if a != "" else a for a in args]
            else:
                tags.add(K_PASTE_NUM)
        if name in pasting and "" in args:
            # an empty argument may end up next to ##
            if K_PASTE_EMPTY in avoid:
                args = [a or "e" for a in args]
            else:
                tags.add(K_PASTE_EMPTY)
        sp = r.choice(("", "", " "))
        text = "%s%s(%s)" % (name, sp, ", ".join(args))
        if K_STR_SPACE in avoid:
            # every token separated by exactly one space: # then gives the same spelling either way
            text = " ".join(lex(text))
        else:
            tags.add(K_STR_SPACE)
        return text

    for _ in range(r.randrange(1, 6)):
        c = r.random()
        if c < 0.3 and objs:
            lines.append("%s %s ;" % (r.choice(idents), r.choice(objs)))
            feats.add("use-object")
        elif c < 0.85 and funcs:
            lines.append("%s ;" % call())
            feats.add("use-function")
        elif c < 0.92 and funcs:
            # function-like macro name without parentheses is not an invocation
            lines.append("%s + 1 ;" % r.choice(funcs)[0])
            feats.add("function-macro-name-without-call")
        elif funcs:
            # invocation spread over lines
            for _try in range(10):
                text = call()
                if not text.rstrip().endswith(")"):
                    continue
                nm = next(f for f in funcs if text.startswith(f[0]))
                break
            else:
                continue
            if nm[1] == 0 and not nm[2]:
                if K_NOARG_LINES in avoid:
                    continue
                tags.add(K_NOARG_LINES)
            i, j = text.index("("), text.rindex(")")
            lines.append(text[:i + 1])
            lines.append("  " + text[i + 1:j])
            lines.append(") ;")
            feats.add("multi-line-invocation")
        if r.random() < 0.1 and objs:
            nm = r.choice(objs)
            lines.append("#undef %s" % nm)
            lines.append("%s ;" % nm)
            objs.remove(nm)
            feats.add("undef-then-use")
    for nm in objs + [f[0] for f in funcs]:
        lines.append("#undef %s" % nm)
    return Section("macro", "\n".join(lines) + "\n", tags, feats)


def gen_section(r, n, avoid):
    return if_section(r, n, avoid) if r.random() < 0.5 else macro_section(r, n, avoid)


def marker(n):
    return "SECTION_%d_ENDS" % n
