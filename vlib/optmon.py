"""Shared workload of C02 (optimizer preserves behaviour) and C03 (passes keep
IR well-formed).  One execution = one real pass ``run`` on a real module,
observed from outside:

  C03 monitor: the pass must not raise; if it changed the module,
               ppci.irutils.verify_module and vlib.irwf must accept it.
  C02 monitor: reference-interpreter observables of every function on every
               argument vector before the pass == after the pass, provided
               the run before was defined.

Configurations: the pipeline ``ppci.api.optimize(level)`` really executes
(every concrete ModulePass.run is wrapped by reflection, so a changed pass
list is followed automatically), every pass class alone, random pass
sequences (<= 24) drawn from the pipeline's classes.
"""
import importlib
import io
import pkgutil

from vlib import irgen, irwf, ircmp, refinterp
from vlib.core import rng, h

LEVELS = ["1", "2", "s"]


def pass_classes():
    import ppci.opt
    from ppci.opt.transform import ModulePass
    import inspect

    for mi in pkgutil.iter_modules(ppci.opt.__path__):
        importlib.import_module("ppci.opt." + mi.name)
    out = {}

    def walk(c):
        for s in c.__subclasses__():
            if not inspect.isabstract(s) and s.__module__.startswith("ppci.opt"):
                out[s.__name__] = s
            walk(s)

    walk(ModulePass)
    return dict(sorted(out.items()))


def module_text(m):
    from ppci.irutils import print_module

    f = io.StringIO()
    try:
        print_module(m, file=f)
    except Exception as e:  # printing a broken module may fail
        f.write("\n<print_module failed: %r>" % (e,))
    return f.getvalue()


class Observer:
    """Executes every function of a module on fixed argument vectors."""

    def __init__(self, argvecs, ptr_size=8, max_steps=60000):
        self.argvecs = argvecs  # {fname: [vec, ...]}
        self.ptr_size = ptr_size
        self.max_steps = max_steps

    def observe(self, module, budgets=None):
        it = refinterp.Interp(module, ptr_size=self.ptr_size)
        out = {}
        for fname, vecs in self.argvecs.items():
            if fname not in it.functions:
                out[fname] = None  # function disappeared (only legal if local & unused)
                continue
            rs = []
            for k, vec in enumerate(vecs):
                steps = self.max_steps
                if budgets is not None and budgets.get((fname, k)):
                    steps = budgets[(fname, k)] * 100 + 100000
                rs.append(it.run(fname, vec, max_steps=steps))
            out[fname] = rs
        return out


def compare(before, after):
    """-> (n comparisons, n nontrivial, list of difference strings, discards)"""
    n = nontriv = 0
    diffs = []
    disc = {}
    for fname, rs in before.items():
        ra = after.get(fname)
        for k, rb in enumerate(rs or []):
            if rb.status != "ok":
                disc[rb.status + ":" + (rb.reason or "")[:30]] = disc.get(rb.status + ":" + (rb.reason or "")[:30], 0) + 1
                continue
            if ra is None:
                diffs.append("%s: function vanished" % fname)
                continue
            x = ra[k]
            n += 1
            if rb.steps >= 10 and rb.branches >= 1:
                nontriv += 1
            if x.status != "ok":
                diffs.append("%s%r: defined before (%r), after the pass: %s (%s)" % (
                    fname, tuple(rb_args(rb)), rb.retval, x.status, x.reason))
            elif x.observables() != rb.observables():
                diffs.append("%s vec#%d: before %s  after %s" % (fname, k, brief(rb), brief(x)))
    return n, nontriv, diffs, disc


def rb_args(rb):
    return []


def brief(r):
    o = r.observables()
    return ("ret=%r trace=%r globals=%r" % (o["ret"], o["trace"], o["globals"]))[:400]


def budgets_of(obs):
    out = {}
    for fname, rs in obs.items():
        for k, r in enumerate(rs or []):
            if r.status == "ok":
                out[(fname, k)] = max(r.steps, 1)
    return out


class Monitor:
    """Accumulates both properties' events for one shard."""

    def __init__(self):
        self.c02_evals = 0
        self.c03_evals = 0
        self.c02_viol = []
        self.c03_viol = []
        self.nontrivial = set()
        self.observed = {"pass_runs": {}, "pass_changed": {}, "pass_compared": {}, "tags": {}, "config": {},
                         "seq_len_max": 0, "origin": {}}
        self.discarded = {}
        self.samples = []

    def count(self, table, key, n=1):
        t = self.observed[table]
        t[key] = t.get(key, 0) + n

    # one pass on one module ------------------------------------------------
    def run_pass(self, name, runner, module, observer, state, case):
        """state: {'obs': last observation, 'hash': structural hash}.  Returns
        False if the module can no longer be used (pass crashed / ill-formed)."""
        from ppci.irutils import verify_module

        self.count("pass_runs", name)
        try:
            runner()
        except Exception as e:  # C03: no pass ever fails on well-formed input
            import traceback

            self.c03_evals += 1
            self.c03_viol.append({
                "summary": "%s raised %s: %s on well-formed input" % (name, type(e).__name__, str(e)[:120]),
                "case": dict(case, failing_pass=name, traceback=traceback.format_exc()[-1500:])})
            return False
        try:
            hh = ircmp.structural_hash(module)
        except Exception as e:
            hh = "unhashable:%r" % (e,)
        if hh == state["hash"]:
            return True
        state["hash"] = hh
        self.count("pass_changed", name)
        # ---- C03
        self.c03_evals += 1
        problems = []
        try:
            verify_module(module)
        except Exception as e:
            problems.append("verify_module: %s: %s" % (type(e).__name__, str(e)[:200]))
        problems += irwf.check_module(module)[:5]
        if problems:
            self.c03_viol.append({
                "summary": "%s left the module ill-formed: %s" % (name, problems[0][:200]),
                "case": dict(case, failing_pass=name, problems=problems, after=module_text(module)[:6000])})
            return False
        # ---- C02
        before = state["obs"]
        after = observer.observe(module, budgets_of(before))
        n, nontriv, diffs, disc = compare(before, after)
        for k, v in disc.items():
            self.discarded[k] = self.discarded.get(k, 0) + v
        self.c02_evals += n
        self.count("pass_compared", name, n)
        if nontriv:
            self.nontrivial.add(h([case.get("id"), name, hh]))
        if diffs:
            self.c02_viol.append({
                "summary": "%s changed behaviour: %s" % (name, diffs[0][:300]),
                "case": dict(case, failing_pass=name, differences=diffs[:5], after=module_text(module)[:6000])})
            return False
        state["obs"] = after
        return True


def wrap_pipeline(monitor, observer_ref):
    """Wrap ``run`` of every concrete pass class so that the pipeline that
    api.optimize really executes is observed step by step."""
    classes = pass_classes()
    origs = {name: cls.run for name, cls in classes.items() if not cls.__dict__.get("_verif_wrapped")}
    for name, orig in origs.items():
        cls = classes[name]

        def make(orig, name):
            def run(self, module):
                ctx = observer_ref.get("ctx")
                if ctx is None:
                    return orig(self, module)
                ok = monitor.run_pass(name, lambda: orig(self, module), module,
                                      ctx["observer"], ctx["state"], ctx["case"])
                if not ok:
                    raise StopPipeline()
            return run

        cls._verif_orig = orig
        cls.run = make(orig, name)
        cls._verif_wrapped = True
    return classes


class StopPipeline(Exception):
    pass


def run_case(monitor, classes, observer_ref, build, case, r, tier, configs=("pipeline", "single", "sequence")):
    """build() -> (module, argvecs, tags, ptr_size) builds a fresh copy of the case's module."""
    from ppci import api

    for config in configs:
        if config == "pipeline":
            variants = [("pipeline", r.choice(LEVELS))]
        elif config == "single":
            names = list(classes)
            k = len(names) if tier == "thorough" else 4
            variants = [("single", nm) for nm in r.sample(names, min(k, len(names)))]
        else:
            names = list(classes)
            L = r.randint(2, 24)
            variants = [("sequence", [r.choice(names) for _ in range(L)])]
        for kind, arg in variants:
            try:
                module, argvecs, tags, ptr_size = build()
            except Exception as e:
                monitor.discarded["build failed: %s" % type(e).__name__] = monitor.discarded.get("build failed: %s" % type(e).__name__, 0) + 1
                return
            problems = irwf.check_module(module)
            if problems:
                monitor.discarded["input not well-formed"] = monitor.discarded.get("input not well-formed", 0) + 1
                monitor.observed.setdefault("illformed_inputs", []).append(problems[0][:100])
                return
            observer = Observer(argvecs, ptr_size=ptr_size)
            state = {"obs": observer.observe(module), "hash": ircmp.structural_hash(module)}
            c = dict(case, config=kind, config_arg=arg)
            monitor.count("config", kind)
            if kind == "pipeline":
                observer_ref["ctx"] = {"observer": observer, "state": state, "case": c}
                try:
                    api.optimize(module, level=arg)
                except StopPipeline:
                    pass
                except Exception as e:
                    # the final verify_module of api.optimize or anything else
                    import traceback
                    monitor.c03_evals += 1
                    monitor.c03_viol.append({"summary": "api.optimize(level=%s) raised %s: %s" % (arg, type(e).__name__, str(e)[:150]),
                                             "case": dict(c, traceback=traceback.format_exc()[-1500:])})
                finally:
                    observer_ref["ctx"] = None
            else:
                seq = [arg] if kind == "single" else arg
                monitor.observed["seq_len_max"] = max(monitor.observed["seq_len_max"], len(seq))
                observer_ref["ctx"] = None
                for nm in seq:
                    cls = classes[nm]
                    p = cls()
                    if not monitor.run_pass(nm, lambda: cls._verif_orig(p, module), module, observer, state, c):
                        break
            for t in tags:
                monitor.count("tags", t)
            for v in monitor.c02_viol + monitor.c03_viol:
                if "original" not in v["case"] and v["case"].get("id") == case.get("id"):
                    try:
                        v["case"]["original"] = module_text(build()[0])[:12000]
                    except Exception:
                        pass




def irgen_case(seed, idx, ptr_size=8):
    """Deterministic module for case idx: returns build() and its description."""
    def build():
        r = rng(seed, "OPT", idx)
        shape = "mem" if r.random() < 0.3 else "ssa"
        cfg = {"shape": shape, "ptr_size": ptr_size, "undefined": r.random() < 0.2, "unsafe": r.random() < 0.12,
               "size": r.choice([6, 10, 14, 20])}
        m, info = irgen.gen_module(r, cfg)
        argvecs = {}
        for fname in info["functions"]:
            argvecs[fname] = irgen.gen_args(r, m, fname, 3)
        return m, argvecs, info["tags"], ptr_size
    return build


def cgen_case(seed, idx, avoid=()):
    """C-derived module: vlib.cgen program through the real C front-end."""
    def build():
        import io
        from ppci import api
        from vlib import cgen
        r = rng(seed, "OPTC", idx)
        src, info = cgen.gen_program(r, {"avoid": avoid, "size": r.choice([10, 16, 24])})
        m = api.c_to_ir(io.StringIO(src), "x86_64")
        argvecs = {"entry": cgen.gen_args(r, 3)}
        for f in m.functions:
            if f.name != "entry" and all(p.ty.is_integer for p in f.arguments):
                argvecs[f.name] = irgen.gen_args(r, m, f.name, 2)
        return m, argvecs, ["c:" + t for t in info["tags"]], 8
    return build


def _scalar_argvecs(r, m):
    argvecs = {}
    for f in m.functions:
        if all(p.ty.is_integer or p.ty in (irgen.T("f32"), irgen.T("f64")) for p in f.arguments):
            argvecs[f.name] = irgen.gen_args(r, m, f.name, 2)
    return argvecs


def pygen_case(seed, idx, avoid=()):
    """Module from the Python front-end (vlib.pygen program through python_to_ir)."""
    def build():
        import io
        from ppci.api import python_to_ir
        from vlib import pygen
        r = rng(seed, "OPTPY", idx)
        funcs, tags = pygen.gen_program(r, ())
        m = python_to_ir(io.StringIO(pygen.render(funcs)), imports=pygen.IMPORTS)
        return m, _scalar_argvecs(r, m), ["py:" + str(t) for t in sorted(tags)][:20], 8
    return build


def c3gen_case(seed, idx, avoid=()):
    """Module from the C3 front-end (vlib.c3gen program through c3_to_ir)."""
    def build():
        import io
        import contextlib
        from ppci.api import c3_to_ir
        from vlib import c3gen
        r = rng(seed, "OPTC3", idx)
        prog = c3gen.gen_program(r, ())
        with contextlib.redirect_stdout(io.StringIO()):
            m = c3_to_ir([io.StringIO(c3gen.render_c3(prog))], [], "x86_64")
        return m, _scalar_argvecs(r, m), ["c3"], 8
    return build


def run_shard(spec, prop):
    """Shared by checks/c02.py and checks/c03.py."""
    mon = Monitor()
    ref = {"ctx": None}
    classes = wrap_pipeline(mon, ref)
    tier = spec["tier"]
    for idx in range(spec["start"], spec["start"] + spec["count"]):
        only = spec.get("only")
        if only is not None and idx != only:
            continue
        r = rng(spec["seed"], "OPTCFG", idx)
        if idx % 4 == 3:
            build = cgen_case(spec["seed"], idx, spec.get("avoid", ()))
            case = {"id": "cgen/%s/%d" % (spec["seed"], idx), "source": "cgen", "seed": spec["seed"], "index": idx}
            mon.count("origin", "cgen")
        elif idx % 16 == 5:
            build = pygen_case(spec["seed"], idx)
            case = {"id": "pygen/%s/%d" % (spec["seed"], idx), "source": "pygen", "seed": spec["seed"], "index": idx}
            mon.count("origin", "pygen")
        elif idx % 16 == 13:
            build = c3gen_case(spec["seed"], idx)
            case = {"id": "c3gen/%s/%d" % (spec["seed"], idx), "source": "c3gen", "seed": spec["seed"], "index": idx}
            mon.count("origin", "c3gen")
        else:
            build = irgen_case(spec["seed"], idx)
            case = {"id": "irgen/%s/%d" % (spec["seed"], idx), "source": "irgen", "seed": spec["seed"], "index": idx}
            mon.count("origin", "irgen")
        run_case(mon, classes, ref, build, case, r, tier)
        if len(mon.samples) < 2 and idx % 7 == 0:
            mon.samples.append({"case": case["id"], "ir": module_text(build()[0])[:3000]})
    viol = mon.c02_viol if prop == "C02" else mon.c03_viol
    for v in viol:
        v["replay_spec"] = dict(spec, start=v["case"]["index"], count=1)
    res = {
        "evaluations": mon.c02_evals if prop == "C02" else mon.c03_evals,
        "nontrivial_hashes": sorted(mon.nontrivial),
        "observed": mon.observed,
        "discarded": mon.discarded,
        "samples": mon.samples,
        "violations": viol[:10],
    }
    return res
