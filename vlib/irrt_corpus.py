"""Fixed front-end corpus for the IR round-trip checks (C15 text, C16 JSON).

Every entry is compiled to an IR module by a ppci front-end (C through
``ppci.api.c_to_ir(..., "x86_64")``, C3 through ``ppci.api.c3_to_ir``).  The C
sources carry ``#ifdef NO_<X>`` alternatives: a check whose finding <X> is
open defines NO_<X> so that exactly the trigger construct is spelled
differently (``~x`` -> ``x ^ -1``, struct assignment -> member-wise, ...).

Switches:  NO_TILDE  NO_MEMCPY  NO_FLOATEXP  NO_USCORE (string literal in a
global initialiser -> variable ``__txt_const_N``)  NO_PARAMCLASH (parameter
called like a front-end temporary)  NO_ASM.
Initial values and volatile flags are removed by vlib.irrt.neutralise instead.
"""

C_SNIPPETS = [
    ("structs", r'''
struct P { int x; char tag; double w; };
struct P origin = {3, 'o', 2.5};
#ifndef NO_MEMCPY
struct P mk(int a) { struct P p; p.x = a; p.tag = 'q'; p.w = 1.5; return p; }
int sum(int a) { struct P p = mk(a); struct P q; q = p; q.x = q.x + origin.x; return q.x + q.tag; }
#else
void mk(struct P *p, int a) { p->x = a; p->tag = 'q'; p->w = 1.5; }
int sum(int a) { struct P p; struct P q; mk(&p, a); q.x = p.x; q.tag = p.tag; q.w = p.w; q.x = q.x + origin.x; return q.x + q.tag; }
#endif
'''),
    ("arrays", r'''
int tab[6] = {1, -2, 3, -4, 5, -6};
unsigned char bytes[5] = {255, 128, 127, 1, 0};
int pick(int i) { return tab[(i & 3)] + bytes[i & 3]; }
int total(int n) { int s = 0; int i; for (i = 0; i < 6; i++) { s = s + tab[i] * (n + i); } return s; }
void fill(int v) { int i; for (i = 0; i < 6; i = i + 1) tab[i] = v - i; }
'''),
    ("strings", r'''
#ifndef NO_USCORE
const char *msg = "hello, world";
#else
char msgdata[13] = {'h','e','l','l','o',',',' ','w','o','r','l','d',0};
char *msg = msgdata;
#endif
int length(void) { int n = 0; while (msg[n]) n++; return n; }
int local_literal(int i) { const char *s = "abc\x01\xff"; return s[i & 3]; }
'''),
    ("function_pointers", r'''
int twice(int x) { return x + x; }
int neg(int x) { return -x; }
int (*table[2])(int) = {twice, neg};
int (*current)(int) = neg;
int apply(int which, int v) { int (*f)(int) = table[which & 1]; return f(v) + current(v); }
void choose(int w) { if (w) current = twice; else current = neg; }
'''),
    ("switch", r'''
int classify(int x) {
  int r = 0;
  switch (x) {
    case 0: r = 10; break;
    case 1: r = 11;
    case 2: r = r + 12; break;
    case 100: return -1;
#ifndef NO_TILDE
    default: r = ~x; break;
#else
    default: r = x ^ -1; break;
#endif
  }
  return r;
}
'''),
    ("loops", r'''
int collatz(int n) {
  int steps = 0;
  if (n < 1) return 0;
  while (n != 1 && steps < 60) { if (n & 1) n = 3 * n + 1; else n = n / 2; steps++; }
  return steps;
}
int nested(int n) {
  int i; int j; int acc = 0;
  for (i = 0; i < 5; i++) {
    j = 0;
    do { if (j == 3) { j++; continue; } if (i + j > n) break; acc = acc + i * j; j++; } while (j < 6);
  }
  return acc;
}
'''),
    ("floats", r'''
double scale = 0.001;
float ratio = 1.5;
#ifndef NO_FLOATEXP
double big = 100000000000000000000000.0;
double small = 0.000000000001;
double f(double a) { return a * 1000000000000000000000000000000.0 + 0.0000001; }
#else
double big = 100000.0;
double small = 0.001;
double f(double a) { return a * 1000.25 + 0.125; }
#endif
double mix(int i, double d) { float t = i; double r = t * d - scale; if (r < 0.0) r = -r; return r + ratio; }
int trunc_it(double d) { if (d > 1000.0) return 1000; if (d < -1000.0) return -1000; return (int)d; }
'''),
    ("globals", r'''
char c8 = -128;
unsigned char u8v = 255;
short s16 = -32768;
unsigned short u16v = 65535;
int i32v = -2147483647;
unsigned int u32v = 4294967295;
long long i64v = -9223372036854775807;
unsigned long long u64v = 18446744073709551615;
static int hidden = 7;
int uninit;
int readall(void) { return c8 + u8v + s16 + u16v + (i32v & 15) + (int)(u32v & 7) + (int)(i64v & 3) + (int)(u64v >> 60) + hidden + uninit; }
unsigned long long top(void) { return u64v - 9223372036854775808; }
'''),
    ("volatile_bitfields", r'''
struct Flags { unsigned a : 3; unsigned b : 5; int c : 8; };
struct Flags fl;
volatile int port;
int poke(int v) { fl.a = v; fl.b = v + 1; fl.c = v; port = fl.a; return fl.a + fl.b + fl.c + port; }
'''),
    ("pointers", r'''
int cells[4] = {10, 20, 30, 40};
int *cursor = cells;
int walk(int n) { int *p = cells; int s = 0; while (p < cells + 4) { s += *p * n; p++; } return s; }
int via(int i) { int *q = cursor + (i & 3); *q = *q + 1; return *q; }
long dist(int i) { int *a = &cells[i & 3]; return a - cells; }
'''),
    ("unary_logic", r'''
int un(int x, int y) {
#ifndef NO_TILDE
  int a = ~x;
#else
  int a = x ^ -1;
#endif
  int b = -y; int c = !x; return a + b + c + (x && y) + (x || y) + (x ? y : -y);
}
unsigned un2(unsigned x) {
#ifndef NO_TILDE
  return ~x + 1u;
#else
  return (x ^ 4294967295u) + 1u;
#endif
}
'''),
    ("widths", r'''
int shifts(int x, unsigned u) { int s = x & 15; return (x << 3) + (x >> 2) + (int)(u >> s) + (int)(u << 1); }
unsigned divs(unsigned a, unsigned b) { if (b == 0) return 0; return a / b + a % b; }
int sdivs(int a, int b) { if (b == 0 || b == -1) return 0; return a / b - a % b; }
long long widen(char c, short s, int i) { long long r = c; r = r * 65536 + s; return r * 4294967296 + i; }
char narrow(long long v) { return (char)v; }
unsigned short mid(unsigned long long v) { return (unsigned short)(v >> 24); }
'''),
    ("recursion", r'''
int fact(int n) { if (n <= 1) return 1; if (n > 10) return 0; return n * fact(n - 1); }
int fib(int n) { if (n < 2) return n; if (n > 12) return -1; return fib(n - 1) + fib(n - 2); }
int even(int n);
int odd(int n) { if (n <= 0 || n > 30) return 0; return even(n - 1); }
int even(int n) { if (n <= 0 || n > 30) return 1; return odd(n - 1); }
'''),
    ("goto_ternary", r'''
int g(int n) {
  int i = 0; int acc = 0;
again:
  if (i >= 5) goto done;
  acc += (i & 1) ? n : -n;
  i++;
  goto again;
done:
  return acc + i;
}
'''),
    ("externs", r'''
extern int ext_counter;
extern int ext_get(int);
void ext_report(int);
static int helper(int a) { return a * 3; }
int drive(int a) { int v = ext_get(a) + helper(a); ext_report(v); ext_report(ext_counter); return v; }
'''),
    ("nested_aggregates", r'''
struct In { short a; short b; };
struct Out { struct In in[2]; int n; };
union U { int i; unsigned char b[4]; };
struct Out box = {{{1, 2}, {3, 4}}, 2};
int get(int k) { return box.in[k & 1].a * 100 + box.in[k & 1].b + box.n; }
int low(int v) { union U u; u.i = v; return u.b[0]; }
int grid[2][3] = {{1, 2, 3}, {4, 5, 6}};
int cell(int r, int c) { return grid[r & 1][(c & 1) + 1] + (int)sizeof(struct Out); }
'''),
    ("compound", r'''
int comp(int a, int b) {
  int x = a; x += b; x -= 3; x *= 2; x |= 1; x &= 0xffff; x ^= b; x <<= 1; x >>= 1;
  x++; --x; return x + (a++, b--, a - b);
}
long long big(void) { long long v = 9223372036854775807; unsigned long long w = 9223372036854775808ull; return v + (long long)(w >> 63); }
'''),
    ("param_names", r'''
#ifndef NO_PARAMCLASH
int clash(int tmp, int alloca) { int z = tmp + alloca; return z * 2 + tmp; }
#else
int clash(int pa, int pb) { int z = pa + pb; return z * 2 + pa; }
#endif
'''),
    ("inline_asm", r'''
int before(int v) { return v + 1; }
#ifndef NO_ASM
void hw(int v) { int out; asm("mov %0, %1" : "=r" (out) : "r" (v) : "rax"); }
#endif
'''),
    ("char_logic", r'''
int is_digit(int c) { return c >= '0' && c <= '9'; }
int parse(int a, int b, int c) { int v = 0; if (is_digit(a)) v = v * 10 + (a - '0'); if (is_digit(b)) v = v * 10 + (b - '0'); if (is_digit(c)) v = v * 10 + (c - '0'); return v; }
signed char sx(int v) { signed char c = v; return c; }
unsigned char zx(int v) { unsigned char c = v; return c >> 1; }
'''),
    ("maybe_uninit", r'''
int pickone(int a, int b) { int x; if (a > 0) x = b; if (a > 5) x = x + 1; if (a > 0) return x; return 0; }
double acc(int n) { double s; int i; for (i = 0; i < n; i++) { if (i == 0) s = 1.0; else s = s * 0.5; } if (n > 0) return s; return 0.0; }
'''),
]

C3_SNIPPETS = [
    ("c3_basic", '''
module main;
var int counter = 5;
var int[4] data;
function int add(int a, int b) { return a + b * counter; }
function void bump(int n) { var int i; for (i = 0; i < 4; i += 1) { data[i] = data[i] + n; } counter += 1; }
function int test(int x) { if (x > 3 and x < 10) { return add(x, 2); } else { bump(x); return data[1]; } }
'''),
    ("c3_struct", '''
module shapes;
type struct { int w; int h; } rect_t;
var rect_t r;
function int area() { return r.w * r.h; }
function void set(int w, int h) { r.w = w; r.h = h; }
function int loop(int n) { var int s = 0; while (n > 0) { s += n; n -= 1; } return s; }
'''),
]

PY_SNIPPETS = [
    ("py_basic", '''
def add(a: int, b: int) -> int:
    c = a + b * 2
    if c > 10:
        c = c - 3
    return c

def loop(n: int) -> int:
    s = 0
    i = 0
    while i < n:
        s = s + i
        i = i + 1
    return s

def scale(x: float) -> float:
    return x * 2.5
'''),
]

# structs passed by value: blob parameters of equal size and different alignment
C_SNIPPETS.append(("by_value_structs", r'''
struct P { int a, b; };
struct Q { char c[8]; };
struct R { short s[4]; };
struct W { long long x; long long y; };
struct V { int i[4]; };
extern int ext_pq(struct Q q, struct P p);
int usep(struct P p) { return p.a + p.b; }
int useq(struct Q q) { return q.c[0] + q.c[7]; }
int user(struct R r, struct W w, struct V v) { return r.s[1] + (int)w.y + v.i[3]; }
int both(struct P p, struct Q q) { return usep(p) + useq(q); }
int drive(int n) {
  struct P p; struct Q q; struct R r; struct W w; struct V v; int i;
  p.a = n; p.b = 2 * n;
  for (i = 0; i < 8; i++) q.c[i] = i + n;
  for (i = 0; i < 4; i++) { r.s[i] = i - n; v.i[i] = i * n; }
  w.x = n; w.y = -n;
  return both(p, q) + user(r, w, v);
}
'''))
