// Reference WebAssembly engine driver (V8 via node) for C21/C22/C23.
// usage: node v8driver.js job.json out.json
// job  : {"modules":[{"id", "wasm": base64, "imports":[{module,name,kind,...}],
//                      "mode": "validate"|"run", "calls":[{"f","args":[[type,text]],"ret":type|null}],
//                      "globals":[{"name","typ"}], "memory": exportname|null}]}
// out  : {"results":[{id, valid, verr, inst: "ok"|"trap:<class>"|"error:<msg>", calls:[text...],
//                      globals:{name:text}, mem:{pages,sha,nz:[[addr,hex]...]}, log:[int...]}]}
// value text: i32/i64 decimal (i64 via BigInt), f32/f64 hex bit pattern, NaN -> "nan".
// C23 additions (all optional, nothing changes when absent):
//   import {kind:"func", ext:{params:[wasm type...], norm:[null|[bits, signed]...], ret:null|"i32"|"i64"|"f32"|"f64", retzero:bool}}
//     -> generated host function: appends [name, [arg text...]] to the run's trace and answers like
//        vlib.refinterp.default_external (count = number of external calls so far in this run);
//   module "fresh": true  -> every call runs on a fresh instance; results go to runs:[{ret, trace, mem:[hex...]}]
//   module "memdump": [[addr, len]...] with "memory": exportname -> bytes of those ranges after the call.
'use strict';
const fs = require('fs');
const crypto = require('crypto');

function classify(e) {
  if (e instanceof RangeError && /call stack/i.test(e.message)) return 'trap:stack';
  if (e instanceof WebAssembly.RuntimeError) {
    const m = e.message;
    if (/unreachable/.test(m)) return 'trap:unreachable';
    if (/divide by zero|remainder by zero/.test(m)) return 'trap:div0';
    if (/divide result unrepresentable/.test(m)) return 'trap:overflow';
    if (/float unrepresentable|invalid conversion/.test(m)) return 'trap:trunc';
    if (/memory access out of bounds|data segment .* out of bounds|offset out of bounds/.test(m)) return 'trap:oob';
    if (/table index is out of bounds|table access out of bounds|element segment|table.*out of bounds/.test(m)) return 'trap:table-oob';
    if (/null function|signature mismatch|indirect call/.test(m)) return 'trap:indirect';
    return 'trap:other:' + m;
  }
  if (e instanceof WebAssembly.LinkError) return 'error:link:' + e.message;
  if (e instanceof WebAssembly.CompileError) return 'error:compile:' + e.message;
  return 'error:' + (e && e.constructor ? e.constructor.name : '?') + ':' + (e && e.message);
}

const dv = new DataView(new ArrayBuffer(8));
function toJs(t, s) {
  if (t === 'i32') return Number(BigInt.asIntN(32, BigInt(s)));
  if (t === 'i64') return BigInt.asIntN(64, BigInt(s));
  if (t === 'f32') { dv.setUint32(0, parseInt(s, 16)); return dv.getFloat32(0); }
  dv.setBigUint64(0, BigInt('0x' + s)); return dv.getFloat64(0);
}
function toText(t, v) {
  if (t === null || t === undefined) return 'void';
  if (t === 'i32') return String(v | 0);
  if (t === 'i64') return BigInt.asIntN(64, BigInt(v)).toString();
  if (Number.isNaN(v)) return 'nan';
  if (t === 'f32') { dv.setFloat32(0, v); return dv.getUint32(0).toString(16).padStart(8, '0'); }
  dv.setFloat64(0, v); return dv.getBigUint64(0).toString(16).padStart(16, '0');
}

function memInfo(memory) {
  const buf = Buffer.from(memory.buffer);
  const sha = crypto.createHash('sha256').update(buf).digest('hex');
  const nz = [];
  let i = 0;
  const n = buf.length;
  while (i < n && nz.length < 48) {
    if (buf[i] !== 0) {
      let j = i;
      while (j < n && j - i < 64 && (buf[j] !== 0 || (j + 1 < n && buf[j + 1] !== 0))) j++;
      nz.push([i, buf.subarray(i, j).toString('hex')]);
      i = j;
    } else i++;
  }
  return { pages: n / 65536, sha: sha, nz: nz };
}

function extHost(im, ext) {
  const e = im.ext;
  return function () {
    ext.count += 1;
    const shown = [];
    let acc = BigInt(ext.count * 7 + 3);
    for (let i = 0; i < im.name.length; i++) acc = (acc * 31n + BigInt(im.name.charCodeAt(i))) & 0xFFFFn;
    for (let i = 0; i < e.params.length; i++) {
      shown.push(toText(e.params[i], arguments[i]));
      if (e.norm[i]) {
        const a = e.norm[i][1] ? BigInt.asIntN(e.norm[i][0], BigInt(arguments[i])) : BigInt.asUintN(e.norm[i][0], BigInt(arguments[i]));
        acc = BigInt.asUintN(16, acc * 17n + a);
      }
    }
    ext.trace.push([im.name, shown]);
    if (!e.ret) return undefined;
    if (e.retzero) return 0;
    if (e.ret === 'f32' || e.ret === 'f64') return Number(acc % 97n) / 4.0;
    const v = acc % 61n;
    return e.ret === 'i64' ? v : Number(v);
  };
}

function runFresh(m, bytes, imports, ext, res) {
  let module;
  try { module = new WebAssembly.Module(bytes); } catch (e) { res.inst = classify(e); return res; }
  res.inst = 'ok';
  res.runs = [];
  for (const c of m.calls || []) {
    ext.count = 0;
    ext.trace = [];
    const run = {};
    try {
      const inst = new WebAssembly.Instance(module, imports);
      try {
        const args = c.args.map((a) => toJs(a[0], a[1]));
        run.ret = toText(c.ret, inst.exports[c.f].apply(null, args));
      } catch (e) {
        run.ret = classify(e);
      }
      if (m.memory && inst.exports[m.memory]) {
        const buf = Buffer.from(inst.exports[m.memory].buffer);
        run.mem = (m.memdump || []).map((d) => buf.subarray(d[0], d[0] + d[1]).toString('hex'));
      }
    } catch (e) {
      run.ret = 'inst:' + classify(e);
    }
    run.trace = ext.trace;
    res.runs.push(run);
  }
  return res;
}

function runModule(m) {
  const res = { id: m.id, valid: false };
  const bytes = Buffer.from(m.wasm, 'base64');
  res.valid = WebAssembly.validate(bytes);
  if (!res.valid) {
    try { new WebAssembly.Module(bytes); } catch (e) { res.verr = String(e.message).slice(0, 300); }
    return res;
  }
  if (m.mode === 'validate') return res;
  const log = [];
  const host = {
    hi32: (x) => (x ^ 0x5A5A5A5A) | 0,
    hi64: (x) => BigInt.asIntN(64, x + 1n),
    hf64: (x) => x * 0.5,
    hf32: (x) => -x,
    hlog: (x) => { log.push(x | 0); },
    hmix: (a, b, c) => (a + Number(BigInt.asIntN(32, b)) + (c > 0 ? 1 : 0)) | 0,
  };
  const imports = {};
  const ext = { count: 0, trace: [] };
  for (const im of m.imports || []) {
    const ns = imports[im.module] || (imports[im.module] = {});
    if (im.kind === 'func' && im.ext) ns[im.name] = extHost(im, ext);
    else if (im.kind === 'func') ns[im.name] = host[im.name];
    else if (im.kind === 'global') {
      const v = { i32: 7, i64: 9n, f32: 1.5, f64: 2.5 }[im.typ];
      ns[im.name] = new WebAssembly.Global({ value: im.typ, mutable: !!im.mut }, v);
    } else if (im.kind === 'memory') {
      const d = { initial: im.min };
      if (im.max !== null && im.max !== undefined) d.maximum = im.max;
      ns[im.name] = new WebAssembly.Memory(d);
    } else if (im.kind === 'table') {
      const d = { element: 'anyfunc', initial: im.min };
      if (im.max !== null && im.max !== undefined) d.maximum = im.max;
      ns[im.name] = new WebAssembly.Table(d);
    }
  }
  if (m.fresh) return runFresh(m, bytes, imports, ext, res);
  let inst;
  try {
    inst = new WebAssembly.Instance(new WebAssembly.Module(bytes), imports);
    res.inst = 'ok';
  } catch (e) {
    res.inst = classify(e);
    res.log = log;
    return res;
  }
  res.calls = [];
  for (const c of m.calls || []) {
    let out;
    try {
      const f = inst.exports[c.f];
      const args = c.args.map((a) => toJs(a[0], a[1]));
      const r = f.apply(null, args);
      out = toText(c.ret, r);
    } catch (e) {
      out = classify(e);
    }
    res.calls.push(out);
  }
  res.globals = {};
  for (const g of m.globals || []) {
    try { res.globals[g.name] = toText(g.typ, inst.exports[g.name].value); } catch (e) { res.globals[g.name] = classify(e); }
  }
  if (m.memory && inst.exports[m.memory]) res.mem = memInfo(inst.exports[m.memory]);
  res.log = log;
  return res;
}

const job = JSON.parse(fs.readFileSync(process.argv[2], 'utf8'));
const results = [];
for (const m of job.modules) {
  try { results.push(runModule(m)); } catch (e) { results.push({ id: m.id, driver_error: String(e && e.stack || e).slice(0, 500) }); }
}
fs.writeFileSync(process.argv[3], JSON.stringify({ results: results, node: process.version, v8: process.versions.v8 }));
