"""Reference interpreter for ppci IR (DESIGN 2.2).

Independent of ppci's ir2py, optimizer and back-ends: it only reads the
``ppci.ir`` object graph (classes, operand fields).  Semantics:

* integers: two's complement, wrapped to the type after every operation;
  ``/`` ``%`` truncate toward zero; ``>>`` arithmetic for signed types and
  logical for unsigned; casts truncate / extend according to the source type;
* float -> int truncates toward zero; f32 values are rounded to single after
  every operation;
* *undefined -> the run is discarded, never judged*: division by zero,
  INT_MIN / -1, out-of-bounds, dangling or null access, inline asm, and any
  poison value (shift count out of range, float->int out of range, read of an
  uninitialised byte, ``undefined``, an address leaking into an integer)
  that reaches an observable (branch, return value, global memory at exit,
  external-call argument, divisor, address);
* memory: one region per global, per executed alloc, per literal, per
  function; pointers are (region, offset) pairs, never numbers;
* observables: return value, final contents of every global, ordered trace
  of external calls with their arguments.

API
    it = Interp(module, ptr_size=8)              # or a list of modules
    res = it.run("f", [1, 2.0], max_steps=200000)
    res.status in {"ok", "undefined", "timeout"}; res.reason; res.steps
    res.observables()  -> json-able (retval, globals, trace) for comparison
"""
import math
import struct

from ppci import ir


class Undef(Exception):
    """The execution left the defined semantics: discard the run."""


class Timeout(Exception):
    pass


class Poison:
    __slots__ = ("reason", "ptr")

    def __init__(self, reason, ptr=None):
        self.reason = reason
        self.ptr = ptr  # a pointer hiding in an integer (ptr -> int cast)

    def __repr__(self):
        return "poison(%s)" % self.reason


class Region:
    __slots__ = ("label", "kind", "data", "mask", "ptrs", "alive", "writable", "func")

    def __init__(self, label, kind, size, init=None, writable=True, func=None):
        self.label = label
        self.kind = kind
        self.data = bytearray(size)
        self.mask = bytearray(size)  # 0 uninit, 1 plain byte, 2 part of a stored pointer
        self.ptrs = {}
        self.alive = True
        self.writable = writable
        self.func = func
        if init is not None:
            self.data[: len(init)] = init
            for i in range(len(init)):
                self.mask[i] = 1

    def __repr__(self):
        return "<%s %s %d>" % (self.kind, self.label, len(self.data))


class Ptr:
    __slots__ = ("region", "off")

    def __init__(self, region, off):
        self.region = region
        self.off = off

    def __repr__(self):
        return "ptr(%s+%s)" % (self.region.label if self.region else None, self.off)


def f32round(x):
    try:
        return struct.unpack("<f", struct.pack("<f", x))[0]
    except OverflowError:
        return math.copysign(math.inf, x)


def fbits(x, bits):
    if x != x:
        return "nan"
    if bits == 32:
        return "f32:%08x" % struct.unpack("<I", struct.pack("<f", x))[0]
    return "f64:%016x" % struct.unpack("<Q", struct.pack("<d", x))[0]


class Result:
    def __init__(self):
        self.status = "ok"
        self.reason = None
        self.retval = None
        self.globals = None
        self.trace = []
        self.steps = 0
        self.branches = 0
        self.ops = {}

    def observables(self):
        return {"ret": self.retval, "globals": self.globals, "trace": self.trace}

    def __repr__(self):
        return "Result(%s %s ret=%r steps=%d)" % (self.status, self.reason, self.retval, self.steps)


def default_external(name, args, count, ret_ty):
    """Deterministic answer of an external function: depends on the name, the
    argument values and the call number only."""
    if ret_ty is None:
        return None
    acc = count * 7 + 3
    for ch in name:
        acc = (acc * 31 + ord(ch)) & 0xFFFF
    for a in args:
        if isinstance(a, int):
            acc = (acc * 17 + a) & 0xFFFF
    if ret_ty is ir.ptr:
        return 0
    if ret_ty in (ir.f32, ir.f64):
        return float(acc % 97) / 4.0
    return acc % 61  # fits every integer type, signed or not


class Interp:
    def __init__(self, modules, ptr_size=8, external=None, big_endian=False, count_ops=False):
        if isinstance(modules, ir.Module):
            modules = [modules]
        self.modules = modules
        self.ptr_size = ptr_size
        self.ptr_bits = ptr_size * 8
        self.pmask = (1 << self.ptr_bits) - 1
        self.external = external or default_external
        self.end = ">" if big_endian else "<"
        self.count_ops = count_ops
        self.lenient_globals = True
        self.functions = {}
        self.variables = []
        self.externals = {}
        for m in modules:
            for f in m.functions:
                self.functions[f.name] = f
            for v in m.variables:
                self.variables.append(v)
            for e in m.externals:
                self.externals[e.name] = e
        self.dispatch = {
            ir.Const: self.x_const, ir.Binop: self.x_binop, ir.Unop: self.x_unop,
            ir.Cast: self.x_cast, ir.Load: self.x_load, ir.Store: self.x_store,
            ir.Alloc: self.x_alloc, ir.AddressOf: self.x_addressof,
            ir.LiteralData: self.x_literal, ir.CopyBlob: self.x_copyblob,
            ir.FunctionCall: self.x_fcall, ir.ProcedureCall: self.x_pcall,
            ir.Undefined: self.x_undefined, ir.InlineAsm: self.x_asm, ir.Phi: self.x_phi_late,
        }

    # ------------------------------------------------------------ set-up
    def _setup(self):
        self.gregions = {}
        self.fregions = {}
        self.literals = {}
        for f in self.functions.values():
            self.fregions[f.name] = Region(f.name, "func", 1, writable=False, func=f)
        for e in self.externals.values():
            if isinstance(e, ir.ExternalSubRoutine) and e.name not in self.fregions:
                self.fregions[e.name] = Region(e.name, "func", 1, writable=False, func=e)
            elif isinstance(e, ir.ExternalVariable) and e.name not in [v.name for v in self.variables]:
                self.gregions[e.name] = Region(e.name, "global", 64, init=bytes(64))
        for v in self.variables:
            self.gregions[v.name] = Region(v.name, "global", v.amount, init=bytes(v.amount))
        for v in self.variables:
            if not v.value:
                continue
            reg = self.gregions[v.name]
            off = 0
            for part in v.value:
                if isinstance(part, (bytes, bytearray)):
                    reg.data[off: off + len(part)] = part
                    off += len(part)
                else:
                    ty, name = part
                    tgt = self._symbol(name)
                    self._store_ptr(reg, off, Ptr(tgt, 0))
                    off += self.ptr_size
            if off > v.amount:
                raise Undef("initializer of %s larger than the variable" % v.name)

    def _symbol(self, name):
        if name in self.gregions:
            return self.gregions[name]
        if name in self.fregions:
            return self.fregions[name]
        raise Undef("reference to unknown symbol %s" % name)

    # ------------------------------------------------------------ running
    def run(self, fname, args, max_steps=200000, max_depth=150):
        res = Result()
        self.res = res
        self.steps = 0
        self.max_steps = max_steps
        self.max_depth = max_depth
        self.depth = 0
        self.ext_count = 0
        try:
            self._setup()
            f = self.functions[fname]
            vals = []
            for p, a in zip(f.arguments, args):
                vals.append(self._arg_in(p.ty, a))
            rv = self.call(f, vals)
            if isinstance(f, ir.Function):
                res.retval = self.observe(rv, f.return_ty, "return value")
            res.globals = self.snapshot()
        except Undef as e:
            res.status, res.reason = "undefined", str(e)
        except Timeout as e:
            res.status, res.reason = "timeout", str(e)
        except RecursionError:
            res.status, res.reason = "timeout", "python recursion"
        res.steps = self.steps
        return res

    def _arg_in(self, ty, a):
        if ty is ir.ptr:
            if isinstance(a, Ptr):
                return a
            return Ptr(None, a & self.pmask)
        if ty in (ir.f32, ir.f64):
            return f32round(float(a)) if ty is ir.f32 else float(a)
        if isinstance(ty, ir.BlobDataTyp):
            r = Region("arg", "alloc", ty.size, init=bytes(a) if a else bytes(ty.size))
            return r
        return self.wrap(int(a), ty)

    def snapshot(self):
        out = {}
        for name, reg in sorted(self.gregions.items()):
            out[name] = self.region_obs(reg, 0, len(reg.data), "global %s" % name)
        return out

    def region_obs(self, reg, start, stop, what):
        items = []
        i = start
        run = bytearray()
        while i < stop:
            m = reg.mask[i]
            if m == 1:
                run.append(reg.data[i])
                i += 1
                continue
            if run:
                items.append(run.hex())
                run = bytearray()
            if m == 2 and i in reg.ptrs and i + self.ptr_size <= stop:
                p = reg.ptrs[i]
                items.append(["ptr", p.region.kind, p.region.label if p.region.kind != "alloc" else "", p.off])
                i += self.ptr_size
                continue
            if self.lenient_globals and what.startswith("global"):
                items.append("??")   # padding / never written: shown, not fatal
                i += 1
                continue
            raise Undef("undefined byte in %s at offset %d" % (what, i))
        if run:
            items.append(run.hex())
        return items

    def observe(self, v, ty, what):
        if isinstance(v, Poison):
            raise Undef("poison (%s) reaches %s" % (v.reason, what))
        if isinstance(v, Ptr):
            if v.region is None:
                return ["ptrnum", v.off]
            if v.region.kind == "alloc":
                if not v.region.alive:
                    return ["ptr", "dead-alloc"]
                # an external / the caller may read what the pointer designates
                try:
                    return ["ptr", "alloc", self.region_obs(v.region, max(v.off, 0), len(v.region.data), what)]
                except Undef:
                    return ["ptr", "alloc", "partly-undefined"]
            return ["ptr", v.region.kind, v.region.label, v.off]
        if isinstance(v, float):
            return fbits(v, 32 if ty is ir.f32 else 64)
        if isinstance(v, Region):
            return ["blob", self.region_obs(v, 0, len(v.data), what)]
        return v

    def call(self, f, args):
        if isinstance(f, ir.ExternalSubRoutine):
            return self.call_external(f, args)
        self.depth += 1
        if self.depth > self.max_depth:
            raise Timeout("call depth")
        env = {}
        frame_regions = []
        for p, a in zip(f.arguments, args):
            if isinstance(p.ty, ir.BlobDataTyp):
                src = a if isinstance(a, Region) else None
                if src is None:
                    raise Undef("blob parameter without blob argument")
                r = Region(p.name, "alloc", p.ty.size)
                self._copy(r, 0, src, 0, min(p.ty.size, len(src.data)))
                frame_regions.append(r)
                env[p] = r
            else:
                env[p] = a
        if len(args) != len(f.arguments):
            raise Undef("argument count mismatch calling %s" % f.name)
        block = f.entry
        prev = None
        dispatch = self.dispatch
        res = self.res
        try:
            while True:
                # phis first, simultaneously
                phis = []
                instrs = block.instructions
                n = 0
                for ins in instrs:
                    if type(ins) is ir.Phi:
                        if prev not in ins.inputs:
                            raise Undef("phi %s has no input for predecessor" % ins.name)
                        phis.append((ins, self.val(env, ins.inputs[prev])))
                        n += 1
                    else:
                        break
                for ins, v in phis:
                    env[ins] = v
                for ins in instrs[n:]:
                    self.steps += 1
                    if self.steps > self.max_steps:
                        raise Timeout("steps")
                    t = type(ins)
                    h = dispatch.get(t)
                    if h is not None:
                        h(env, ins, frame_regions)
                        continue
                    if t is ir.Jump:
                        prev, block = block, ins.target
                        break
                    if t is ir.CJump:
                        res.branches += 1
                        taken = self.compare(env, ins)
                        prev, block = block, (ins.lab_yes if taken else ins.lab_no)
                        break
                    if t is ir.Return:
                        return self.val(env, ins.result)
                    if t is ir.Exit:
                        return None
                    raise Undef("unsupported instruction %s" % t.__name__)
                else:
                    raise Undef("block %s falls off its end" % block.name)
        finally:
            self.depth -= 1
            for r in frame_regions:
                r.alive = False

    def call_external(self, e, args):
        self.ext_count += 1
        obs = []
        for a, ty in zip(args, e.argument_types):
            obs.append(self.observe(a, ty, "argument of external %s" % e.name))
        self.res.trace.append([e.name, obs])
        ret_ty = e.return_ty if isinstance(e, ir.ExternalFunction) else None
        plain = [a for a in args if isinstance(a, int)]
        rv = self.external(e.name, plain, self.ext_count, ret_ty)
        if ret_ty is None:
            return None
        if ret_ty is ir.ptr:
            return Ptr(None, 0)
        if ret_ty in (ir.f32, ir.f64):
            return float(rv)
        return self.wrap(int(rv), ret_ty)

    # ------------------------------------------------------------ values
    def val(self, env, v):
        try:
            return env[v]
        except KeyError:
            pass
        if isinstance(v, ir.Variable):
            return Ptr(self.gregions[v.name], 0)
        if isinstance(v, (ir.SubRoutine, ir.ExternalSubRoutine)):
            return Ptr(self.fregions[v.name], 0)
        if isinstance(v, ir.ExternalVariable):
            return Ptr(self.gregions[v.name], 0)
        raise Undef("use of a value that was never computed: %s" % getattr(v, "name", v))

    @staticmethod
    def wrap(x, ty):
        bits = ty.bits
        x &= (1 << bits) - 1
        if ty.signed and x >> (bits - 1):
            x -= 1 << bits
        return x

    def addr(self, v):
        if isinstance(v, Region):
            return Ptr(v, 0)
        return v

    # ------------------------------------------------------------ instructions
    def x_const(self, env, ins, fr):
        ty = ins.ty
        v = ins.value
        if ty is ir.ptr:
            env[ins] = Ptr(None, int(v) & self.pmask)
        elif ty is ir.f32:
            env[ins] = f32round(float(v))
        elif ty is ir.f64:
            env[ins] = float(v)
        else:
            env[ins] = self.wrap(int(v), ty)

    def x_undefined(self, env, ins, fr):
        env[ins] = Poison("undefined value")

    def x_asm(self, env, ins, fr):
        raise Undef("inline assembly")

    def x_phi_late(self, env, ins, fr):
        raise Undef("phi after a non-phi instruction")

    def x_alloc(self, env, ins, fr):
        r = Region(ins.name, "alloc", ins.amount)
        fr.append(r)
        env[ins] = r

    def x_literal(self, env, ins, fr):
        key = ins
        r = self.literals.get(key)
        if r is None:
            r = Region("lit:" + bytes(ins.data).hex()[:32], "literal", len(ins.data), init=ins.data, writable=False)
            self.literals[key] = r
        env[ins] = r

    def x_addressof(self, env, ins, fr):
        src = self.val(env, ins.src)
        if not isinstance(src, Region):
            raise Undef("address of a non-blob value")
        env[ins] = Ptr(src, 0)

    def x_unop(self, env, ins, fr):
        a = self.val(env, ins.a)
        ty = ins.ty
        if self.count_ops:
            k = "u%s %s" % (ins.operation, ty.name)
            self.res.ops[k] = self.res.ops.get(k, 0) + 1
        if isinstance(a, Poison):
            env[ins] = a
            return
        if ins.operation == "-":
            if ty in (ir.f32, ir.f64):
                env[ins] = -a
            elif ty is ir.ptr:
                env[ins] = self.ptr_num(a, lambda x: -x)
            else:
                env[ins] = self.wrap(-a, ty)
        elif ins.operation == "~":
            if ty in (ir.f32, ir.f64):
                raise Undef("~ on float")
            if ty is ir.ptr:
                env[ins] = self.ptr_num(a, lambda x: ~x)
            else:
                env[ins] = self.wrap(~a, ty)
        else:
            raise Undef("unknown unop")

    def ptr_num(self, a, fn):
        if a.region is not None:
            return Poison("arithmetic on an address")
        return Ptr(None, fn(a.off) & self.pmask)

    def x_binop(self, env, ins, fr):
        a = self.val(env, ins.a)
        b = self.val(env, ins.b)
        ty = ins.ty
        op = ins.operation
        if self.count_ops:
            k = "%s %s" % (op, ty.name)
            self.res.ops[k] = self.res.ops.get(k, 0) + 1
        if isinstance(a, Poison) or isinstance(b, Poison):
            if op in ("/", "%") and isinstance(b, Poison) and ty.is_integer:
                raise Undef("poison divisor (%s)" % b.reason)
            env[ins] = a if isinstance(a, Poison) else b
            if isinstance(env[ins].ptr, Ptr):
                env[ins] = Poison(env[ins].reason)
            return
        if ty is ir.ptr:
            env[ins] = self.ptr_binop(a, op, b)
            return
        if ty is ir.f32 or ty is ir.f64:
            env[ins] = self.float_binop(a, op, b, ty)
            return
        bits = ty.bits
        if op == "+":
            r = a + b
        elif op == "-":
            r = a - b
        elif op == "*":
            r = a * b
        elif op == "/" or op == "%":
            if b == 0:
                raise Undef("division by zero")
            if ty.signed and b == -1 and a == -(1 << (bits - 1)):
                raise Undef("INT_MIN / -1")
            q = abs(a) // abs(b)
            if (a < 0) != (b < 0):
                q = -q
            r = q if op == "/" else a - q * b
        elif op == "&":
            r = a & b
        elif op == "|":
            r = a | b
        elif op == "^":
            r = a ^ b
        elif op == "<<" or op == ">>":
            if b < 0 or b >= bits:
                env[ins] = Poison("shift count out of range")
                return
            r = a << b if op == "<<" else a >> b  # a is in its type's range: >> is arithmetic iff signed
        elif op == "rol" or op == "ror":
            if b < 0 or b >= bits:
                env[ins] = Poison("rotate count out of range")
                return
            m = (1 << bits) - 1
            u = a & m
            if op == "ror":
                b = (bits - b) % bits
            r = ((u << b) | (u >> (bits - b))) & m if b else u
        else:
            raise Undef("unknown binop %s" % op)
        env[ins] = self.wrap(r, ty)

    def float_binop(self, a, op, b, ty):
        try:
            if op == "+":
                r = a + b
            elif op == "-":
                r = a - b
            elif op == "*":
                r = a * b
            elif op == "/":
                if b == 0.0:
                    # IEEE defines it, C does not, and ppci's executors disagree:
                    # outside the defined semantics (lazy poison)
                    return Poison("float division by zero")
                r = a / b
            else:
                raise Undef("float operator %s" % op)
        except OverflowError:
            r = math.inf if (a > 0) == (b > 0) else -math.inf
        if ty is ir.f32:
            r = f32round(r)
        return r

    def ptr_binop(self, a, op, b):
        ra, rb = a.region, b.region
        if op == "+":
            if ra is not None and rb is not None:
                return Poison("sum of two addresses")
            if ra is None and rb is None:
                return Ptr(None, (a.off + b.off) & self.pmask)
            reg = ra or rb
            return Ptr(reg, self.soff(a.off + b.off))
        if op == "-":
            if rb is None:
                if ra is None:
                    return Ptr(None, (a.off - b.off) & self.pmask)
                return Ptr(ra, self.soff(a.off - b.off))
            if ra is rb:
                return Ptr(None, (a.off - b.off) & self.pmask)
            return Poison("difference of unrelated addresses")
        if ra is not None or rb is not None:
            return Poison("arithmetic on an address")
        x, y = a.off, b.off
        if op == "*":
            return Ptr(None, (x * y) & self.pmask)
        if op == "&":
            return Ptr(None, x & y)
        if op == "|":
            return Ptr(None, x | y)
        if op == "^":
            return Ptr(None, x ^ y)
        if op in ("/", "%"):
            if y == 0:
                raise Undef("division by zero")
            return Ptr(None, x // y if op == "/" else x % y)
        if op in ("<<", ">>"):
            if y >= self.ptr_bits:
                return Poison("shift count out of range")
            return Ptr(None, (x << y) & self.pmask if op == "<<" else x >> y)
        return Poison("ptr operator %s" % op)

    def soff(self, off):
        off &= self.pmask
        if off >> (self.ptr_bits - 1):
            off -= 1 << self.ptr_bits
        return off

    def x_cast(self, env, ins, fr):
        v = self.val(env, ins.src)
        sty = ins.src.ty
        ty = ins.ty
        if self.count_ops:
            k = "cast %s->%s" % (sty.name if hasattr(sty, "name") else sty, ty.name)
            self.res.ops[k] = self.res.ops.get(k, 0) + 1
        if isinstance(v, Region):
            v = Ptr(v, 0)
        if isinstance(v, Poison):
            if ty is ir.ptr and isinstance(v.ptr, Ptr):
                env[ins] = v.ptr
            elif ty.is_integer and isinstance(v.ptr, Ptr) and ty.bits >= self.ptr_bits:
                env[ins] = v
            else:
                env[ins] = Poison(v.reason)
            return
        if ty is ir.ptr:
            if isinstance(v, Ptr):
                env[ins] = v
            elif isinstance(v, float):
                env[ins] = Poison("float to pointer")
            else:
                env[ins] = Ptr(None, v & self.pmask)
            return
        if ty is ir.f32 or ty is ir.f64:
            if isinstance(v, Ptr):
                env[ins] = Poison("pointer to float")
                return
            if isinstance(v, int):
                try:
                    r = float(v)
                except OverflowError:
                    r = math.inf
            else:
                r = v
            env[ins] = f32round(r) if ty is ir.f32 else r
            return
        # integer destination
        if isinstance(v, Ptr):
            if v.region is None:
                env[ins] = self.wrap(v.off, ty)
            else:
                env[ins] = Poison("address as integer", ptr=v if ty.bits >= self.ptr_bits else None)
            return
        if isinstance(v, float):
            if v != v or v in (math.inf, -math.inf):
                env[ins] = Poison("float to int of nan/inf")
                return
            t = int(v)  # truncates toward zero
            lo = -(1 << (ty.bits - 1)) if ty.signed else 0
            hi = (1 << (ty.bits - 1)) - 1 if ty.signed else (1 << ty.bits) - 1
            if t < lo or t > hi:
                env[ins] = Poison("float to int out of range")
            else:
                env[ins] = t
            return
        env[ins] = self.wrap(v, ty)

    # ---- memory
    def check(self, p, size, write, what):
        if isinstance(p, Region):
            p = Ptr(p, 0)
        if isinstance(p, Poison):
            raise Undef("%s through poison address (%s)" % (what, p.reason))
        if not isinstance(p, Ptr):
            raise Undef("%s through a non-pointer" % what)
        reg = p.region
        if reg is None:
            raise Undef("%s through null/absolute address %#x" % (what, p.off))
        if not reg.alive:
            raise Undef("%s through dangling pointer into %s" % (what, reg.label))
        if reg.kind == "func":
            raise Undef("%s of function memory" % what)
        if p.off < 0 or p.off + size > len(reg.data):
            raise Undef("%s out of bounds: %s+%d size %d (region %d bytes)" % (what, reg.label, p.off, size, len(reg.data)))
        if write and not reg.writable:
            raise Undef("write to read-only %s" % reg.label)
        return reg, p.off

    def _clear_ptrs(self, reg, off, size):
        if reg.ptrs:
            for o in range(off - self.ptr_size + 1, off + size):
                if o in reg.ptrs:
                    del reg.ptrs[o]
                    # the other bytes of that pointer are now garbage
                    for i in range(max(o, 0), min(o + self.ptr_size, len(reg.data))):
                        if reg.mask[i] == 2:
                            reg.mask[i] = 0

    def _store_ptr(self, reg, off, p):
        self._clear_ptrs(reg, off, self.ptr_size)
        if p.region is None:
            reg.data[off: off + self.ptr_size] = (p.off & self.pmask).to_bytes(self.ptr_size, "little" if self.end == "<" else "big")
            for i in range(off, off + self.ptr_size):
                reg.mask[i] = 1
        else:
            reg.ptrs[off] = p
            for i in range(off, off + self.ptr_size):
                reg.mask[i] = 2
                reg.data[i] = 0

    def _copy(self, dst, doff, src, soff, n):
        if dst is src and doff == soff:
            return
        data = bytes(src.data[soff: soff + n])
        mask = bytes(src.mask[soff: soff + n])
        moved = [(o - soff, p) for o, p in src.ptrs.items() if soff <= o and o + self.ptr_size <= soff + n]
        self._clear_ptrs(dst, doff, n)
        dst.data[doff: doff + n] = data
        dst.mask[doff: doff + n] = mask
        covered = bytearray(n)
        for rel, p in moved:
            dst.ptrs[doff + rel] = p
            for i in range(rel, rel + self.ptr_size):
                covered[i] = 1
        for i in range(n):
            if mask[i] == 2 and not covered[i]:
                dst.mask[doff + i] = 0  # fragment of a pointer

    FMT = {"i8": "b", "u8": "B", "i16": "h", "u16": "H", "i32": "i", "u32": "I", "i64": "q", "u64": "Q",
           "f32": "f", "f64": "d"}

    def x_load(self, env, ins, fr):
        ty = ins.ty
        p = self.val(env, ins.address)
        size = self.ptr_size if ty is ir.ptr else ty.size
        reg, off = self.check(p, size, False, "load")
        mask = reg.mask[off: off + size]
        if ty is ir.ptr:
            if off in reg.ptrs and mask.count(2) == size:
                env[ins] = reg.ptrs[off]
            elif mask.count(1) == size:
                env[ins] = Ptr(None, int.from_bytes(reg.data[off: off + size], "little" if self.end == "<" else "big"))
            else:
                env[ins] = Poison("load of uninitialised or fragmentary pointer bytes")
            return
        if mask.count(1) != size:
            if 0 in mask:
                env[ins] = Poison("load of uninitialised bytes from %s" % reg.label)
            elif ty.is_integer and size == self.ptr_size and off in reg.ptrs:
                env[ins] = Poison("address as integer", ptr=reg.ptrs[off])
            else:
                env[ins] = Poison("load of address bytes")
            return
        env[ins] = struct.unpack(self.end + self.FMT[ty.name], reg.data[off: off + size])[0]

    def x_store(self, env, ins, fr):
        v = self.val(env, ins.value)
        p = self.val(env, ins.address)
        vty = ins.value.ty
        if isinstance(v, Region):  # blob value: copy the storage
            size = len(v.data)
            reg, off = self.check(p, size, True, "store")
            if not v.alive:
                raise Undef("blob store from dead storage")
            self._copy(reg, off, v, 0, size)
            return
        size = self.ptr_size if vty is ir.ptr else vty.size
        reg, off = self.check(p, size, True, "store")
        if isinstance(v, Poison):
            self._clear_ptrs(reg, off, size)
            if isinstance(v.ptr, Ptr) and size == self.ptr_size:
                self._store_ptr(reg, off, v.ptr)
                return
            for i in range(off, off + size):
                reg.mask[i] = 0
            return
        if isinstance(v, Ptr):
            self._store_ptr(reg, off, v)
            return
        self._clear_ptrs(reg, off, size)
        if vty is ir.f32 or vty is ir.f64:
            try:
                reg.data[off: off + size] = struct.pack(self.end + self.FMT[vty.name], v)
            except OverflowError:
                reg.data[off: off + size] = struct.pack(self.end + self.FMT[vty.name], math.copysign(math.inf, v))
        else:
            reg.data[off: off + size] = (v & ((1 << (8 * size)) - 1)).to_bytes(size, "little" if self.end == "<" else "big")
        for i in range(off, off + size):
            reg.mask[i] = 1

    def x_copyblob(self, env, ins, fr):
        d = self.addr(self.val(env, ins.dst))
        s = self.addr(self.val(env, ins.src))
        n = ins.amount
        dreg, doff = self.check(d, n, True, "memcpy destination")
        sreg, soff = self.check(s, n, False, "memcpy source")
        if dreg is sreg and doff != soff and abs(doff - soff) < n:
            raise Undef("overlapping memcpy")
        self._copy(dreg, doff, sreg, soff, n)

    # ---- calls
    def callee(self, env, v):
        if isinstance(v, (ir.SubRoutine, ir.ExternalSubRoutine)):
            if isinstance(v, ir.SubRoutine) or v.name not in self.functions:
                return v if isinstance(v, ir.SubRoutine) else self.fregions[v.name].func
            return self.functions[v.name]
        p = self.val(env, v)
        if isinstance(p, Poison):
            raise Undef("call through poison")
        if not isinstance(p, Ptr) or p.region is None or p.region.kind != "func" or p.off != 0:
            raise Undef("call through a non-function pointer")
        return p.region.func

    def args(self, env, ins, f):
        out = []
        tys = [p.ty for p in f.arguments] if isinstance(f, ir.SubRoutine) else list(f.argument_types)
        if len(tys) != len(ins.arguments):
            raise Undef("call with wrong number of arguments")
        for a, ty in zip(ins.arguments, tys):
            v = self.val(env, a)
            if a.ty is not ty and not (isinstance(ty, ir.BlobDataTyp) and isinstance(a.ty, ir.BlobDataTyp)):
                raise Undef("call argument type mismatch %s vs %s" % (a.ty, ty))
            out.append(v)
        return out

    def x_fcall(self, env, ins, fr):
        f = self.callee(env, ins.callee)
        if isinstance(f, ir.Procedure) or isinstance(f, ir.ExternalProcedure):
            raise Undef("function call of a procedure")
        rty = f.return_ty
        if rty is not ins.ty:
            raise Undef("call result type mismatch")
        env[ins] = self.call(f, self.args(env, ins, f))

    def x_pcall(self, env, ins, fr):
        f = self.callee(env, ins.callee)
        self.call(f, self.args(env, ins, f))

    # ---- branches
    def compare(self, env, ins):
        a = self.val(env, ins.a)
        b = self.val(env, ins.b)
        c = ins.cond
        if isinstance(a, Region):
            a = Ptr(a, 0)
        if isinstance(b, Region):
            b = Ptr(b, 0)
        if isinstance(a, Poison) or isinstance(b, Poison):
            raise Undef("branch on poison (%s)" % (a.reason if isinstance(a, Poison) else b.reason))
        if isinstance(a, Ptr) or isinstance(b, Ptr):
            if not (isinstance(a, Ptr) and isinstance(b, Ptr)):
                raise Undef("comparison of pointer with non-pointer")
            if a.region is b.region:
                x, y = a.off, b.off
            else:
                # distinct objects: only (in)equality is meaningful, and not for one-past pointers
                for p in (a, b):
                    if p.region is None and p.off != 0:
                        raise Undef("comparison of address with absolute number")
                    if p.region is not None and p.region.kind != "func" and not (0 <= p.off < len(p.region.data)):
                        raise Undef("comparison involving an out-of-object pointer")
                if c == "==":
                    return False
                if c == "!=":
                    return True
                raise Undef("relational comparison of unrelated pointers")
        else:
            x, y = a, b
        if c == "==":
            return x == y
        if c == "!=":
            return x != y
        if c == "<":
            return x < y
        if c == ">":
            return x > y
        if c == "<=":
            return x <= y
        if c == ">=":
            return x >= y
        raise Undef("unknown condition")
