"""Native x86-64 execution of raw machine code in throw-away processes (DESIGN 2.5).

Two small C hosts (compiled once per worker with gcc, cached in VERIF_TMP):

imgrun   (C05)  maps the memories of an image linked by ppci at their link
         addresses, then performs a script of calls through a hand-written
         System V AMD64 trampoline (6 integer registers, 8 SSE registers,
         stack words; callee-saved registers are loaded with sentinels and read
         back; rsp is compared), prints rax/rdx/xmm0, the external-call trace
         and memory dumps.  Writable memories are restored to their initial
         contents before every call.  External functions of the image are
         reached through a jump table at a fixed address (JUMP_TABLE): the
         image's stub for external k is ``jmp [JUMP_TABLE + 8k]`` (bytes
         ff 24 25 disp32, see ext_stub_bytes); the host side locates every
         declared argument by the System V classification (6 integer
         registers, 8 SSE registers, stack eightbytes), records them, answers
         like vlib.refinterp.default_external and scrambles every caller-saved
         register before returning.
         A call that dies (signal) or exceeds CPU_LIMIT seconds of *CPU* time
         (ITIMER_VIRTUAL) ends the process; run_image restarts after it.

probe    (C07)  executes ONE encoded instruction between a prologue that
         loads rax..r15 (except rsp), xmm0..15 and the arithmetic flags from a
         state buffer and an epilogue that stores everything back.  rsp points
         into a private stack inside the scratch area (fixed implicit state).
         Memory operands work on a scratch area (SCRATCH, SCRATCH_SIZE bytes,
         refilled with the state's pseudo-random bytes before every probe);
         what the instruction changed in it is reported as (offset, bytes).
         Faults (SIGSEGV/SIGBUS/SIGFPE/SIGILL/SIGTRAP) are caught on an alternate stack,
         reported per probe and the batch goes on; if the process dies anyway
         run_probes bisects the batch.

Nothing here judges anything.  Standard library only (no ppci import).
"""
import os
import struct
import subprocess

JUMP_TABLE = 0x0F000000
CPU_LIMIT = 2

IMGRUN_C = r'''
#define _GNU_SOURCE
#include <stdio.h>
#include <stdlib.h>
#include <string.h>
#include <stdint.h>
#include <sys/mman.h>
#include <sys/time.h>
#include <signal.h>
#include <unistd.h>

struct callctx {
  uint64_t fn;            /* 0 */
  uint64_t ireg[6];       /* 8 */
  uint64_t freg[8];       /* 56 */
  uint64_t nstack;        /* 120 */
  uint64_t stack[40];     /* 128 */
  uint64_t out[3];        /* 448: rax rdx xmm0 */
  uint64_t rsp_before;    /* 472 */
  uint64_t after[7];      /* 480: rbx r12 r13 r14 r15 rbp rsp */
};
uint64_t tramp_rsp, tramp_ctx;
void call_tramp(struct callctx *c);
__asm__(
".intel_syntax noprefix\n"
".text\n"
".globl call_tramp\n"
"call_tramp:\n"
"  push rbp\n  push rbx\n  push r12\n  push r13\n  push r14\n  push r15\n"
"  mov [rip + tramp_rsp], rsp\n"
"  mov [rip + tramp_ctx], rdi\n"
"  mov rax, rdi\n"
"  mov rcx, [rax + 120]\n"
"  test rcx, 1\n"
"  jnz 1f\n"
"  sub rsp, 8\n"
"1:\n"
"  test rcx, rcx\n"
"  jz 3f\n"
"  dec rcx\n"
"  push qword ptr [rax + 128 + rcx*8]\n"
"  jmp 1b\n"
"3:\n"
"  mov [rax + 472], rsp\n"
"  movq xmm0, [rax + 56]\n  movq xmm1, [rax + 64]\n  movq xmm2, [rax + 72]\n  movq xmm3, [rax + 80]\n"
"  movq xmm4, [rax + 88]\n  movq xmm5, [rax + 96]\n  movq xmm6, [rax + 104]\n  movq xmm7, [rax + 112]\n"
"  mov rdi, [rax + 8]\n  mov rsi, [rax + 16]\n  mov rdx, [rax + 24]\n  mov rcx, [rax + 32]\n"
"  mov r8, [rax + 40]\n  mov r9, [rax + 48]\n"
"  mov r11, [rax]\n"
"  movabs rbx, 0x1111111111111b0b\n"
"  movabs r12, 0x2222222222222c12\n"
"  movabs r13, 0x3333333333333c13\n"
"  movabs r14, 0x4444444444444c14\n"
"  movabs r15, 0x5555555555555c15\n"
"  movabs rbp, 0x6666666666666b0e\n"
"  movabs r10, 0x7a7a7a7a7a7a7a10\n"
"  movabs rax, 0x7b7b7b7b7b7b7b00\n"
"  call r11\n"
"  mov r11, [rip + tramp_ctx]\n"
"  mov [r11 + 448], rax\n"
"  mov [r11 + 456], rdx\n"
"  movq [r11 + 464], xmm0\n"
"  mov [r11 + 480], rbx\n  mov [r11 + 488], r12\n  mov [r11 + 496], r13\n  mov [r11 + 504], r14\n"
"  mov [r11 + 512], r15\n  mov [r11 + 520], rbp\n  mov [r11 + 528], rsp\n"
"  mov rsp, [rip + tramp_rsp]\n"
"  pop r15\n  pop r14\n  pop r13\n  pop r12\n  pop rbx\n  pop rbp\n"
"  ret\n"
/* external entry k: remember which, call the C side on an aligned stack, scramble caller-saved state */
".macro EXTENTRY k\n"
"ext_entry_\\k:\n"
"  push rbp\n"
"  mov rbp, rsp\n"
"  and rsp, -16\n"
"  sub rsp, 144\n"
"  mov [rsp + 16], rdi\n  mov [rsp + 24], rsi\n  mov [rsp + 32], rdx\n  mov [rsp + 40], rcx\n"
"  mov [rsp + 48], r8\n  mov [rsp + 56], r9\n"
"  movq [rsp + 64], xmm0\n  movq [rsp + 72], xmm1\n  movq [rsp + 80], xmm2\n  movq [rsp + 88], xmm3\n"
"  movq [rsp + 96], xmm4\n  movq [rsp + 104], xmm5\n  movq [rsp + 112], xmm6\n  movq [rsp + 120], xmm7\n"
"  mov rdi, \\k\n"
"  mov rsi, rsp\n"
"  lea rdx, [rbp + 16]\n"
"  call ext_c\n"
"  movq xmm0, [rsp + 8]\n"
"  mov rsp, rbp\n"
"  pop rbp\n"
"  jmp ext_scramble\n"
".endm\n"
"@EXTENTRIES@"
"ext_scramble:\n"
"  movabs rcx, 0x0c0c0c0c0c0c0c0c\n"
"  movabs rdx, 0x0d0d0d0d0d0d0d0d\n"
"  movabs rsi, 0x0505050505050505\n"
"  movabs rdi, 0x0d1d1d1d1d1d1d1d\n"
"  movabs r8, 0x0808080808080808\n"
"  movabs r9, 0x0909090909090909\n"
"  movabs r10, 0x1010101010101010\n"
"  movabs r11, 0x1111111111111111\n"
"  movq xmm1, rcx\n  movq xmm2, rdx\n  movq xmm3, rsi\n  movq xmm4, rdi\n  movq xmm5, r8\n  movq xmm6, r9\n"
"  movq xmm7, r10\n  movq xmm8, r11\n  movq xmm9, rcx\n  movq xmm10, rdx\n  movq xmm11, rsi\n  movq xmm12, rdi\n"
"  movq xmm13, r8\n  movq xmm14, r9\n  movq xmm15, r10\n"
"  ret\n"
".globl ext_entries\n"
".data\n"
"ext_entries:\n"
"@EXTQUADS@"
".text\n"
".att_syntax prefix\n"
);
extern uint64_t ext_entries[NEXT];

/* kinds: 0 none 1 i8 2 u8 3 i16 4 u16 5 i32 6 u32 7 i64 8 u64 9 f32 10 f64 11 ptr */
#define MAXARGS 12
struct extdecl { char name[64]; int nargs; int argkind[MAXARGS]; int retkind; } exts[NEXT];
static int ext_count;
static char trace[1 << 16];
static size_t trace_len;

static uint64_t narrow(uint64_t v, int kind) {
  switch (kind) {
    case 1: return (uint64_t)(int64_t)(int8_t)v;
    case 2: return (uint8_t)v;
    case 3: return (uint64_t)(int64_t)(int16_t)v;
    case 4: return (uint16_t)v;
    case 5: return (uint64_t)(int64_t)(int32_t)v;
    case 6: return (uint32_t)v;
    case 9: return (uint32_t)v;
    default: return v;
  }
}

/* k = external index; x -> {xmm0 result slot x[1]; rdi..r9 at x[2..7]; xmm0..7 at x[8..15]}; st -> stack arguments.
   Arguments are located by the System V classification of the declared kinds (an unknown kind, 12, stops the
   walk: what follows cannot be located).  Returns rax.  Mirrors vlib.refinterp.default_external. */
uint64_t ext_c(uint64_t k, uint64_t *x, uint64_t *st) {
  struct extdecl *e = &exts[k % NEXT];
  uint64_t acc;
  const char *p;
  int i, ni = 0, nf = 0, ns = 0;
  ext_count++;
  acc = (uint64_t)ext_count * 7 + 3;
  for (p = e->name; *p; p++) acc = (acc * 31 + (unsigned char)*p) & 0xFFFF;
  if (trace_len + 64 * (e->nargs + 2) < sizeof trace) {
    trace_len += snprintf(trace + trace_len, 100, "T %s", e->name);
    for (i = 0; i < e->nargs; i++) {
      int kd = e->argkind[i];
      uint64_t v;
      if (kd == 12) { trace_len += snprintf(trace + trace_len, 40, " ?"); break; }
      if (kd == 9 || kd == 10) v = nf < 8 ? x[8 + nf++] : st[ns++];
      else v = ni < 6 ? x[2 + ni++] : st[ns++];
      v = narrow(v, kd);
      trace_len += snprintf(trace + trace_len, 40, " %016llx", (unsigned long long)v);
      if (kd >= 1 && kd <= 8) acc = (acc * 17 + v) & 0xFFFF;
    }
    trace_len += snprintf(trace + trace_len, 4, "\n");
  }
  x[1] = 0x7f7f7f7f7f7f7f7fULL;
  if (e->retkind == 0) return 0x0a0a0a0a0a0a0a0aULL;
  if (e->retkind == 11) return 0;
  if (e->retkind == 9) { float f = (float)(acc % 97) / 4.0f; uint32_t b; memcpy(&b, &f, 4); x[1] = 0x5e5e5e5e00000000ULL | b; return 0x0a0a0a0a0a0a0a0aULL; }
  if (e->retkind == 10) { double d = (double)(acc % 97) / 4.0; memcpy(&x[1], &d, 8); return 0x0a0a0a0a0a0a0a0aULL; }
  /* integer result: the declared width carries the value; for types up to 32 bits the upper half of rax is noise */
  if (e->retkind >= 7) return acc % 61;
  return (acc % 61) | 0x5a5a5a5a00000000ULL;
}

struct region { uint64_t addr, size; int writable; unsigned char *save; } regions[16];
static int nregions;

static void die(const char *m) { printf("ERR %s\n", m); fflush(stdout); _exit(3); }

static int hexval(int c) { return c <= '9' ? c - '0' : (c | 32) - 'a' + 10; }

int main(int argc, char **argv) {
  FILE *f;
  char *line = NULL;
  size_t cap = 0;
  struct callctx ctx;
  uint64_t *table;
  int i;
  if (argc < 2) die("usage");
  f = fopen(argv[1], "r");
  if (!f) die("script");
  table = mmap((void *)0x0F000000UL, 4096, PROT_READ | PROT_WRITE, MAP_PRIVATE | MAP_ANONYMOUS | MAP_FIXED, -1, 0);
  if (table == MAP_FAILED) die("table");
  for (i = 0; i < NEXT; i++) table[i] = ext_entries[i];
  while (getline(&line, &cap, f) > 0) {
    char op = line[0];
    char *p = line + 1;
    if (op == 'M') {
      unsigned long long addr, size; int w, x;
      void *m;
      if (sscanf(p, "%llx %llx %d %d", &addr, &size, &w, &x) != 4) die("M");
      size = (size + 4095) & ~4095ULL;
      m = mmap((void *)addr, size, PROT_READ | PROT_WRITE | (x ? PROT_EXEC : 0),
               MAP_PRIVATE | MAP_ANONYMOUS | MAP_FIXED, -1, 0);
      if (m == MAP_FAILED) die("mmap");
      regions[nregions].addr = addr; regions[nregions].size = size; regions[nregions].writable = w;
      regions[nregions].save = NULL; nregions++;
    } else if (op == 'W') {
      unsigned long long addr; int n = 0; unsigned char *d;
      if (sscanf(p, "%llx %n", &addr, &n) < 1) die("W");
      p += n; d = (unsigned char *)addr;
      while (p[0] > ' ' && p[1] > ' ') { *d++ = (unsigned char)(hexval(p[0]) * 16 + hexval(p[1])); p += 2; }
    } else if (op == 'E') {
      int k, r, na, n = 0, j; char name[64];
      if (sscanf(p, "%d %63s %d %d %n", &k, name, &r, &na, &n) < 4) die("E");
      p += n;
      if (na > MAXARGS) na = MAXARGS;
      strcpy(exts[k % NEXT].name, name); exts[k % NEXT].retkind = r; exts[k % NEXT].nargs = na;
      for (j = 0; j < na; j++) { int a; if (sscanf(p, "%d %n", &a, &n) < 1) die("Ea"); exts[k % NEXT].argkind[j] = a; p += n; }
    } else if (op == 'S') {
      for (i = 0; i < nregions; i++) if (regions[i].writable) {
        regions[i].save = malloc(regions[i].size);
        memcpy(regions[i].save, (void *)regions[i].addr, regions[i].size);
      } else mprotect((void *)regions[i].addr, regions[i].size, PROT_READ | PROT_EXEC);
    } else if (op == 'C') {
      unsigned long long id, v; int n = 0, k;
      struct itimerval tv;
      memset(&ctx, 0, sizeof ctx);
      if (sscanf(p, "%llu %llx %n", &id, &v, &n) < 2) die("C");
      ctx.fn = v; p += n;
      for (k = 0; k < 6; k++) { if (sscanf(p, "%llx %n", &v, &n) < 1) die("Ci"); ctx.ireg[k] = v; p += n; }
      for (k = 0; k < 8; k++) { if (sscanf(p, "%llx %n", &v, &n) < 1) die("Cf"); ctx.freg[k] = v; p += n; }
      if (sscanf(p, "%llx %n", &v, &n) < 1) die("Cn");
      ctx.nstack = v; p += n;
      if (ctx.nstack > 40) die("nstack");
      for (k = 0; k < (int)ctx.nstack; k++) { if (sscanf(p, "%llx %n", &v, &n) < 1) die("Cs"); ctx.stack[k] = v; p += n; }
      for (i = 0; i < nregions; i++) if (regions[i].save) memcpy((void *)regions[i].addr, regions[i].save, regions[i].size);
      ext_count = 0; trace_len = 0; trace[0] = 0;
      printf("B %llu\n", id); fflush(stdout);
      tv.it_interval.tv_sec = 0; tv.it_interval.tv_usec = 0; tv.it_value.tv_sec = CPU_LIMIT; tv.it_value.tv_usec = 0;
      setitimer(ITIMER_VIRTUAL, &tv, NULL);
      call_tramp(&ctx);
      tv.it_value.tv_sec = 0;
      setitimer(ITIMER_VIRTUAL, &tv, NULL);
      k = ctx.after[0] == 0x1111111111111b0bULL && ctx.after[1] == 0x2222222222222c12ULL &&
          ctx.after[2] == 0x3333333333333c13ULL && ctx.after[3] == 0x4444444444444c14ULL &&
          ctx.after[4] == 0x5555555555555c15ULL && ctx.after[5] == 0x6666666666666b0eULL;
      fputs(trace, stdout);
      printf("R %llu %016llx %016llx %016llx %d %d\n", id, (unsigned long long)ctx.out[0], (unsigned long long)ctx.out[1],
             (unsigned long long)ctx.out[2], k, ctx.after[6] == ctx.rsp_before);
      fflush(stdout);
    } else if (op == 'D') {
      unsigned long long addr, n, j;
      if (sscanf(p, "%llx %llx", &addr, &n) != 2) die("D");
      printf("D %llx ", addr);
      for (j = 0; j < n; j++) printf("%02x", ((unsigned char *)addr)[j]);
      printf("\n"); fflush(stdout);
    }
  }
  printf("END\n");
  fflush(stdout);
  return 0;
}
'''

MAX_EXTERNALS = 64
IMGRUN_C = IMGRUN_C.replace('"@EXTENTRIES@"', "\n".join('"EXTENTRY %d\\n"' % k for k in range(MAX_EXTERNALS)))
IMGRUN_C = IMGRUN_C.replace('"@EXTQUADS@"', "\n".join('"  .quad ext_entry_%d\\n"' % k for k in range(MAX_EXTERNALS)))
IMGRUN_C = "#define NEXT %d\n" % MAX_EXTERNALS + IMGRUN_C

KIND = {"none": 0, "i8": 1, "u8": 2, "i16": 3, "u16": 4, "i32": 5, "u32": 6, "i64": 7, "u64": 8, "f32": 9, "f64": 10,
        "ptr": 11, "blob": 12}

_built = {}


def _tmp():
    return os.environ.get("VERIF_TMP") or os.getcwd()


def _build(name, source, extra=()):
    if name in _built and os.path.exists(_built[name]):
        return _built[name]
    d = _tmp()
    c = os.path.join(d, "%s_%d.c" % (name, os.getpid()))
    exe = os.path.join(d, "%s_%d" % (name, os.getpid()))
    with open(c, "w") as f:
        f.write(source)
    p = subprocess.run(["gcc", "-O1", "-w", "-no-pie", "-DCPU_LIMIT=%d" % CPU_LIMIT] + list(extra) + ["-o", exe, c],
                       capture_output=True, text=True, timeout=300)
    os.unlink(c)
    if p.returncode:
        raise RuntimeError("gcc failed building %s: %s" % (name, p.stderr[-800:]))
    _built[name] = exe
    return exe


def build_imgrun():
    return _build("imgrun", IMGRUN_C)


def ext_stub_bytes(k):
    """Machine code of the image-side stub of external number k: jmp qword ptr [JUMP_TABLE + 8k]."""
    return bytes([0xFF, 0x24, 0x25]) + struct.pack("<I", JUMP_TABLE + 8 * k)


def sysv_classify(kinds, values, noise=0):
    """System V AMD64 classification of scalar arguments.

    kinds: type names (KIND keys); values: python ints (two's complement of any
    width accepted) or floats.  -> (ireg[6], freg[8], stack[]) of 64-bit words.
    Integers narrower than 64 bits are extended to 32 bits according to their
    signedness (what gcc/clang callers do) and the upper 32 bits are filled
    from ``noise`` (the ABI leaves them undefined); f32 sits in the low half of
    its word with noise above."""
    ireg, freg, stack = [], [], []
    hi = (noise & 0xFFFFFFFF) << 32
    for kd, v in zip(kinds, values):
        if kd in ("f32", "f64"):
            if kd == "f32":
                w = struct.unpack("<I", struct.pack("<f", v))[0] | hi
            else:
                w = struct.unpack("<Q", struct.pack("<d", v))[0]
            (freg if len(freg) < 8 else stack).append(w)
            continue
        bits = {"i8": 8, "u8": 8, "i16": 16, "u16": 16, "i32": 32, "u32": 32}.get(kd, 64)
        v = int(v)
        if bits == 64:
            w = v & 0xFFFFFFFFFFFFFFFF
        else:
            v &= (1 << bits) - 1
            if kd[0] == "i" and v >> (bits - 1):
                v -= 1 << bits
            w = (v & 0xFFFFFFFF) | hi
        (ireg if len(ireg) < 6 else stack).append(w)
    ireg += [0x0BAD0BAD0BAD0000 + i for i in range(len(ireg), 6)]
    freg += [0x7FF4DEAD0000F000 + i for i in range(len(freg), 8)]
    return ireg[:6], freg[:8], stack


def image_script(memories, externals, calls):
    """Text of an imgrun script.

    memories: [(addr, size, writable, executable, bytes)]
    externals: [(name, [argument kind names], result kind name)] (index = jump-table slot)
    calls: [{"id": int, "fn": addr, "ireg": [...], "freg": [...], "stack": [...], "dumps": [(addr, n)]}]"""
    out = []
    for addr, size, w, x, data in memories:
        out.append("M %x %x %d %d" % (addr, max(size, len(data), 1), 1 if w else 0, 1 if x else 0))
        for off in range(0, len(data), 2048):
            out.append("W %x %s" % (addr + off, bytes(data[off:off + 2048]).hex()))
    for k, (name, aks, rk) in enumerate(externals):
        out.append("E %d %s %d %d %s" % (k, name, KIND[rk], len(aks), " ".join(str(KIND[a]) for a in aks)))
    out.append("S")
    for c in calls:
        out.append("C %d %x %s %s %x %s" % (c["id"], c["fn"], " ".join("%x" % v for v in c["ireg"]),
                                            " ".join("%x" % v for v in c["freg"]), len(c["stack"]),
                                            " ".join("%x" % v for v in c["stack"])))
        for addr, n in c.get("dumps", ()):
            out.append("D %x %x" % (addr, n))
    return "\n".join(out) + "\n"


def run_image(memories, externals, calls, tag="img", timeout=120):
    """Execute the calls; -> {id: result}.

    result: {"status": "ok", "rax", "rdx", "xmm0" (ints), "callee_saved_ok", "rsp_ok" (bools),
             "trace": [(name, [unsigned 64-bit words of the located arguments, None from an unlocatable one on])],
             "dumps": {addr: bytes}}
          | {"status": "signal", "signal": n}     the call killed the process
          | {"status": "cpu-limit"}               more than CPU_LIMIT s of CPU time inside the call
          | {"status": "harness", "reason": str}"""
    exe = build_imgrun()
    results = {}
    pending = list(calls)
    rounds = 0
    while pending and rounds < len(calls) + 2:
        rounds += 1
        path = os.path.join(_tmp(), "%s_%d.script" % (tag, os.getpid()))
        with open(path, "w") as f:
            f.write(image_script(memories, externals, pending))
        try:
            p = subprocess.run([exe, path], capture_output=True, timeout=timeout, stdin=subprocess.DEVNULL)
            rc, out = p.returncode, p.stdout.decode("ascii", "replace")
        except subprocess.TimeoutExpired as e:
            rc, out = "wall", (e.stdout or b"").decode("ascii", "replace")
        finally:
            try:
                os.unlink(path)
            except OSError:
                pass
        began = None
        cur = None
        trace = []
        for line in out.split("\n"):
            if line.startswith("B "):
                began = int(line[2:])
                trace = []
                cur = None
            elif line.startswith("T "):
                parts = line.split()
                trace.append((parts[1], [None if hx == "?" else int(hx, 16) for hx in parts[2:]]))
            elif line.startswith("R "):
                parts = line.split()
                cur = {"status": "ok", "rax": int(parts[2], 16), "rdx": int(parts[3], 16), "xmm0": int(parts[4], 16),
                       "callee_saved_ok": parts[5] == "1", "rsp_ok": parts[6] == "1", "trace": trace, "dumps": {}}
                results[int(parts[1])] = cur
                began = None
            elif line.startswith("D ") and cur is not None:
                _, a, hx = (line.split() + [""])[:3]
                cur["dumps"][int(a, 16)] = bytes.fromhex(hx)
            elif line.startswith("ERR"):
                for c in pending:
                    results.setdefault(c["id"], {"status": "harness", "reason": line})
                return results
        done = [c for c in pending if c["id"] in results]
        if rc == 0 and len(done) == len(pending):
            break
        if began is None:
            for c in pending:
                results.setdefault(c["id"], {"status": "harness", "reason": "imgrun ended rc=%s outside a call" % (rc,)})
            break
        if rc == "wall":
            results[began] = {"status": "harness", "reason": "wall-clock watchdog"}
        elif rc == -26:  # SIGVTALRM
            results[began] = {"status": "cpu-limit"}
        elif isinstance(rc, int) and rc < 0:
            results[began] = {"status": "signal", "signal": -rc}
        else:
            results[began] = {"status": "harness", "reason": "imgrun exit %s" % (rc,)}
        idx = [i for i, c in enumerate(pending) if c["id"] == began]
        pending = pending[idx[0] + 1:] if idx else []
    return results


# ===========================================================================
# single-instruction probe (C07)

SCRATCH = 0x0D000000
SCRATCH_SIZE = 0x4000
SCRATCH_MID = SCRATCH + 0x2000
PROBE_RSP = SCRATCH + 0x3F00          # private stack pointer (fixed implicit state)
STATE_IN = 0x0E000000
STATE_OUT = 0x0E001000
HOST_AREA = 0x0E002000
CODE_PAGE = 0x0C000000
FLAG_MASK = 0x8D5                     # CF PF AF ZF SF OF
GPR_NAMES = ["rax", "rcx", "rdx", "rbx", "rsp", "rbp", "rsi", "rdi", "r8", "r9", "r10", "r11", "r12", "r13", "r14", "r15"]
RECORD = 16 + 128 + 8 + 256 + 8
RESULT = 8 + 128 + 8 + 256 + 8 + 64 + 8


def _abs_modrm(reg):
    return bytes([((reg & 7) << 3) | 4, 0x25])


def _mov_load(reg, addr):
    return bytes([0x48 | ((reg >> 3) << 2), 0x8B]) + _abs_modrm(reg) + struct.pack("<I", addr)


def _mov_store(reg, addr):
    return bytes([0x48 | ((reg >> 3) << 2), 0x89]) + _abs_modrm(reg) + struct.pack("<I", addr)


def _movdqu(x, addr, store):
    rex = bytes([0x44]) if x >= 8 else b""
    return b"\xF3" + rex + bytes([0x0F, 0x7F if store else 0x6F]) + _abs_modrm(x) + struct.pack("<I", addr)


def probe_prologue():
    code = b""
    for k, reg in enumerate((4, 3, 5, 12, 13, 14, 15)):            # host rsp, rbx, rbp, r12..r15
        code += _mov_store(reg, HOST_AREA + 8 * k)
    code += b"\xFF\x34\x25" + struct.pack("<I", STATE_IN + 128) + b"\x9D"      # push [flags]; popfq
    for x in range(16):
        code += _movdqu(x, STATE_IN + 256 + 16 * x, False)
    for reg in range(16):
        if reg != 4:
            code += _mov_load(reg, STATE_IN + 8 * reg)
    code += _mov_load(4, STATE_IN + 8 * 4)
    return code


def probe_epilogue():
    code = b""
    for reg in range(16):
        code += _mov_store(reg, STATE_OUT + 8 * reg)
    code += _mov_load(4, HOST_AREA)
    code += b"\x9C" + b"\x8F\x04\x25" + struct.pack("<I", STATE_OUT + 128)     # pushfq; pop [flags]
    for x in range(16):
        code += _movdqu(x, STATE_OUT + 256 + 16 * x, True)
    for k, reg in enumerate((4, 3, 5, 12, 13, 14, 15)):
        if reg != 4:
            code += _mov_load(reg, HOST_AREA + 8 * k)
    code += b"\xFC\xC3"                                                        # cld; ret
    return code


PROBE_C = r'''
#define _GNU_SOURCE
#include <stdio.h>
#include <stdlib.h>
#include <string.h>
#include <stdint.h>
#include <sys/mman.h>
#include <signal.h>
#include <setjmp.h>
#include <unistd.h>

#define SCRATCH 0x0D000000UL
#define SCRATCH_SIZE 0x4000UL
#define STATE_IN 0x0E000000UL
#define STATE_OUT 0x0E001000UL
#define CODE_PAGE 0x0C000000UL

static sigjmp_buf env;
static void on_fault(int sig) { siglongjmp(env, sig); }

static void *map(unsigned long a, unsigned long n, int prot) {
  void *p = mmap((void *)a, n, prot, MAP_PRIVATE | MAP_ANONYMOUS | MAP_FIXED, -1, 0);
  if (p == MAP_FAILED) { perror("mmap"); _exit(3); }
  return p;
}

static unsigned char shadow[SCRATCH_SIZE];
static uint64_t shadow_seed = 0;
static int shadow_valid = 0;

static void fill(uint64_t seed) {
  uint64_t x = seed * 0x9E3779B97F4A7C15ULL + 0x1234567ULL, *p = (uint64_t *)shadow;
  unsigned long i;
  if (shadow_valid && shadow_seed == seed) return;
  for (i = 0; i < SCRATCH_SIZE / 8; i++) { x ^= x << 13; x ^= x >> 7; x ^= x << 17; p[i] = x; }
  shadow_seed = seed; shadow_valid = 1;
}

int main(int argc, char **argv) {
  FILE *f;
  unsigned char hdr[8], rec[RECORD], *pro, *epi, *code, *scratch, res[RESULT];
  uint32_t npro, nepi;
  stack_t ss;
  struct sigaction sa;
  int sigs[] = {SIGSEGV, SIGBUS, SIGFPE, SIGILL, SIGTRAP}, i;
  if (argc < 2 || !(f = fopen(argv[1], "rb"))) return 3;
  if (fread(hdr, 1, 8, f) != 8) return 3;
  memcpy(&npro, hdr, 4); memcpy(&nepi, hdr + 4, 4);
  pro = malloc(npro); epi = malloc(nepi);
  if (fread(pro, 1, npro, f) != npro || fread(epi, 1, nepi, f) != nepi) return 3;
  scratch = map(SCRATCH, SCRATCH_SIZE, PROT_READ | PROT_WRITE);
  map(STATE_IN, 0x3000, PROT_READ | PROT_WRITE);
  code = map(CODE_PAGE, 0x2000, PROT_READ | PROT_WRITE | PROT_EXEC);
  ss.ss_sp = malloc(1 << 16); ss.ss_size = 1 << 16; ss.ss_flags = 0;
  sigaltstack(&ss, NULL);
  memset(&sa, 0, sizeof sa);
  sa.sa_handler = on_fault; sa.sa_flags = SA_ONSTACK | SA_NODEFER;
  for (i = 0; i < 5; i++) sigaction(sigs[i], &sa, NULL);
  while (fread(rec, 1, RECORD, f) == RECORD) {
    unsigned n = rec[0], lo, hi;
    uint64_t seed, h = 1469598103934665603ULL;
    volatile int fault;
    memcpy(&seed, rec + 16 + 128 + 8 + 256, 8);
    fill(seed);
    memcpy(scratch, shadow, SCRATCH_SIZE);
    memcpy((void *)STATE_IN, rec + 16, 128 + 8);
    memcpy((void *)(STATE_IN + 256), rec + 16 + 136, 256);
    memset((void *)STATE_OUT, 0xEE, 512);
    if (memcmp(code + npro, rec + 1, n) != 0 || memcmp(code + npro + n, epi, nepi) != 0 || code[0] != pro[0]) {
      memcpy(code, pro, npro);
      memcpy(code + npro, rec + 1, n);
      memcpy(code + npro + n, epi, nepi);
    }
    fault = sigsetjmp(env, 1);
    if (fault == 0) ((void (*)(void))code)();
    memset(res, 0, RESULT);
    memcpy(res, (const void *)&fault, 4);
    memcpy(res + 8, (void *)STATE_OUT, 136);
    memcpy(res + 8 + 136, (void *)(STATE_OUT + 256), 256);
    lo = SCRATCH_SIZE;
    if (memcmp(scratch, shadow, SCRATCH_SIZE) != 0)
      for (lo = 0; lo < SCRATCH_SIZE && scratch[lo] == shadow[lo]; lo++) ;
    if (lo < SCRATCH_SIZE) {
      unsigned k, cnt;
      for (hi = SCRATCH_SIZE - 1; scratch[hi] == shadow[hi]; hi--) ;
      cnt = hi - lo + 1;
      memcpy(res + 8 + 136 + 256, &lo, 4);
      memcpy(res + 8 + 136 + 256 + 4, &cnt, 4);
      memcpy(res + 8 + 136 + 256 + 8, scratch + lo, cnt < 64 ? cnt : 64);
      for (k = lo; k <= hi; k++) { h ^= scratch[k]; h *= 1099511628211ULL; }
    }
    memcpy(res + 8 + 136 + 256 + 8 + 64, &h, 8);
    fwrite(res, 1, RESULT, stdout);
  }
  fflush(stdout);
  return 0;
}
'''


def build_probe():
    return _build("x86probe", PROBE_C, ["-DRECORD=%d" % RECORD, "-DRESULT=%d" % RESULT])


def pack_probe(p):
    code = bytes(p["code"])
    if not 0 < len(code) <= 15:
        raise ValueError("instruction length %d" % len(code))
    gpr = list(p["gpr"])
    gpr[4] = PROBE_RSP
    flags = 0x202 | (p.get("flags", 0) & FLAG_MASK)
    out = bytes([len(code)]) + code.ljust(15, b"\x90")
    out += struct.pack("<16Q", *[g & 0xFFFFFFFFFFFFFFFF for g in gpr]) + struct.pack("<Q", flags)
    for x in p["xmm"]:
        out += (x & ((1 << 128) - 1)).to_bytes(16, "little")
    out += struct.pack("<Q", p.get("seed", 0) & 0xFFFFFFFFFFFFFFFF)
    return out


def unpack_result(b):
    fault = struct.unpack_from("<i", b, 0)[0]
    gpr = list(struct.unpack_from("<16Q", b, 8))
    flags = struct.unpack_from("<Q", b, 8 + 128)[0]
    xmm = [int.from_bytes(b[8 + 136 + 16 * i: 8 + 136 + 16 * i + 16], "little") for i in range(16)]
    lo, cnt = struct.unpack_from("<II", b, 8 + 136 + 256)
    data = b[8 + 136 + 256 + 8: 8 + 136 + 256 + 8 + min(cnt, 64)]
    h = struct.unpack_from("<Q", b, 8 + 136 + 256 + 8 + 64)[0]
    return {"fault": fault, "gpr": gpr, "flags": flags & FLAG_MASK, "xmm": xmm,
            "mem": (lo, cnt, bytes(data), h) if cnt else None}


def run_probes(probes, tag="probe", timeout=120):
    """Execute probes (dicts: code bytes, gpr[16], xmm[16], flags, seed) -> list of results in order.

    result: {"fault": 0 | signal number, "gpr": [16], "flags", "xmm": [16], "mem": None | (offset of the first
    changed scratch byte, length of the changed span, first 64 bytes of the span, hash of the span)};
    {"fault": -1} if the probe killed the host process even when run alone (or the watchdog fired)."""
    exe = build_probe()
    header = None
    results = [None] * len(probes)

    def run(idxs):
        nonlocal header
        if header is None:
            pro, epi = probe_prologue(), probe_epilogue()
            header = struct.pack("<II", len(pro), len(epi)) + pro + epi
        path = os.path.join(_tmp(), "%s_%d.bin" % (tag, os.getpid()))
        with open(path, "wb") as f:
            f.write(header)
            for i in idxs:
                f.write(pack_probe(probes[i]))
        try:
            p = subprocess.run([exe, path], capture_output=True, timeout=timeout, stdin=subprocess.DEVNULL)
            out, ok = p.stdout, p.returncode == 0
        except subprocess.TimeoutExpired as e:
            out, ok = e.stdout or b"", False
        finally:
            try:
                os.unlink(path)
            except OSError:
                pass
        n = len(out) // RESULT
        for k in range(min(n, len(idxs))):
            results[idxs[k]] = unpack_result(out[k * RESULT:(k + 1) * RESULT])
        if ok and n == len(idxs):
            return
        rest = idxs[n:]
        if not rest:
            return
        if len(rest) == 1 or n == 0 and len(idxs) == 1:
            results[rest[0]] = {"fault": -1}
            return
        # the probe after the last answered one killed the process: isolate it, continue behind it
        results[rest[0]] = {"fault": -1}
        if len(rest) > 1:
            run(rest[1:])

    if probes:
        run(list(range(len(probes))))
    return results
