"""Representable range of integer operands, established from the reference decoder (DESIGN C10 "O").

For an integer operand slot (instruction class + path through constructor alternatives) the set
of values that ppci encodes AND the reference decoder reads back as the same number is modelled
as  { v : lo <= v <= hi, v % step == 0 }  and found by probing:

  * step: smallest s in (1, 2, 4, 8, 16) such that s, 2s, 3s (those ppci accepts) read back
    unchanged - scaled operands (word offsets) have s > 1;
  * hi:  largest s*(2^k - 1) that reads back unchanged (k <= 33);
  * lo:  most negative -s*2^k that reads back unchanged, else 0 (unsigned field).

The ppci field's own ``signed`` flag is NOT consulted (it defaults to False even on signed
immediates).  Probing instances use a template assignment with every other integer operand 0
(fallbacks 4, 16, 1 when the all-zero template is not decodable, e.g. reserved encodings) and
find "their" operand in the reference's operand list by position: the probe value is the only
non-zero integer printed.  Used by C08 (draw operands only where printed == decoded can be
demanded) and C10 (judge acceptance outside / read-back inside the range).
"""
import copy

from vlib import isaenum, refdis

STEPS = (1, 2, 4, 8, 16)
MAXK = 33


def get_at(assignment, path):
    """path: [arg index, "altN", arg index, ...] relative to the class (isaenum fact path without the key)."""
    node = assignment
    cur = None
    for p in path:
        if isinstance(p, int):
            cur = node[p]
        else:  # "altN": descend into the chosen alternative's args
            node = cur["args"]
    return cur


def set_at(assignment, path, value):
    node = assignment
    for i, p in enumerate(path):
        if isinstance(p, int):
            if i == len(path) - 1:
                node[p] = value
                return
            cur = node[p]
        else:
            node = cur["args"]


def int_paths(cls, assignment, prefix=()):
    """All integer-operand paths present in an assignment (follows the chosen alternatives)."""
    out = []
    for i, (op, a) in enumerate(zip(cls.syntax.formal_arguments, assignment)):
        k = isaenum.operand_kind(op)
        if k == "int":
            out.append(prefix + (i,))
        elif k == "alt":
            sub = op._cls[a["alt"]]
            out.extend(int_paths(sub, a["args"], prefix + (i, "alt%d" % a["alt"])))
    return out


def labels_of(cls, assignment, out=None):
    out = set() if out is None else out
    for op, a in zip(cls.syntax.formal_arguments, assignment):
        k = isaenum.operand_kind(op)
        if k == "str":
            out.add(a)
        elif k == "alt":
            labels_of(op._cls[a["alt"]], a["args"], out)
    return out


class Slot:
    def __init__(self, ci, path, template):
        self.ci = ci
        self.path = tuple(path)
        self.template = template      # assignment with all ints 0
        self.candidates = [template]  # alternative template assignments (other registers / alternatives)
        self.step = None
        self.lo = 0
        self.hi = 0
        self.neutral = 0
        self.status = "unprobed"      # ok | no-identity | unprobeable
        self.detail = None
        self.accepts = {}             # probe value -> bool (ppci accepted)
        self.reads = {}               # probe value -> value the reference printed (or None)
        self.bit_holes = []           # operand bits that are accepted but lost although a higher bit reads back

    def key(self):
        return (self.ci.key,) + self.path

    def contains(self, v):
        return self.status == "ok" and self.lo <= v <= self.hi and v % self.step == 0

    def boundary(self):
        s = self.step or 1
        vals = {0, s, 2 * s, self.hi, self.hi - s, self.lo, self.lo + s, -s if self.lo < 0 else 0}
        half = self.hi // 2
        vals.add(half - half % s)
        return sorted(v for v in vals if self.contains(v))

    def as_json(self):
        return {"class": self.ci.key, "path": list(self.path), "status": self.status, "step": self.step,
                "lo": self.lo, "hi": self.hi, "detail": self.detail}


def zeroed(cls, assignment, value=0):
    a = copy.deepcopy(assignment)
    for p in int_paths(cls, a):
        set_at(a, p, value)
    return a


class Prober:
    """Batches probe instances of many slots into few reference-decoder runs."""

    def __init__(self, isa, workdir=None):
        self.isa = isa
        self.workdir = workdir
        self.decoder_runs = 0
        self.probe_instances = 0

    def _observe(self, jobs):
        """jobs: [(slot, assignment, value)] -> [(accepted, read_value|None, note)]"""
        built = []
        for slot, a, v in jobs:
            try:
                obj = isaenum.build(self.isa, slot.ci.cls, a)
                text = str(obj)
                data = bytes(isaenum.build(self.isa, slot.ci.cls, a).encode())
                built.append((text, data, labels_of(slot.ci.cls, a)))
            except BaseException as e:  # rejected by ppci
                built.append(None)
        chunks = [b[1] for b in built if b is not None and b[1]]
        dec = iter(refdis.decode(self.isa, chunks, self.workdir)) if chunks else iter(())
        self.decoder_runs += 1 if chunks else 0
        self.probe_instances += len(chunks)
        out = []
        for (slot, a, v), b in zip(jobs, built):
            if b is None:
                out.append((False, None, "rejected"))
                continue
            if not b[1]:
                out.append((True, None, "empty"))
                continue
            d = next(dec)
            if d.status != "ok":
                out.append((True, None, d.status))
                continue
            p = refdis.norm_ppci(self.isa, b[0], b[2], slot.ci.mnemonic)
            r = refdis.norm_ref(self.isa, d.text)
            if p is None or r is None:
                out.append((True, None, "unparsed"))
                continue
            m, atoms, _ = refdis.rewrite(self.isa, *p)
            m, atoms = refdis.canon(self.isa, m, atoms)
            r = refdis.canon(self.isa, r[0], r[1], ref=True)
            if v == "template":
                ok, det = refdis.same(self.isa, (m, atoms), r)
                out.append((True, 0 if ok else None, det))
                continue
            idx = [i for i, x in enumerate(atoms) if isinstance(x, int) and not isinstance(x, bool) and x == v]
            if len(idx) != 1 or len(atoms) != len(r[1]) or m != r[0]:
                out.append((True, None, "unlocated"))
                continue
            y = r[1][idx[0]]
            out.append((True, y if isinstance(y, int) else None, None))
        return out

    def probe(self, slots):
        # 1. a decodable template per slot (all other ints neutral); several candidate assignments
        pending = list(slots)
        for cand in range(6):
            for neutral in (0, 4, 16, 1):
                if not pending:
                    break
                jobs = []
                trying = []
                for s in pending:
                    if cand >= len(s.candidates):
                        continue
                    a = zeroed(s.ci.cls, s.candidates[cand], neutral)
                    jobs.append((s, a, "template"))
                    trying.append(s)
                if not jobs:
                    break
                res = self._observe(jobs)
                for s, (acc, val, note), job in zip(trying, res, jobs):
                    if acc and val == 0:
                        s.neutral = neutral
                        s.template = job[1]
                        pending.remove(s)
                    elif s.detail is None or note != "rejected":
                        s.detail = note
        for s in pending:
            s.status = "unprobeable"
        live = [s for s in slots if s.status != "unprobeable"]
        # 2. step: which of 1, 2, 4, 8, 16 reads back unchanged
        jobs = []
        for s in live:
            vals = set()
            for st in STEPS:
                vals.update((st, 2 * st, 3 * st))
            for v in sorted(vals):
                jobs.append((s, self._with(s, v), v))
        self._run(jobs)
        for s in live:
            self._fit_step(s)
        # 3. extent for the chosen step, and every single operand bit 2^k (k <= 20): a bit that does not read
        #    back although a higher one does is a hole in the field mapping, not a range limit
        jobs = []
        for s in live:
            if s.status != "ok":
                continue
            for k in range(1, MAXK + 1):
                for v in (s.step * ((1 << k) - 1), -s.step * (1 << (k - 1))):
                    if v not in s.accepts:
                        jobs.append((s, self._with(s, v), v))
            for k in range(0, 21):
                if (1 << k) not in s.accepts:
                    jobs.append((s, self._with(s, 1 << k), 1 << k))
        self._run(jobs)
        for s in live:
            if s.status == "ok":
                self._fit_extent(s)
        return slots

    @staticmethod
    def _with(s, v):
        a = copy.deepcopy(s.template)
        set_at(a, s.path, v)
        return a

    def _run(self, jobs, batch=4000):
        for i in range(0, len(jobs), batch):
            part = jobs[i:i + batch]
            for (s, a, v), (acc, val, note) in zip(part, self._observe(part)):
                s.accepts[v] = acc
                s.reads[v] = val

    @staticmethod
    def _fit_step(s):
        def rt(v):
            return s.accepts.get(v) and s.reads.get(v) == v

        for st in STEPS:
            acc = [v for v in (st, 2 * st, 3 * st) if s.accepts.get(v)]
            if s.accepts.get(st) and all(rt(v) for v in acc):
                s.step = st
                s.status = "ok"
                return
        if not any(s.accepts.get(v) for v in s.accepts):
            s.status = "only-neutral"     # ppci accepts no positive probe value at all
            s.step = 1
            return
        s.status = "no-identity"
        bad = [(v, s.reads.get(v)) for v in (1, 2, 3, 4, 8, 16) if s.accepts.get(v)]
        s.detail = "accepted values read back as %s" % (bad[:4],)

    @staticmethod
    def _fit_extent(s):
        def rt(v):
            return s.accepts.get(v) and s.reads.get(v) == v

        step = s.step
        hi = 0
        for k in range(1, MAXK + 1):
            v = step * ((1 << k) - 1)
            if rt(v):
                hi = v
            else:
                break
        lo = 0
        for k in range(1, MAXK + 1):
            v = -step * (1 << (k - 1))
            if rt(v):
                lo = v
            else:
                break
        s.lo, s.hi = lo, hi
        good = [k for k in range(0, 21) if rt(1 << k)]
        if good:
            s.bit_holes = [k for k in range(min(good), max(good)) if k not in good and s.accepts.get(1 << k)]
