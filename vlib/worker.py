import sys

from vlib.core import worker_main

if __name__ == "__main__":
    worker_main(sys.argv[1:])
