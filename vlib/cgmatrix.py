"""Systematic matrix of tiny IR functions for code generation (DESIGN C29 'systematic matrix').

A *cell* is a json-able dict that names one tiny function:

  {"k": "binop", "op": "+", "ty": "i32", "a": <src>, "b": <src>, "use": <consumer>}
  {"k": "unop",  "op": "-", "ty": "u8",  "a": <src>, "use": ...}
  {"k": "cmp",   "op": "<", "ty": "i64", "a": <src>, "b": <src>}
  {"k": "cast",  "ty": "i8", "to": "f32", "a": <src>, "use": ...}
  {"k": "mem",   "ty": "i16", "addr": local|global|param|param+const|param+reg|bigframe, "dir": load|store}
  {"k": "args",  "ty": "i16", "n": 9, "side": caller|callee}     (every argument position)
  {"k": "misc",  "what": ...}                                   (phi, undefined, blobs, indirect call ...)

<src> in SOURCES: parameter, constant zero/small/large/negative, load from a
local, load from a global, result of another operation.
<consumer> in CONSUMERS: return, store, compare, call argument.

target_types(arch) reads the supported value types off ``arch.info.value_classes``.
features(module) scans the IR that is handed to the code generator and returns
the set of (construct, type) features; avoid switches of known findings are
fnmatch patterns over these features (decided on the *input* of ir_to_object,
never on its result).
"""
import fnmatch

from ppci import ir

SOURCES = ["param", "c_zero", "c_small", "c_large", "c_neg", "c_min", "local", "global", "op"]
CONSUMERS = ["ret", "store", "cmp", "arg"]
INT_BINOPS = ["+", "-", "*", "/", "%", "|", "&", "^", "<<", ">>"]
FLOAT_BINOPS = ["+", "-", "*", "/"]
CONDS = ["==", "!=", "<", ">", "<=", ">="]
ALL_TYPES = ["i8", "u8", "i16", "u16", "i32", "u32", "i64", "u64", "f32", "f64"]


def T(name):
    return ir.ptr if name == "ptr" else ir.get_ty(name)


def target_types(arch):
    """Names of the value types the target maps to a register class (+ 'ptr')."""
    vc = arch.info.value_classes
    out = [t for t in ALL_TYPES if ir.get_ty(t) in vc]
    if ir.ptr in vc:
        out.append("ptr")
    return out


def const_value(kind, ty):
    if ty is ir.ptr:
        return {"c_zero": 0, "c_small": 4, "c_large": 30000, "c_neg": 1, "c_min": 8}[kind]
    if ty.is_integer:
        bits = ty.bits
        if kind == "c_zero":
            return 0
        if kind == "c_small":
            return 5
        if kind == "c_large":
            v = 0x123456789ABCDEF0 >> (64 - bits)
            return v if not ty.signed else v & ((1 << (bits - 1)) - 1)
        if kind == "c_min":
            return -(1 << (bits - 1)) + 1 if ty.signed else (1 << bits) - 1
        if ty.signed:
            return -3
        return (1 << bits) - 3
    return {"c_zero": 0.0, "c_small": 2.5, "c_large": 1e30, "c_neg": -1.5, "c_min": -1e30}[kind]


class FB:
    """Builder of one tiny function inside a shared module."""

    def __init__(self, mb, name, ret):
        self.mb = mb
        self.name = name
        self.ret = ret
        self.f = ir.Function(name, ir.Binding.GLOBAL, ret) if ret is not None else ir.Procedure(name, ir.Binding.GLOBAL)
        mb.m.add_function(self.f)
        self.n = 0
        self.cur = self.block("entry")
        self.f.entry = self.cur
        self.np = 0

    def nm(self, base):
        self.n += 1
        return "%s%d" % (base, self.n)

    def block(self, base):
        b = ir.Block(self.nm(self.name + "_" + base))
        self.f.add_block(b)
        return b

    def emit(self, ins):
        self.cur.add_instruction(ins)
        return ins

    def param(self, ty):
        p = ir.Parameter("p%d" % self.np, ty)
        self.np += 1
        self.f.add_parameter(p)
        return p

    def const(self, ty, v):
        return self.emit(ir.Const(v, self.nm("c"), ty))

    def local(self, ty, size=None):
        size = size or self.mb.size(ty)
        a = self.emit(ir.Alloc(self.nm("al"), size, min(size, 8) if size in (1, 2, 4, 8) else 4))
        return self.emit(ir.AddressOf(a, self.nm("ad")))

    def src(self, kind, ty):
        if kind == "param":
            return self.param(ty)
        if kind.startswith("c_"):
            return self.const(ty, const_value(kind, ty))
        if kind == "local":
            ad = self.local(ty)
            self.emit(ir.Store(self.param(ty), ad))
            return self.emit(ir.Load(ad, self.nm("ld"), ty))
        if kind == "global":
            return self.emit(ir.Load(self.mb.gvar(ty), self.nm("gl"), ty))
        if kind == "op":
            return self.emit(ir.Binop(self.param(ty), "+", self.param(ty), self.nm("o"), ty))
        raise ValueError(kind)

    def consume(self, v, use):
        ty = v.ty
        if use == "ret":
            self.emit(ir.Return(v))
        elif use == "store":
            self.emit(ir.Store(v, self.mb.gvar(ty)))
            self.emit(ir.Exit())
        elif use == "cmp":
            self.branch(v, "==", self.param(ty))
        elif use == "arg":
            self.emit(ir.ProcedureCall(self.mb.ext_use(ty), [v]))
            self.emit(ir.Exit())
        else:
            raise ValueError(use)

    def branch(self, a, cond, b):
        yes, no = self.block("yes"), self.block("no")
        self.emit(ir.CJump(a, cond, b, yes, no))
        self.cur = yes
        self.emit(ir.ProcedureCall(self.mb.ext_mark(), []))
        self.emit(ir.Return(self.const(self.ret, 1)) if self.ret is not None else ir.Exit())
        self.cur = no
        self.emit(ir.Return(self.const(self.ret, 0)) if self.ret is not None else ir.Exit())


class ModuleBuilder:
    """One module holding many cells (one function per cell)."""

    def __init__(self, ptr_size, name="cgm"):
        self.m = ir.Module(name)
        self.ptr_size = ptr_size
        self._g = {}
        self._ext = {}
        self.count = 0
        self.names = {}

    def size(self, ty):
        return self.ptr_size if ty is ir.ptr else ty.size

    def gvar(self, ty):
        key = "ptr" if ty is ir.ptr else ty.name
        if key not in self._g:
            s = self.size(ty)
            v = ir.Variable("g_" + key, ir.Binding.GLOBAL, s, s, value=None)
            self.m.add_variable(v)
            self._g[key] = v
        return self._g[key]

    def gblob(self, size):
        key = "blob%d" % size
        if key not in self._g:
            v = ir.Variable("g_" + key, ir.Binding.GLOBAL, size, 4, value=None)
            self.m.add_variable(v)
            self._g[key] = v
        return self._g[key]

    def ext_use(self, ty):
        key = "use_" + ("ptr" if ty is ir.ptr else ty.name)
        if key not in self._ext:
            e = ir.ExternalProcedure("ext_" + key, [ty])
            self.m.add_external(e)
            self._ext[key] = e
        return self._ext[key]

    def ext_mark(self):
        if "mark" not in self._ext:
            e = ir.ExternalProcedure("ext_mark", [])
            self.m.add_external(e)
            self._ext["mark"] = e
        return self._ext["mark"]

    def ext_sig(self, name, ptys, ret=None):
        if name not in self._ext:
            e = ir.ExternalFunction(name, ptys, ret) if ret is not None else ir.ExternalProcedure(name, ptys)
            self.m.add_external(e)
            self._ext[name] = e
        return self._ext[name]

    def add(self, cell):
        name = "f%d" % self.count
        self.count += 1
        self.names[name] = cell
        build_cell(self, name, cell)
        return name


def build_cell(mb, name, c):
    k = c["k"]
    if k == "binop":
        ty = T(c["ty"])
        fb = FB(mb, name, ty if c["use"] == "ret" else None)
        a = fb.src(c["a"], ty)
        b = fb.src(c["b"], ty)
        v = fb.emit(ir.Binop(a, c["op"], b, fb.nm("r"), ty))
        fb.consume(v, c["use"])
    elif k == "unop":
        ty = T(c["ty"])
        fb = FB(mb, name, ty if c["use"] == "ret" else None)
        a = fb.src(c["a"], ty)
        v = fb.emit(ir.Unop(c["op"], a, fb.nm("r"), ty))
        fb.consume(v, c["use"])
    elif k == "cmp":
        ty = T(c["ty"])
        fb = FB(mb, name, None)
        a = fb.src(c["a"], ty)
        b = fb.src(c["b"], ty)
        fb.branch(a, c["op"], b)
    elif k == "cast":
        ty, to = T(c["ty"]), T(c["to"])
        fb = FB(mb, name, to if c["use"] == "ret" else None)
        a = fb.src(c["a"], ty)
        v = fb.emit(ir.Cast(a, fb.nm("r"), to))
        fb.consume(v, c["use"])
    elif k == "mem":
        build_mem(mb, name, c)
    elif k == "args":
        build_args(mb, name, c)
    elif k == "misc":
        build_misc(mb, name, c)
    else:
        raise ValueError(k)


def build_mem(mb, name, c):
    ty = T(c["ty"])
    load = c["dir"] == "load"
    fb = FB(mb, name, ty if load else None)
    kind = c["addr"]
    if kind == "local":
        addr = fb.local(ty)
        if load:
            fb.emit(ir.Store(fb.param(ty), addr))
    elif kind == "global":
        addr = mb.gvar(ty)
    elif kind == "param":
        addr = fb.param(ir.ptr)
    elif kind == "param+const":
        off = fb.const(ir.ptr, c.get("off", 8))
        addr = fb.emit(ir.Binop(fb.param(ir.ptr), "+", off, fb.nm("pa"), ir.ptr))
    elif kind == "param+reg":
        addr = fb.emit(ir.Binop(fb.param(ir.ptr), "+", fb.param(ir.ptr), fb.nm("pa"), ir.ptr))
    elif kind == "global+const":
        off = fb.const(ir.ptr, c.get("off", 8))
        addr = fb.emit(ir.Binop(mb.gblob(64), "+", off, fb.nm("pa"), ir.ptr))
    elif kind == "bigframe":
        # a large frame: the accessed cell is far away from the frame pointer
        big = fb.local(None, size=c.get("frame", 5000))
        addr = fb.local(ty)
        fb.emit(ir.Store(fb.param(ty), addr))
        fb.emit(ir.ProcedureCall(mb.ext_use(ir.ptr), [big]))
    else:
        raise ValueError(kind)
    if load:
        fb.emit(ir.Return(fb.emit(ir.Load(addr, fb.nm("v"), ty))))
    else:
        src = c.get("val", "param")
        fb.emit(ir.Store(fb.src(src, ty), addr))
        fb.emit(ir.Exit())


def build_args(mb, name, c):
    """Every argument position: n parameters/arguments of one type (or the
    probed type at the last position behind native-int arguments)."""
    ty = T(c["ty"])
    n = c["n"]
    lead = T(c.get("lead", c["ty"]))
    ptys = [lead] * (n - 1) + [ty]
    if c["side"] == "callee":
        fb = FB(mb, name, ty)
        ps = [fb.param(t) for t in ptys]
        fb.emit(ir.Return(ps[-1]))
    elif c["side"] == "caller":
        # the caller takes no parameters itself (callee-side defects must not mask caller-side ones)
        fb = FB(mb, name, None)
        ps = [fb.emit(ir.Load(mb.gvar(t), fb.nm("a"), t)) for t in ptys]
        ext = mb.ext_sig("ext_args_%s_%s_%d" % (c.get("lead", c["ty"]), c["ty"], n), ptys)
        fb.emit(ir.ProcedureCall(ext, ps))
        fb.emit(ir.Exit())
    elif c["side"] == "result":
        fb = FB(mb, name, ty)
        ext = mb.ext_sig("ext_res_%s" % c["ty"], [], ty)
        v = fb.emit(ir.FunctionCall(ext, [], fb.nm("rv"), ty))
        fb.emit(ir.Return(v))
    else:
        raise ValueError(c["side"])


def build_misc(mb, name, c):
    what = c["what"]
    if what == "phi":
        ty = T(c["ty"])
        fb = FB(mb, name, ty)
        a, b = fb.param(ty), fb.param(ty)
        yes, no, join = fb.block("yes"), fb.block("no"), fb.block("join")
        fb.emit(ir.CJump(a, "<", b, yes, no))
        fb.cur = yes
        x = fb.emit(ir.Binop(a, "+", b, fb.nm("x"), ty))
        fb.emit(ir.Jump(join))
        fb.cur = no
        y = fb.const(ty, const_value("c_small", ty))
        fb.emit(ir.Jump(join))
        fb.cur = join
        phi = fb.emit(ir.Phi(fb.nm("phi"), ty))
        phi.set_incoming(yes, x)
        phi.set_incoming(no, y)
        fb.emit(ir.Return(phi))
    elif what == "loop":
        ty = T(c["ty"])
        fb = FB(mb, name, ty)
        n = fb.param(ty)
        zero = fb.const(ty, const_value("c_zero", ty))
        one = fb.const(ty, 1 if ty is ir.ptr or ty.is_integer else 1.0)
        entry = fb.cur
        head, body, out = fb.block("head"), fb.block("body"), fb.block("out")
        fb.emit(ir.Jump(head))
        fb.cur = head
        i = fb.emit(ir.Phi(fb.nm("i"), ty))
        acc = fb.emit(ir.Phi(fb.nm("acc"), ty))
        fb.emit(ir.CJump(i, "<", n, body, out))
        fb.cur = body
        acc2 = fb.emit(ir.Binop(acc, "+", i, fb.nm("acc"), ty))
        i2 = fb.emit(ir.Binop(i, "+", one, fb.nm("inc"), ty))
        fb.emit(ir.Jump(head))
        i.set_incoming(entry, zero)
        i.set_incoming(body, i2)
        acc.set_incoming(entry, zero)
        acc.set_incoming(body, acc2)
        fb.cur = out
        fb.emit(ir.Return(acc))
    elif what == "undefined":
        ty = T(c["ty"])
        fb = FB(mb, name, ty)
        u = fb.emit(ir.Undefined(fb.nm("und"), ty))
        fb.emit(ir.Return(fb.emit(ir.Binop(u, "+", fb.param(ty), fb.nm("r"), ty))))
    elif what == "copyblob":
        size = c["size"]
        fb = FB(mb, name, None)
        src = c.get("src", "local")
        a = fb.local(None, size=size) if src == "local" else fb.param(ir.ptr)
        fb.emit(ir.CopyBlob(mb.gblob(max(size, 4)), a, size))
        fb.emit(ir.Exit())
    elif what == "blobstore":
        size = c["size"]
        fb = FB(mb, name, None)
        al = fb.emit(ir.Alloc(fb.nm("bl"), size, 4))
        ad = fb.emit(ir.AddressOf(al, fb.nm("bad")))
        fb.emit(ir.ProcedureCall(mb.ext_use(ir.ptr), [ad]))
        fb.emit(ir.Store(al, fb.param(ir.ptr)))
        fb.emit(ir.Exit())
    elif what == "blobarg":
        size = c["size"]
        fb = FB(mb, name, None)
        al = fb.emit(ir.Alloc(fb.nm("bl"), size, 4))
        ad = fb.emit(ir.AddressOf(al, fb.nm("bad")))
        fb.emit(ir.ProcedureCall(mb.ext_use(ir.ptr), [ad]))
        bty = ir.BlobDataTyp(size, 4)
        ext = mb.ext_sig("ext_blob%d" % size, [bty])
        fb.emit(ir.ProcedureCall(ext, [al]))
        fb.emit(ir.Exit())
    elif what == "blobparam":
        size = c["size"]
        bty = ir.BlobDataTyp(size, 4)
        fb = FB(mb, name, None)
        p = fb.param(bty)
        ad = fb.emit(ir.AddressOf(p, fb.nm("pad")))
        fb.emit(ir.CopyBlob(mb.gblob(max(size, 4)), ad, size))
        fb.emit(ir.Exit())
    elif what == "indirect-call":
        ty = T(c["ty"])
        fb = FB(mb, name, ty)
        fp = fb.param(ir.ptr)
        v = fb.emit(ir.FunctionCall(fp, [fb.param(ty)], fb.nm("rv"), ty))
        fb.emit(ir.Return(v))
    elif what == "funcaddr":
        fb = FB(mb, name, None)
        ext = mb.ext_sig("ext_target", [])
        fb.emit(ir.Store(ext, mb.gvar(ir.ptr)))
        fb.emit(ir.Exit())
    elif what == "literal":
        fb = FB(mb, name, ir.ptr)
        lit = fb.emit(ir.LiteralData(b"hello world\x00", fb.nm("lit")))
        fb.emit(ir.Return(fb.emit(ir.AddressOf(lit, fb.nm("la")))))
    elif what == "pressure":
        # many simultaneously live values of one type with a call in between
        ty = T(c["ty"])
        n = c["n"]
        fb = FB(mb, name, ty)
        p = fb.param(ty)
        q = fb.param(ty)
        if c.get("frame"):
            # spill slots then lie beyond a large local
            fb.emit(ir.ProcedureCall(mb.ext_use(ir.ptr), [fb.local(None, size=c["frame"])]))
        vals = []
        for i in range(n):
            cst = fb.const(ty, (i + 1) if (ty is ir.ptr or ty.is_integer) else float(i + 1))
            vals.append(fb.emit(ir.Binop(p if i % 2 else q, "+" if i % 3 else "-", cst, fb.nm("v"), ty)))
        # a second use makes every value a virtual register of its own (single-use values are folded
        # into the tree of their user and would never be live at the same time)
        for v in vals:
            fb.emit(ir.Store(v, mb.gvar(ty)))
        if c.get("call", True):
            fb.emit(ir.ProcedureCall(mb.ext_use(ty), [vals[0]]))
        acc = vals[0]
        for v in vals[1:]:
            acc = fb.emit(ir.Binop(acc, "+" if not (ty is not ir.ptr and ty.is_integer) else "^", v, fb.nm("s"), ty))
        fb.emit(ir.Return(acc))
    elif what == "respill":
        build_respill(mb, name, c)
    elif what == "rotate":
        ty = T(c["ty"])
        fb = FB(mb, name, ty)
        fb.emit(ir.Return(fb.emit(ir.Binop(fb.param(ty), c["op"], fb.param(ty), fb.nm("r"), ty))))
    else:
        raise ValueError(what)


# --------------------------------------------------------------------------
# the matrix


def is_int(t):
    return t[0] in "iu"


def matrix(types):
    """All cells for a target whose supported value types are ``types``
    (names, may include 'ptr').  Deterministic order."""
    cells = []
    vals = [t for t in types if t != "ptr"]
    ints = [t for t in vals if is_int(t)]
    for ty in vals:
        ops = INT_BINOPS if is_int(ty) else FLOAT_BINOPS
        for op in ops:
            n = 0
            for a in SOURCES:
                for b in SOURCES:
                    cells.append({"k": "binop", "op": op, "ty": ty, "a": a, "b": b, "use": CONSUMERS[n % 4]})
                    n += 1
            for use in CONSUMERS[1:]:
                cells.append({"k": "binop", "op": op, "ty": ty, "a": "param", "b": "param", "use": use})
        for op in (["-", "~"] if is_int(ty) else ["-"]):
            for a in SOURCES:
                for use in CONSUMERS:
                    cells.append({"k": "unop", "op": op, "ty": ty, "a": a, "use": use})
    if "ptr" in types:
        for op in ["+", "-", "*", "&"]:
            for a in ["param", "local", "global", "op"]:
                for b in SOURCES:
                    cells.append({"k": "binop", "op": op, "ty": "ptr", "a": a, "b": b, "use": "ret"})
    for ty in types:
        for op in CONDS:
            for a in SOURCES:
                for b in SOURCES:
                    cells.append({"k": "cmp", "op": op, "ty": ty, "a": a, "b": b})
    for ty in types:
        for to in types:
            if ty == to:
                # a cast to the same type is well-formed IR (front-ends and irgen emit it)
                for a in ("param", "c_small", "local"):
                    cells.append({"k": "cast", "ty": ty, "to": to, "a": a, "use": "ret"})
                continue
            if "ptr" in (ty, to) and not (is_int(ty) or is_int(to)):
                continue
            for a in SOURCES:
                uses = CONSUMERS if a in ("param", "local") else ["ret", "store"]
                for use in uses:
                    cells.append({"k": "cast", "ty": ty, "to": to, "a": a, "use": use})
    for ty in types:
        for addr in ["local", "global", "param", "param+const", "param+reg", "global+const", "bigframe"]:
            cells.append({"k": "mem", "ty": ty, "addr": addr, "dir": "load"})
            for val in (["param", "c_zero", "c_small", "c_large", "op"] if addr != "bigframe" else ["param"]):
                cells.append({"k": "mem", "ty": ty, "addr": addr, "dir": "store", "val": val})
        for off in [1, 127, 128, 255, 256, 2047, 2048, 4095, 4096, 65535, 65536, 1 << 20]:
            if off > 30000 and "i32" not in types:
                continue
            cells.append({"k": "mem", "ty": ty, "addr": "param+const", "dir": "load", "off": off})
            cells.append({"k": "mem", "ty": ty, "addr": "param+const", "dir": "store", "off": off})
        for frame in [64, 300, 2040, 2100, 4200, 40000]:
            if frame > 30000 and "i32" not in types:
                continue
            cells.append({"k": "mem", "ty": ty, "addr": "bigframe", "dir": "load", "frame": frame})
    native = "i32" if "i32" in types else ints[-1]
    for ty in types:
        for n in range(1, 11):
            for side in ("callee", "caller"):
                cells.append({"k": "args", "ty": ty, "n": n, "side": side})
                if ty != native and n > 1:
                    cells.append({"k": "args", "ty": ty, "n": n, "side": side, "lead": native})
        cells.append({"k": "args", "ty": ty, "n": 1, "side": "result"})
        for what in ("phi", "loop", "undefined", "indirect-call"):
            cells.append({"k": "misc", "what": what, "ty": ty})
        for n in (6, 12, 20, 32):
            cells.append({"k": "misc", "what": "pressure", "ty": ty, "n": n})
            cells.append({"k": "misc", "what": "pressure", "ty": ty, "n": n, "call": False})
            if n in (12, 32):
                for frame in (300, 5000):
                    cells.append({"k": "misc", "what": "pressure", "ty": ty, "n": n, "frame": frame})
    for ty in types:
        for n in (8, 12, 16, 24):
            for uses in (2, 6):
                cells.append({"k": "misc", "what": "respill", "ty": ty, "n": n, "uses": uses})
    for ty in ints:
        for op in ("rol", "ror"):
            cells.append({"k": "misc", "what": "rotate", "ty": ty, "op": op})
    for size in [1, 2, 3, 4, 7, 8, 12, 16, 33, 100, 1000]:
        for src in ("local", "param"):
            cells.append({"k": "misc", "what": "copyblob", "size": size, "src": src})
        cells.append({"k": "misc", "what": "blobstore", "size": size})
        cells.append({"k": "misc", "what": "blobarg", "size": size})
        cells.append({"k": "misc", "what": "blobparam", "size": size})
    cells.append({"k": "misc", "what": "funcaddr"})
    cells.append({"k": "misc", "what": "literal"})
    return cells


def cell_key(c):
    return ":".join("%s=%s" % (k, c[k]) for k in sorted(c))


# --------------------------------------------------------------------------
# features of the IR handed to the code generator


def tyname(ty):
    if ty is ir.ptr:
        return "ptr"
    if ty is None:
        return "none"
    if getattr(ty, "is_blob", False):
        return "blob"
    return ty.name


def _operand_class(v):
    if isinstance(v, ir.Const):
        return "const"
    if isinstance(v, ir.Load):
        return "load"
    if isinstance(v, ir.GlobalValue):
        return "label"
    return "val"


def function_features(f):
    fs = set()
    cls = {}
    for idx, p in enumerate(f.arguments):
        fs.add("param:%s" % tyname(p.ty))
        fs.add("param:%s:pos%d" % (tyname(p.ty), idx))
        c = "f" if tyname(p.ty)[0] == "f" else "i"      # index within the int / float argument class
        fs.add("param:%s:cls%d" % (tyname(p.ty), cls.get(c, 0)))
        cls[c] = cls.get(c, 0) + 1
    if isinstance(f, ir.Function):
        fs.add("returns:%s" % tyname(f.return_ty))
    frame = 0
    for b in f.blocks:
        for ins in b.instructions:
            t = type(ins)
            if t is ir.Binop:
                fs.add("binop:%s:%s" % (ins.operation, tyname(ins.ty)))
                fs.add("binop:%s:%s:%s,%s" % (ins.operation, tyname(ins.ty), _operand_class(ins.a), _operand_class(ins.b)))
                for side, v in (("lhs", ins.a), ("rhs", ins.b)):
                    if isinstance(v, ir.Const) and isinstance(v.value, int) and v.value < 0:
                        fs.add("binop:%s:%s:neg%s" % (ins.operation, tyname(ins.ty), side))
                        if v.value < -32:
                            fs.add("binop:%s:%s:%s-lt-32" % (ins.operation, tyname(ins.ty), side))
            elif t is ir.Unop:
                fs.add("unop:%s:%s" % (ins.operation, tyname(ins.ty)))
            elif t is ir.Cast:
                fs.add("cast:%s:%s" % (tyname(ins.src.ty), tyname(ins.ty)))
            elif t is ir.CJump:
                fs.add("cjump:%s:%s" % (ins.cond, tyname(ins.a.ty)))
            elif t is ir.Load:
                fs.add("load:%s" % tyname(ins.ty))
            elif t is ir.Store:
                fs.add("store:%s" % tyname(ins.value.ty))
            elif t is ir.Const:
                fs.add("const:%s" % tyname(ins.ty))
                if isinstance(ins.value, int) and ins.value < 0:
                    fs.add("const:%s:negative" % tyname(ins.ty))
                if isinstance(ins.value, int) and abs(ins.value) >= 256:
                    fs.add("const:%s:ge256" % tyname(ins.ty))
            elif t is ir.Undefined:
                fs.add("undefined:%s" % tyname(ins.ty))
            elif t is ir.Phi:
                fs.add("phi:%s" % tyname(ins.ty))
            elif t is ir.CopyBlob:
                fs.add("copyblob")
            elif t is ir.LiteralData:
                fs.add("literal")
            elif t is ir.Alloc:
                fs.add("alloc")
                frame += ins.amount
            elif t in (ir.FunctionCall, ir.ProcedureCall):
                cls = {}
                for i, a in enumerate(ins.arguments):
                    fs.add("callarg:%s" % tyname(a.ty))
                    fs.add("callarg:%s:pos%d" % (tyname(a.ty), i))
                    c = "f" if tyname(a.ty)[0] == "f" else "i"
                    fs.add("callarg:%s:cls%d" % (tyname(a.ty), cls.get(c, 0)))
                    cls[c] = cls.get(c, 0) + 1
                if t is ir.FunctionCall:
                    fs.add("callresult:%s" % tyname(ins.ty))
                if not isinstance(ins.callee, (ir.SubRoutine, ir.ExternalSubRoutine)):
                    fs.add("indirect-call")
    for n in (128, 256, 512, 1024, 2048, 4096, 32768):
        if frame >= n:
            fs.add("frame:ge%d" % n)
    return fs


def module_features(m):
    fs = set()
    for f in m.functions:
        fs |= function_features(f)
    return fs


def avoided(features, patterns):
    """First pattern (fnmatch over the features) that hits, or None."""
    for p in patterns:
        for f in features:
            if fnmatch.fnmatchcase(f, p):
                return p
    return None


# --------------------------------------------------------------------------
# mechanism of a code generation failure


def _culprits(tree):
    """Lowest nodes of a selection tree that no rule matched (their children matched)."""
    out = []

    def walk(t):
        for c in t.children:
            walk(c)
        st = getattr(t, "state", None)
        if st is not None and not st.labels and all(
                getattr(c, "state", None) is not None and c.state.labels for c in t.children):
            out.append("%s(%s)" % (t.name, ",".join(c.name for c in t.children)))

    walk(tree)
    return out


def failure_mechanism(exc):
    """(mechanism key, detail) of an exception raised by ir_to_object.

    'Tree ... not covered' -> ``uncovered:<lowest unmatched node>`` read from the
    labelled tree in the raising frame (harness-side observation of the real
    selector state); anything else -> ``<ExceptionType>:<raising function>:<message
    with numbers removed>``."""
    import re

    tb = exc.__traceback__
    frames = []
    while tb is not None:
        frames.append(tb.tb_frame)
        tb = tb.tb_next
    msg = str(exc)
    if "not covered" in msg:
        for fr in reversed(frames):
            if fr.f_code.co_name == "gen" and "tree" in fr.f_locals:
                t = fr.f_locals["tree"]
                try:
                    cs = _culprits(t)
                except Exception:  # noqa
                    cs = []
                if cs:
                    return "uncovered:" + cs[0].split("(")[0], ("%s in %r" % (cs[0], t))[:300]
                return "nostm:" + str(t.name), repr(t)[:300]
        m = re.search(r"Tree ([A-Z0-9]+)", msg)
        return "uncovered-root:" + (m.group(1) if m else "?"), msg[:300]
    where = frames[-1].f_code.co_name if frames else "?"
    norm = re.sub(r"vreg\w+|0x[0-9a-fA-F]+|-?\d+", "#", msg)[:60]
    return "%s:%s:%s" % (type(exc).__name__, where, norm), msg[:300]


# --------------------------------------------------------------------------
# post-passes over vlib.irgen modules (kept here so that irgen stays untouched)


def _replace(ins, new_ins, value):
    """Insert new_ins before ins, redirect the uses of ins to value, drop ins."""
    blk = ins.block
    for n in new_ins:
        blk.insert_instruction(n, before_instruction=ins)
    ins.replace_by(value)
    for u in list(ins.uses):
        ins.del_use(u)
    blk.remove_instruction(ins)


def neutralise(m, deny, native="i32"):
    """Rewrite the constructs named by the deny patterns (fnmatch over the
    feature vocabulary) into equivalent allowed ones: binop -> another
    operator of the same type, unop -> 0 - a / a ^ ~0, cast -> two casts via
    the native integer type, signed '<='/'>' ... -> operands swapped.
    Returns the number of rewrites.  What cannot be rewritten stays and is
    caught by the feature filter."""
    if not deny:
        return 0

    def bad(f):
        return any(fnmatch.fnmatchcase(f, p) for p in deny)

    n = 0
    k = [0]

    def nm(b):
        k[0] += 1
        return "%s_n%d" % (b, k[0])

    swap = {"<": ">", ">": "<", "<=": ">=", ">=": "<=", "==": "==", "!=": "!="}
    for f in m.functions:
        for b in f.blocks:
            for ins in list(b.instructions):
                t = type(ins)
                if t is ir.Binop:
                    ty = tyname(ins.ty)
                    if bad("binop:%s:%s" % (ins.operation, ty)):
                        for op in ("+", "^", "|", "&", "-"):
                            if not bad("binop:%s:%s" % (op, ty)) and (op in "+-" or ins.ty.is_integer):
                                ins.operation = op
                                n += 1
                                break
                elif t is ir.Unop:
                    ty = tyname(ins.ty)
                    if bad("unop:%s:%s" % (ins.operation, ty)):
                        if ins.operation == "-" and not bad("binop:-:" + ty):
                            z = ir.Const(0 if ins.ty.is_integer else 0.0, nm("z"), ins.ty)
                            nb = ir.Binop(z, "-", ins.a, nm("neg"), ins.ty)
                            _replace(ins, [z, nb], nb)
                            n += 1
                        elif ins.operation == "~" and not bad("binop:^:" + ty):
                            ones = ir.Const(-1 if ins.ty.signed else (1 << ins.ty.bits) - 1, nm("ones"), ins.ty)
                            nb = ir.Binop(ins.a, "^", ones, nm("inv"), ins.ty)
                            _replace(ins, [ones, nb], nb)
                            n += 1
                elif t is ir.Cast:
                    s, d = tyname(ins.src.ty), tyname(ins.ty)
                    if s == d and bad("cast:%s:%s" % (s, d)):
                        _replace(ins, [], ins.src)
                        n += 1
                    elif bad("cast:%s:%s" % (s, d)) and native not in (s, d) \
                            and not bad("cast:%s:%s" % (s, native)) and not bad("cast:%s:%s" % (native, d)):
                        c1 = ir.Cast(ins.src, nm("cv"), T(native))
                        c2 = ir.Cast(c1, nm("cv"), ins.ty)
                        _replace(ins, [c1, c2], c2)
                        n += 1
                elif t is ir.CJump:
                    ty = tyname(ins.a.ty)
                    if bad("cjump:%s:%s" % (ins.cond, ty)) and not bad("cjump:%s:%s" % (swap[ins.cond], ty)):
                        a, b2 = ins.a, ins.b
                        ins.a, ins.b = b2, a
                        ins.cond = swap[ins.cond]
                        n += 1
    return n


def add_pressure(m, r, amount, ptr_size=8, fold_op="^"):
    """Keep up to ``amount`` values of the entry block of every function alive
    until every exit: before each return/exit they are folded into the
    returned value (same type) or stored into a sink global.  The values then
    are live across all calls and loops of the function, which forces the
    register allocator to spill and to coalesce under pressure."""
    sinks = {}

    def sink(ty):
        key = tyname(ty)
        if key not in sinks:
            size = ty.size if ty is not ir.ptr else ptr_size
            v = ir.Variable("g_sink_" + key, ir.Binding.GLOBAL, size, size, value=None)
            m.add_variable(v)
            sinks[key] = v
        return sinks[key]

    k = [0]

    def nm(b):
        k[0] += 1
        return "%s_p%d" % (b, k[0])

    total = 0
    for f in m.functions:
        entry = f.entry
        cands = [p for p in f.arguments if not getattr(p.ty, "is_blob", False)]
        for ins in entry.instructions:
            if isinstance(ins, (ir.Binop, ir.Unop, ir.Cast, ir.Load, ir.FunctionCall)) and not getattr(ins.ty, "is_blob", False):
                cands.append(ins)
        if not cands:
            continue
        r.shuffle(cands)
        keep = cands[:amount]
        total += len(keep)
        for b in f.blocks:
            last = b.instructions[-1]
            if not isinstance(last, (ir.Return, ir.Exit)):
                continue
            if b is entry:
                # values defined later in the entry block than the terminator cannot occur; all dominate
                pass
            acc = last.result if isinstance(last, ir.Return) else None
            for v in keep:
                if acc is not None and v.ty is acc.ty and v is not acc and (v.ty is ir.ptr or v.ty.is_integer):
                    nb = ir.Binop(acc, fold_op if v.ty is not ir.ptr else "+", v, nm("pr"), v.ty)
                    b.insert_instruction(nb, before_instruction=last)
                    acc = nb
                else:
                    b.insert_instruction(ir.Store(v, sink(v.ty)), before_instruction=last)
            if isinstance(last, ir.Return) and acc is not last.result:
                last.result = acc
    return total


def build_respill(mb, name, c):
    """Many long-lived values with several uses each and one compare of two
    further values in the middle: more values are live at the compare than
    there are registers, and every long-lived value has a higher spill
    priority figure than a two-instruction reload temporary."""
    ty = T(c["ty"])
    n, uses = c["n"], c.get("uses", 4)
    fb = FB(mb, name, None)
    p, q = fb.param(ty), fb.param(ty)
    vals = [fb.emit(ir.Binop(p if i % 2 else q, "+", fb.const(ty, i + 1), fb.nm("v"), ty)) for i in range(n)]
    for _ in range(uses // 2):
        for v in vals:
            fb.emit(ir.Store(v, mb.gvar(ty)))
    a = fb.emit(ir.Load(mb.gvar(ty), fb.nm("a"), ty))
    b = fb.emit(ir.Load(mb.gblob(64), fb.nm("b"), ty))
    fb.emit(ir.Store(a, mb.gblob(64)))
    fb.emit(ir.Store(b, mb.gvar(ty)))
    yes, no = fb.block("yes"), fb.block("no")
    fb.emit(ir.CJump(a, "!=", b, yes, no))
    for blk in (yes, no):
        fb.cur = blk
        for _ in range(uses - uses // 2):
            for v in vals:
                fb.emit(ir.Store(v, mb.gvar(ty)))
        fb.emit(ir.Exit())
