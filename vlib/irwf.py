"""Independent IR well-formedness checker (DESIGN 2.3).

Re-derives predecessors from terminators, dominators by the naive iterative
set algorithm and def-use from operand fields; shares nothing with
ppci.irutils.verify, ppci.graph.lt or ppci's bookkeeping -- and then also
checks that ppci's bookkeeping equals the re-derived truth.

check_module(module) -> list of problem strings (empty = well-formed).
"""
from ppci import ir

from .ircmp import operand_fields, block_targets

TERMINATORS = (ir.Jump, ir.CJump, ir.Return, ir.Exit)


def check_module(module, bookkeeping=True):
    problems = []
    gnames = set()
    for g in list(module.externals) + list(module.variables) + list(module.functions):
        if g.name in gnames and not isinstance(g, ir.External):
            problems.append("duplicate global name %s" % g.name)
        gnames.add(g.name)
    globals_ok = set(module.externals) | set(module.variables) | set(module.functions)
    for f in module.functions:
        try:
            problems += ["%s: %s" % (f.name, p) for p in check_function(f, globals_ok, bookkeeping)]
        except Exception as e:  # a checker crash is a finding about the module shape
            problems.append("%s: checker could not analyse: %s: %s" % (f.name, type(e).__name__, e))
    return problems


def check_function(f, globals_ok, bookkeeping=True):
    P = []
    blocks = list(f.blocks)
    if not blocks:
        return ["no blocks"]
    if f.entry is not blocks[0]:
        P.append("entry is not the first block")
    bset = set(blocks)
    if len(bset) != len(blocks):
        P.append("a block is listed twice")
    # --- termination
    succ = {}
    for b in blocks:
        ins = list(b.instructions)
        if not ins:
            P.append("block %s is empty" % b.name)
            succ[b] = []
            continue
        for i in ins[:-1]:
            if isinstance(i, TERMINATORS):
                P.append("block %s: terminator %s before the end" % (b.name, type(i).__name__))
        last = ins[-1]
        if not isinstance(last, TERMINATORS):
            P.append("block %s does not end in a terminator" % b.name)
        ts = block_targets(last)
        for t in ts:
            if t not in bset:
                P.append("block %s jumps to block %s outside the function" % (b.name, getattr(t, "name", t)))
        succ[b] = [t for t in ts if t in bset]
        if isinstance(last, ir.Return):
            if not isinstance(f, ir.Function):
                P.append("return in a procedure")
            elif last.result.ty is not f.return_ty:
                P.append("return type %s != %s" % (last.result.ty, f.return_ty))
        if isinstance(last, ir.Exit) and not isinstance(f, ir.Procedure):
            P.append("exit in a function")
        seen_nonphi = False
        for i in ins:
            if isinstance(i, ir.Phi):
                if seen_nonphi:
                    P.append("block %s: phi %s after a non-phi" % (b.name, i.name))
            else:
                seen_nonphi = True
    if P:
        return P
    pred = {b: [] for b in blocks}
    for b in blocks:
        for t in dict.fromkeys(succ[b]):
            pred[t].append(b)
    # --- reachability
    entry = blocks[0]
    reach = set()
    work = [entry]
    while work:
        b = work.pop()
        if b in reach:
            continue
        reach.add(b)
        work.extend(succ[b])
    for b in blocks:
        if b not in reach:
            P.append("block %s unreachable" % b.name)
    # --- dominators (naive iterative)
    rb = [b for b in blocks if b in reach]
    dom = {b: set(rb) for b in rb}
    dom[entry] = {entry}
    changed = True
    while changed:
        changed = False
        for b in rb:
            if b is entry:
                continue
            ps = [p for p in pred[b] if p in reach]
            new = set(rb)
            for p in ps:
                new &= dom[p]
            new.add(b)
            if new != dom[b]:
                dom[b] = new
                changed = True
    # --- definitions
    where = {}
    names = set()
    for b in blocks:
        if b.name in names:
            P.append("duplicate name %s" % b.name)
        names.add(b.name)
    for p in f.arguments:
        where[p] = (None, -1)
    for b in blocks:
        for idx, i in enumerate(b.instructions):
            if i in where:
                P.append("instruction %s listed twice" % getattr(i, "name", i))
            where[i] = (b, idx)
            if isinstance(i, ir.Value):
                if i.name in names:
                    P.append("duplicate name %s" % i.name)
                names.add(i.name)

    def dominates_use(v, ub, uidx):
        if isinstance(v, ir.GlobalValue):
            if v not in globals_ok and not isinstance(v, ir.External):
                return "global %s not in module" % v.name
            return None
        if v not in where:
            return "value %s is not defined in this function" % getattr(v, "name", v)
        db, didx = where[v]
        if db is None:
            return None
        if ub not in reach:
            return None
        if db is ub:
            return None if didx < uidx else "use before def of %s" % v.name
        if db in dom.get(ub, ()):
            return None
        return "def of %s (block %s) does not dominate its use in block %s" % (v.name, db.name, ub.name)

    for b in blocks:
        for idx, i in enumerate(b.instructions):
            if isinstance(i, ir.Phi):
                ins_blocks = set(i.inputs)
                ps = set(pred[b])
                for p in ps - ins_blocks:
                    P.append("phi %s lacks input for predecessor %s" % (i.name, p.name))
                for p in ins_blocks - ps:
                    P.append("phi %s has input for non-predecessor %s" % (i.name, getattr(p, "name", p)))
                for p, v in i.inputs.items():
                    if v.ty is not i.ty:
                        P.append("phi %s input type %s != %s" % (i.name, v.ty, i.ty))
                    if p in bset and p in ps:
                        msg = dominates_use(v, p, len(p.instructions))
                        if msg:
                            P.append("phi %s: %s" % (i.name, msg))
                continue
            for fld, v in operand_fields(i):
                if not isinstance(v, ir.Value):
                    P.append("%s operand %s is not a value" % (type(i).__name__, fld))
                    continue
                msg = dominates_use(v, b, idx)
                if msg:
                    P.append("%s: %s" % (type(i).__name__, msg))
            P.extend(type_check(i, f))
    # --- ppci's own bookkeeping must equal the re-derived truth
    if bookkeeping and not P:
        for b in blocks:
            if b.function is not f:
                P.append("block %s .function is stale" % b.name)
            refs = set()
            for x in b.references:
                refs.add(x)
            true_refs = set()
            for q in blocks:
                last = q.instructions[-1]
                if b in block_targets(last):
                    true_refs.add(last)
            if refs != true_refs:
                P.append("block %s .references differs from the jumps that target it" % b.name)
            for i in b.instructions:
                if i.block is not b:
                    P.append("instruction %s .block is stale" % getattr(i, "name", i))
        used_by = {}
        for b in blocks:
            for i in b.instructions:
                vals = set(v for _, v in operand_fields(i))
                if set(i.uses) != vals:
                    P.append("%s %s .uses differs from its operands" % (type(i).__name__, getattr(i, "name", "")))
                for v in vals:
                    used_by.setdefault(v, set()).add(i)
        for v in where:
            if isinstance(v, ir.Value):
                if set(v.used_by) != used_by.get(v, set()):
                    P.append("value %s .used_by differs from its actual users" % v.name)
    return P


def type_check(i, f):
    P = []
    t = type(i)
    if t is ir.Binop:
        if i.a.ty is not i.ty or i.b.ty is not i.ty:
            P.append("binop %s operand types %s,%s != %s" % (i.name, i.a.ty, i.b.ty, i.ty))
    elif t is ir.Unop:
        if i.a.ty is not i.ty:
            P.append("unop %s operand type" % i.name)
    elif t is ir.CJump:
        if i.a.ty is not i.b.ty:
            P.append("cjump operand types %s vs %s" % (i.a.ty, i.b.ty))
    elif t is ir.Load:
        if i.address.ty is not ir.ptr:
            P.append("load address is not ptr")
    elif t is ir.Store:
        if i.address.ty is not ir.ptr:
            P.append("store address is not ptr")
    elif t is ir.AddressOf:
        if not isinstance(i.src.ty, ir.BlobDataTyp):
            P.append("address-of a non-blob")
    elif t is ir.FunctionCall or t is ir.ProcedureCall:
        c = i.callee
        if isinstance(c, (ir.SubRoutine, ir.ExternalSubRoutine)):
            want = [p.ty for p in c.arguments] if isinstance(c, ir.SubRoutine) else list(c.argument_types)
            got = [a.ty for a in i.arguments]
            if len(want) != len(got) or any(w is not g for w, g in zip(want, got)):
                P.append("call of %s: argument types %s, expected %s" % (c.name, got, want))
            if t is ir.FunctionCall:
                if not isinstance(c, (ir.Function, ir.ExternalFunction)):
                    P.append("function call of procedure %s" % c.name)
                elif c.return_ty is not i.ty:
                    P.append("call of %s: result type" % c.name)
            elif not isinstance(c, (ir.Procedure, ir.ExternalProcedure)):
                P.append("procedure call of function %s" % c.name)
        elif c.ty is not ir.ptr:
            P.append("indirect call through non-ptr")
    return P
