"""setup-time self test: records oracle tool presence; never judges ppci."""
import json
import os
import shutil
import subprocess
import sys

VERIF = os.path.dirname(os.path.dirname(os.path.abspath(__file__)))
TOOLS = ["gcc", "clang", "node", "readelf", "objdump", "objcopy", "llvm-mc-14",
         "llvm-objdump-14", "llvm-objcopy-14", "llvm-readelf-14"]


def main():
    out = {"tools": {}}
    for t in TOOLS:
        p = shutil.which(t)
        ver = None
        if p:
            try:
                ver = subprocess.run([p, "--version"], capture_output=True, text=True,
                                     timeout=30).stdout.splitlines()[0]
            except Exception as e:  # noqa
                ver = "? (%s)" % e
        out["tools"][t] = {"path": p, "version": ver}
    for lib in ("icontract", "deal"):
        out["tools"][lib] = {"path": os.path.isdir(os.path.join(VERIF, ".deps", lib))}
    os.makedirs(os.path.join(VERIF, ".work"), exist_ok=True)
    with open(os.path.join(VERIF, ".work", "selftest.json"), "w") as f:
        json.dump(out, f, indent=1)
    missing = [t for t, v in out["tools"].items() if not v["path"]]
    print("setup: tools missing: %s" % (missing or "none"))
    return 0


if __name__ == "__main__":
    sys.exit(main())
