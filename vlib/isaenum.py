"""Instruction-set enumeration shared by C07..C11 (DESIGN 2.4 "isaenum.py").

Walks ``arch.isa.instructions`` of a ppci architecture and instantiates the
syntax of every instruction class recursively:

* register operands  -> every register of the operand's register class
  (``RegisterClass.all_registers()``: exactly the set the assembler knows);
* integer operands   -> boundary values derived from the bit-field the operand
  is mapped to (``0, 1, max, max+1, -1, min, min-1, 2^(n-1)`` for both the
  signed and the unsigned reading of an n-bit field) plus random values; when
  the class has a hand-written ``encode`` (no pattern mentions the operand)
  the width is probed empirically (smallest k with 2^k rejected) and, if
  nothing is ever rejected, a generic boundary list for common widths is used;
* string operands    -> label names (neutral names, or - second dial -
  mnemonics / register names);
* tuple operands     -> every constructor alternative, recursively;
* register lists     -> (arm ``RegisterSet``, thumb ``set``) random subsets.

Values of one slot (= one operand position reached through one chain of
constructor alternatives) are handed out by a *cycler*: a seeded shuffle that
is walked round-robin, so that N instances of a class cover every value of
every slot with cardinality <= N at least once, and combinations differ from
seed to seed.

An instance is described by a json-able *assignment* (so a case replays from
the assignment alone):

    reg      -> {"r": "<register name>"}
    int      -> int
    str      -> str
    alt      -> {"alt": <index in the tuple>, "args": [assignment, ...]}
    regset   -> {"set": ["R1", "R4", ...]}

Nothing here judges anything; the module only produces instances and facts.
ppci is imported lazily (the parent process must not import it).
"""
import contextlib
import io

ARCHS = ["arm", "arm:thumb", "riscv", "riscv:rvc", "x86_64", "msp430", "avr", "m68k", "mips",
         "or1k", "xtensa", "microblaze", "stm8", "mcs6500"]

NEUTRAL_LABELS = ["lab1", "foo_2", "L77", "tgt", "my_label", "zz9"]

_arch_cache = {}


def get_arch(name):
    """One architecture object (and therefore one assembler) per name per process."""
    if name not in _arch_cache:
        from ppci.api import get_arch as ga

        with contextlib.redirect_stdout(io.StringIO()):
            _arch_cache[name] = ga(name)
    return _arch_cache[name]


def boundary(n):
    """Boundary values of an n-bit field under both readings (DESIGN 2.4)."""
    half, full = 1 << (n - 1), 1 << n
    return sorted({0, 1, 2, half - 1, half, half + 1, full - 1, full, full + 1,
                   -1, -2, -half + 1, -half, -half - 1, -full + 1, -full, -full - 1})


GENERIC_WIDTHS = (3, 4, 5, 6, 8, 12, 16, 20, 32)


class ClassInfo:
    def __init__(self, archname, idx, cls):
        self.archname = archname
        self.idx = idx
        self.cls = cls
        self.key = "%03d:%s" % (idx, cls.__name__)
        # mnemonic: the literal elements up to the first blank or operand ("c.sub", "mov.w", ".align")
        parts = []
        for e in cls.syntax.syntax:
            if not isinstance(e, str) or e.isspace():
                break
            parts.append(e)
        self.mnemonic = "".join(parts)

    def __repr__(self):
        return "<%s %s>" % (self.archname, self.key)


_class_cache = {}


def classes(archname):
    """All instruction classes of the ISA that have a syntax, in isa order."""
    if archname not in _class_cache:
        arch = get_arch(archname)
        out, seen = [], set()
        for idx, cls in enumerate(arch.isa.instructions):
            if cls in seen or not getattr(cls, "syntax", None):
                continue
            seen.add(cls)
            out.append(ClassInfo(archname, idx, cls))
        _class_cache[archname] = out
    return _class_cache[archname]


def class_by_key(archname, key):
    for ci in classes(archname):
        if ci.key == key:
            return ci
    raise KeyError(key)


# ---------------------------------------------------------------------------
# operand kinds


def operand_kind(op):
    from ppci.arch.encoding import Constructor
    from ppci.arch.registers import Register

    t = op._cls
    if isinstance(t, tuple):
        return "alt"
    if isinstance(t, type):
        if issubclass(t, Register):
            return "reg"
        if t is int:
            return "int"
        if t is str:
            return "str"
        if issubclass(t, (set, frozenset)):
            return "regset"
        if issubclass(t, Constructor):
            return "con"
    return "other"


def field_of(con_cls, op, root_cls):
    """(field name, bits, signed flag, has_transform) of the pattern an operand feeds, or None."""
    from ppci.arch.encoding import Constructor, VariablePattern, Transform

    try:
        pats = Constructor.dict_to_patterns(con_cls.patterns)
    except Exception:
        return None
    for p in pats or ():
        if not isinstance(p, VariablePattern):
            continue
        prop = p.prop
        src = prop
        has_tr = False
        while isinstance(src, Transform):
            has_tr = True
            src = src._wrapped
        if src is not op:
            continue
        toks = list(getattr(con_cls, "tokens", []) or [])
        if root_cls is not con_cls:
            toks += list(getattr(root_cls, "tokens", []) or [])
        for tc in toks:
            p2 = tc.__dict__.get(p.field)
            if p2 is None:
                for base in tc.__mro__:
                    if p.field in base.__dict__:
                        p2 = base.__dict__[p.field]
                        break
            if p2 is not None and hasattr(p2, "_bitsize"):
                return (p.field, p2._bitsize, bool(p2._signed), has_tr)
        return (p.field, None, None, has_tr)
    return None


class Cycler:
    """Round-robin over a seeded shuffle of a value list."""

    def __init__(self, values, rnd):
        self.values = list(values)
        self.rnd = rnd
        self.pos = len(self.values)
        self.order = []

    def next(self):
        if self.pos >= len(self.order):
            self.order = list(self.values)
            self.rnd.shuffle(self.order)
            self.pos = 0
        v = self.order[self.pos]
        self.pos += 1
        return v


class Enumerator:
    """Produces assignments / instances for the classes of one ISA.

    rnd: a random.Random (seeded by the caller from core.rng);
    labels: "neutral", "mnemonics" (the ISA's mnemonics as label names) or "keywords"
            (mnemonics and register names);
    int_filter(fact, value) -> bool lets a check keep values out (avoid switches).
    """

    def __init__(self, archname, rnd, labels="neutral", int_filter=None, random_share=0.25):
        self.archname = archname
        self.arch = get_arch(archname)
        self.rnd = rnd
        self.labels = labels
        self.int_filter = int_filter
        self.random_share = random_share
        self._cyclers = {}
        self._probed = {}
        self._label_pool = None

    # ---- value pools ------------------------------------------------------
    def label_pool(self):
        if self._label_pool is None:
            if self.labels == "neutral":
                self._label_pool = list(NEUTRAL_LABELS)
            else:
                pool, regs = set(), set()
                for ci in classes(self.archname):
                    m = ci.mnemonic
                    if m.isidentifier():
                        pool.add(m)
                    for op in ci.cls.syntax.formal_arguments:
                        if operand_kind(op) == "reg":
                            for r in op._cls.all_registers():
                                for nm in (r.name,) + tuple(getattr(r, "aka", ()) or ()):
                                    if nm.isidentifier():
                                        regs.add(nm.lower())
                if self.labels == "mnemonics":  # keywords that are not register names
                    pool -= regs
                else:
                    pool |= regs
                self._label_pool = sorted(pool) or list(NEUTRAL_LABELS)
        return self._label_pool

    def int_values(self, root_cls, con_cls, op, path):
        """(values, fact) for an integer operand."""
        fi = field_of(con_cls, op, root_cls)
        fact = {"path": path, "name": op._name, "field": None, "bits": None, "signed_flag": None,
                "transform": False, "source": "generic"}
        vals = None
        if fi is not None:
            fact.update(field=fi[0], bits=fi[1], signed_flag=fi[2], transform=fi[3], source="pattern")
            if fi[1]:
                n = fi[1]
                vals = set(boundary(n))
                if fi[3]:  # transformed (scaled / biased) operand: widen the net
                    for s in (2, 4, 8):
                        vals.update(v * s for v in boundary(n))
                    vals.update(boundary(n + 1))
                    vals.update(boundary(n + 2))
        if vals is None and con_cls is root_cls and self.is_count_operand(root_cls, path[-1]):
            # the encoded LENGTH depends on the value (".zero N"): a repeat count, not a bit-field
            fact.update(source="count")
            vals = set(range(0, 9)) | {16, 31, 64}
        if vals is None:
            n = self.probe_width(root_cls, con_cls, op, path)
            if n:
                fact.update(bits=n, source="probed")
                vals = set(boundary(n))
            else:
                vals = set()
                for w in GENERIC_WIDTHS:
                    vals.update(boundary(w))
        return sorted(vals), fact

    def probe_width(self, root_cls, con_cls, op, path):
        """Smallest k such that the class rejects 2^k for this operand (others neutral); None if never."""
        key = (root_cls, tuple(path))
        if key in self._probed:
            return self._probed[key]
        res = None
        if con_cls is root_cls:
            base = self.neutral_assignment(root_cls)
            pos = path[-1]
            accepted_any = False
            for k in range(1, 40):
                a = list(base)
                a[pos] = 1 << k
                ok = self._encodes(root_cls, a)
                if ok:
                    accepted_any = True
                elif accepted_any or k == 1:
                    # rejected: check 2^k - 1 is fine, then width is k
                    a[pos] = (1 << k) - 1
                    if self._encodes(root_cls, a):
                        res = k
                    break
        self._probed[key] = res
        return res

    def is_count_operand(self, root_cls, pos):
        lens = set()
        for v in (1, 2, 3):
            a = self.neutral_assignment(root_cls)
            a[pos] = v
            try:
                with contextlib.redirect_stdout(io.StringIO()):
                    lens.add(len(build(self.archname, root_cls, a).encode()))
            except BaseException:
                return False
        return len(lens) > 1

    def _encodes(self, cls, assignment):
        try:
            with contextlib.redirect_stdout(io.StringIO()):
                obj = build(self.archname, cls, assignment)
                obj.encode()
            return True
        except BaseException:
            return False

    def neutral_assignment(self, cls):
        out = []
        for op in cls.syntax.formal_arguments:
            k = operand_kind(op)
            if k == "reg":
                regs = op._cls.all_registers()
                out.append({"r": regs[min(1, len(regs) - 1)].name})
            elif k == "int":
                out.append(0)
            elif k == "str":
                out.append("lab1")
            elif k == "alt":
                out.append({"alt": 0, "args": self.neutral_assignment(op._cls[0])})
            elif k == "regset":
                out.append({"set": ["R1"]})
            else:
                out.append(None)
        return out

    # ---- assignment generation -------------------------------------------
    def cycler(self, key, values_fn):
        c = self._cyclers.get(key)
        if c is None:
            c = self._cyclers[key] = Cycler(values_fn(), self.rnd)
        return c

    def assignment(self, ci, facts=None):
        """A fresh assignment for class ci; facts (list) receives one dict per integer operand."""
        return self._assign(ci.cls, ci.cls, (ci.key,), facts if facts is not None else [])

    def _assign(self, root_cls, con_cls, path, facts):
        out = []
        for i, op in enumerate(con_cls.syntax.formal_arguments):
            p = path + (i,)
            k = operand_kind(op)
            if k == "reg":
                c = self.cycler(p, lambda: [r.name for r in op._cls.all_registers()])
                out.append({"r": c.next()})
            elif k == "int":
                vf = self._int_cache(root_cls, con_cls, op, p)
                c = self.cycler(p, lambda: vf[0])
                fact = dict(vf[1])
                if fact["source"] == "count":
                    v = c.next()
                elif self.rnd.random() < self.random_share:
                    bits = fact["bits"] or self.rnd.choice(GENERIC_WIDTHS)
                    v = self.rnd.randrange(-(1 << bits), (2 << bits))
                    if self.rnd.random() < 0.5:
                        v = self.rnd.randrange(0, 1 << max(1, bits - 1))
                else:
                    v = c.next()
                if self.int_filter is not None:
                    tries = 0
                    while not self.int_filter(fact, v) and tries < 60:
                        v = c.next() if tries % 2 else self.rnd.randrange(0, 1 << max(1, (fact["bits"] or 8) - 1))
                        tries += 1
                    if tries >= 60:
                        v = 0
                fact["value"] = v
                facts.append(fact)
                out.append(v)
            elif k == "str":
                c = self.cycler(("labels",), self.label_pool)
                out.append(c.next())
            elif k == "alt":
                c = self.cycler(p, lambda: list(range(len(op._cls))))
                ai = c.next()
                sub = op._cls[ai]
                out.append({"alt": ai, "args": self._assign(root_cls, sub, p + ("alt%d" % ai,), facts)})
            elif k == "regset":
                from ppci.arch.arm.registers import all_registers as armregs, registers_low

                pool = [r.name for r in (registers_low if self.archname == "arm:thumb" else armregs)]
                n = self.rnd.randrange(1, min(len(pool), 6) + 1)
                out.append({"set": sorted(self.rnd.sample(pool, n))})
            else:
                out.append(None)
        return out

    def _int_cache(self, root_cls, con_cls, op, p):
        key = ("int",) + p
        if key not in self._cyclers:
            self._cyclers[key] = self.int_values(root_cls, con_cls, op, list(p))
        return self._cyclers[key]

    def slot_cardinality(self, ci):
        """Largest number of values of any top-level slot (guides instances per class)."""
        best = 1
        for i, op in enumerate(ci.cls.syntax.formal_arguments):
            k = operand_kind(op)
            if k == "reg":
                best = max(best, len(op._cls.all_registers()))
            elif k == "int":
                best = max(best, len(self._int_cache(ci.cls, ci.cls, op, (ci.key, i))[0]))
            elif k == "alt":
                best = max(best, 2 * len(op._cls))
        return best


# ---------------------------------------------------------------------------
# building objects from assignments


def _regmap(regcls):
    m = getattr(regcls, "_verif_regmap", None)
    if m is None or m[0] is not regcls:
        m = (regcls, {r.name: r for r in regcls.all_registers()})
        try:
            regcls._verif_regmap = m
        except Exception:
            pass
    return m[1]


def build(archname, cls, assignment):
    """Instantiate constructor/instruction class cls from an assignment (may raise)."""
    args = []
    for op, a in zip(cls.syntax.formal_arguments, assignment):
        k = operand_kind(op)
        if k == "reg":
            args.append(_regmap(op._cls)[a["r"]])
        elif k in ("int", "str"):
            args.append(a)
        elif k == "alt":
            sub = op._cls[a["alt"]]
            args.append(build(archname, sub, a["args"]))
        elif k == "regset":
            from ppci.arch.arm.registers import all_registers as armregs

            m = {r.name: r for r in armregs}
            args.append(op._cls(m[n] for n in a["set"]))
        else:
            raise TypeError("isaenum cannot instantiate operand %r" % (op,))
    if len(args) != len(cls.syntax.formal_arguments):
        raise TypeError("assignment length mismatch for %s" % cls)
    return cls(*args)


class Instance:
    """One instantiated instruction: obj, text (printed BEFORE encoding), facts, assignment."""

    __slots__ = ("ci", "assignment", "facts", "obj", "text", "error")

    def __init__(self, ci, assignment, facts):
        self.ci = ci
        self.assignment = assignment
        self.facts = facts
        self.obj = None
        self.text = None
        self.error = None
        try:
            self.obj = build(ci.archname, ci.cls, assignment)
            self.text = str(self.obj)
        except BaseException as e:  # construction / printing refused this operand combination
            self.error = "%s: %s" % (type(e).__name__, e)

    def fresh(self):
        """A second, independent object for the same assignment (encode() may mutate operands)."""
        return build(self.ci.archname, self.ci.cls, self.assignment)

    def describe(self):
        return {"arch": self.ci.archname, "class": self.ci.key, "assignment": self.assignment, "text": self.text}


def is_virtual(obj):
    """Pseudo-instructions without a direct encoding (outside C08/C09/C10's quantifier)."""
    from ppci.arch.generic_instructions import VirtualInstruction

    return isinstance(obj, VirtualInstruction)


def instances(en, ci, n):
    """n instances of class ci from enumerator en."""
    for _ in range(n):
        facts = []
        a = en.assignment(ci, facts)
        yield Instance(ci, a, facts)
