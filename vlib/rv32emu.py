"""RV32IMC reference emulator (decoder + executor), written from the RISC-V
unprivileged specification.  Standard library only; does NOT import ppci.

It is the oracle for checks on ppci's RISC-V backend (C05, C07, C13), so it is
written for obviousness, not speed (about 0.4 M instructions/s on an idle core).  Its own
validation is ``python -m vlib.rv32emu_selftest`` (decoder vs llvm-objdump,
execution vs clang-compiled C compared with gcc-native results).

Decoder
-------
``decode(data, pc=None) -> Insn``
    ``data`` is ``bytes`` (little-endian parcels, at least 2 resp. 4 bytes; extra
    bytes are ignored) or an ``int`` (low 16 bits used unless bits[1:0]==0b11).
    Never raises for a bit pattern: undefined/reserved encodings give an Insn
    with ``mnemonic == "illegal"`` (``insn.is_illegal``) of length 2 or 4
    (ValueError only if ``data`` is shorter than the instruction it starts).
``decode_stream(data, pc=0)``  generator: linear sweep over a byte string.
``disasm(insn, abi=True) -> str``
    llvm ``-M no-aliases`` style text (``addi a0, zero, -1``, ``c.lw s0, 0(a0)``).

``Insn`` fields: ``raw`` (int), ``length`` (2|4), ``mnemonic`` (spec spelling:
"addi", "c.j", ...), ``ext`` ("I", "M", "C", "Zicsr", "Zifencei" or None when
illegal), ``pc``, ``rd/rs1/rs2`` (register numbers 0..31 or None), ``imm`` (int
or None), ``csr``, ``expanded`` (compressed instructions only: the equivalent
base-ISA Insn, e.g. ``c.li a0,5`` -> ``addi a0,zero,5``; it is what is executed),
``target`` (property: absolute destination of branch/jal/c.j/... when pc known).
Operand conventions:
  * register fields are full x-register numbers (x8..x15 for the 3-bit C fields);
  * ALU immediates are sign-extended; shift amounts are 0..31;
  * loads ``rd, imm(rs1)``; stores ``rs2, imm(rs1)``; C forms carry the scaled
    byte offset; sp-relative C forms have ``rs1 == 2``;
  * branches/jal/c.j/c.jal/c.beqz/c.bnez: ``imm`` = signed byte offset from pc;
  * lui/auipc/c.lui: ``imm`` = the 20-bit field 0..0xfffff (value = imm << 12);
  * c.addi16sp/c.addi4spn: ``imm`` = byte amount, ``rd`` (and rs1) as printed;
  * fence: ``imm`` = fm<<8 | pred<<4 | succ;  csr*: ``csr`` number, ``rs1`` or
    (immediate forms) ``imm`` = zimm;
  * a compressed Insn lists only the operands of its assembly syntax; implicit
    ones (x0, ra, the repeated rd) are explicit in ``.expanded``.
Reserved encodings are illegal: c.addi4spn/c.addi16sp/c.lui with zero
immediate, c.lwsp rd=0, c.jr rs1=0, RV64/RV128-only and F/D compressed forms,
and all RV32 shifts with shamt[5]=1 (base and compressed).  HINT encodings
(c.nop imm, c.li x0, c.slli rd,0, ...) decode as their natural instruction and
execute as no-ops.  fence ignores its reserved fields (rd, rs1, fm) as the spec
requires.  Zicsr is decoded (for disassembly) but executing it faults ("csr");
privileged instructions (mret, wfi, ...) are illegal.

Machine
-------
``Machine(mem_size=None, regions=None, little_endian=True, base=0)``
    ``mem_size``: one writable RAM region [base, base+mem_size).  ``regions``:
    iterable of ``(addr, size_or_bytes, writable)``.  ``little_endian`` selects
    the byte order of *data* accesses (instruction fetch is always little-endian).
``add_region(addr, size_or_bytes, writable=True, name=None) -> Region``
``load_image(addr, data)``  copy bytes into already mapped memory (ignores the
    writable flag); ``read_mem(addr, n)``, ``write_mem`` (alias), ``read_word(addr)``.
``x`` (list of 32 ints, each 0..2**32-1; x[0] stays 0), ``pc``.
``step() -> Insn``  execute one instruction; raises ``Fault`` (``.kind``,
    ``.addr``, ``.pc``) leaving registers, memory, pc and counters unchanged.
    The returned Insn is the shared decode-cache entry (``pc`` is None; do not
    modify it); self-modifying code works because every step re-fetches.
``run(max_steps, stop_pc=None) -> str``  "ret" (pc reached ``stop_pc``, default
    the sentinel return address ``Machine.SENTINEL``), "steps" (budget used up)
    or "fault:<kind>" with kind in: illegal, ecall, ebreak, csr,
    misaligned-fetch/-load/-store, unmapped-fetch/-load/-store, readonly-store.
    The Fault is kept in ``machine.fault``.  Misaligned data accesses fault
    unless ``machine.allow_misaligned`` is set.
``call(addr, args=(), sp=None, max_steps=1000000) -> CallResult(status, a0, a1,
    steps, sp)``  ILP32 integer calling convention: each arg is an int (one
    32-bit word, taken mod 2**32) or ``U64(value)`` (long long: a register pair
    lo/hi, split between a7 and the stack if only a7 is left, 8-byte aligned
    when entirely on the stack).  Words go to a0..a7, further ones to the stack
    at sp+0 upwards with sp lowered to a 16-byte boundary; ra = sentinel; the
    ``sp`` argument defaults to the 16-byte aligned top of the last writable
    region added; other registers are left as they are.  Result: ``a0``/``a1``
    unsigned, ``CallResult.i32`` / ``.u64`` / ``.i64`` other views, ``sp`` = the
    stack pointer at entry (a conforming callee returns with x2 equal to it).
Counters: ``instret`` (instructions retired), ``hist`` (dict mnemonic -> count,
compressed forms counted under their c.* name), ``last_insn``.
Per-step observation (reset at the start of every step, recorded dynamically by
the register-file / memory accessors, so they describe what the executed
semantics actually touched): ``last_reads`` / ``last_writes`` (sets of register
numbers; x0 appears in reads when a source field names it, never in writes; pc
is not included), ``last_mem_reads`` / ``last_mem_writes`` (lists of
``(addr, size, unsigned_value)``; instruction fetch is not included).
"""

from collections import namedtuple

M32 = 0xFFFFFFFF
ABI_NAMES = ("zero ra sp gp tp t0 t1 t2 s0 s1 a0 a1 a2 a3 a4 a5 a6 a7 "
             "s2 s3 s4 s5 s6 s7 s8 s9 s10 s11 t3 t4 t5 t6").split()


def sext(v, bits):
    """Sign-extend the low `bits` bits of v."""
    s = 1 << (bits - 1)
    return (v & (s - 1)) - (v & s)


def _bits(v, hi, lo):
    return (v >> lo) & ((1 << (hi - lo + 1)) - 1)


class Insn:
    __slots__ = ("raw", "length", "mnemonic", "ext", "pc", "rd", "rs1", "rs2",
                 "imm", "csr", "expanded", "_exec")

    def __init__(self, raw, length, mnemonic, ext=None, rd=None, rs1=None,
                 rs2=None, imm=None, csr=None, expanded=None):
        self.raw, self.length, self.mnemonic, self.ext = raw, length, mnemonic, ext
        self.rd, self.rs1, self.rs2, self.imm, self.csr = rd, rs1, rs2, imm, csr
        self.expanded = expanded
        self.pc = None
        self._exec = None

    @property
    def is_illegal(self):
        return self.mnemonic == "illegal"

    @property
    def base(self):
        """The base-ISA instruction that is executed (self unless compressed)."""
        return self.expanded if self.expanded is not None else self

    @property
    def target(self):
        b = self.base
        if self.pc is None or b.mnemonic not in _PCREL:
            return None
        return (self.pc + b.imm) & M32

    def _at(self, pc):
        c = Insn(self.raw, self.length, self.mnemonic, self.ext, self.rd,
                 self.rs1, self.rs2, self.imm, self.csr, None)
        c.pc, c._exec = pc, self._exec
        if self.expanded is not None:
            c.expanded = self.expanded._at(pc)
        return c

    def __repr__(self):
        return "<Insn %0*x %s>" % (self.length * 2, self.raw, disasm(self))


_BRANCHES = {0: "beq", 1: "bne", 4: "blt", 5: "bge", 6: "bltu", 7: "bgeu"}
_LOADS = {0: "lb", 1: "lh", 2: "lw", 4: "lbu", 5: "lhu"}
_STORES = {0: "sb", 1: "sh", 2: "sw"}
_OPIMM = {0: "addi", 2: "slti", 3: "sltiu", 4: "xori", 6: "ori", 7: "andi"}
_OP = {(0, 0): "add", (0x20, 0): "sub", (0, 1): "sll", (0, 2): "slt",
       (0, 3): "sltu", (0, 4): "xor", (0, 5): "srl", (0x20, 5): "sra",
       (0, 6): "or", (0, 7): "and",
       (1, 0): "mul", (1, 1): "mulh", (1, 2): "mulhsu", (1, 3): "mulhu",
       (1, 4): "div", (1, 5): "divu", (1, 6): "rem", (1, 7): "remu"}
_CSR = {1: "csrrw", 2: "csrrs", 3: "csrrc", 5: "csrrwi", 6: "csrrsi", 7: "csrrci"}
_PCREL = frozenset(list(_BRANCHES.values()) + ["jal"])


def _decode32(w):
    """Decode a 32-bit base encoding (bits[1:0] == 11).  None if illegal."""
    opc = w & 0x7F
    rd, f3, rs1, rs2, f7 = _bits(w, 11, 7), _bits(w, 14, 12), _bits(w, 19, 15), \
        _bits(w, 24, 20), w >> 25
    if opc == 0x37:
        return Insn(w, 4, "lui", "I", rd=rd, imm=w >> 12)
    if opc == 0x17:
        return Insn(w, 4, "auipc", "I", rd=rd, imm=w >> 12)
    if opc == 0x6F:
        imm = sext((_bits(w, 31, 31) << 20) | (_bits(w, 19, 12) << 12) |
                   (_bits(w, 20, 20) << 11) | (_bits(w, 30, 21) << 1), 21)
        return Insn(w, 4, "jal", "I", rd=rd, imm=imm)
    if opc == 0x67:
        if f3 != 0:
            return None
        return Insn(w, 4, "jalr", "I", rd=rd, rs1=rs1, imm=sext(w >> 20, 12))
    if opc == 0x63:
        if f3 not in _BRANCHES:
            return None
        imm = sext((_bits(w, 31, 31) << 12) | (_bits(w, 7, 7) << 11) |
                   (_bits(w, 30, 25) << 5) | (_bits(w, 11, 8) << 1), 13)
        return Insn(w, 4, _BRANCHES[f3], "I", rs1=rs1, rs2=rs2, imm=imm)
    if opc == 0x03:
        if f3 not in _LOADS:
            return None
        return Insn(w, 4, _LOADS[f3], "I", rd=rd, rs1=rs1, imm=sext(w >> 20, 12))
    if opc == 0x23:
        if f3 not in _STORES:
            return None
        return Insn(w, 4, _STORES[f3], "I", rs1=rs1, rs2=rs2,
                    imm=sext((f7 << 5) | rd, 12))
    if opc == 0x13:
        if f3 == 1:
            if f7 != 0:            # includes shamt[5]=1: reserved on RV32
                return None
            return Insn(w, 4, "slli", "I", rd=rd, rs1=rs1, imm=rs2)
        if f3 == 5:
            if f7 not in (0, 0x20):
                return None
            return Insn(w, 4, "srai" if f7 else "srli", "I", rd=rd, rs1=rs1, imm=rs2)
        return Insn(w, 4, _OPIMM[f3], "I", rd=rd, rs1=rs1, imm=sext(w >> 20, 12))
    if opc == 0x33:
        m = _OP.get((f7, f3))
        if m is None:
            return None
        return Insn(w, 4, m, "M" if f7 == 1 else "I", rd=rd, rs1=rs1, rs2=rs2)
    if opc == 0x0F:
        if f3 == 0:   # reserved fields (rd, rs1, fm) are ignored: a normal fence
            return Insn(w, 4, "fence", "I", rd=rd, rs1=rs1, imm=w >> 20)
        if f3 == 1:
            return Insn(w, 4, "fence.i", "Zifencei", rd=rd, rs1=rs1, imm=w >> 20)
        return None
    if opc == 0x73:
        if f3 == 0:
            if w == 0x00000073:
                return Insn(w, 4, "ecall", "I")
            if w == 0x00100073:
                return Insn(w, 4, "ebreak", "I")
            return None            # privileged: mret, sret, wfi, sfence.vma, ...
        if f3 == 4:
            return None
        if f3 < 4:
            return Insn(w, 4, _CSR[f3], "Zicsr", rd=rd, rs1=rs1, csr=w >> 20)
        return Insn(w, 4, _CSR[f3], "Zicsr", rd=rd, imm=rs1, csr=w >> 20)
    return None


def _c(h, mnemonic, exp, **fields):
    """Build a compressed Insn whose base-ISA expansion is `exp`."""
    return Insn(h, 2, mnemonic, "C", expanded=exp, **fields)


def _decode16(h):
    """Decode a 16-bit RVC encoding (bits[1:0] != 11), RV32C integer subset.
    None if illegal / reserved / not in RV32C-without-F/D."""
    q, f3 = h & 3, h >> 13
    b12 = _bits(h, 12, 12)
    r_hi = _bits(h, 11, 7)             # full 5-bit rd/rs1 field
    r_lo = _bits(h, 6, 2)              # full 5-bit rs2 field
    p_hi = 8 + _bits(h, 9, 7)          # rs1' / rd'
    p_lo = 8 + _bits(h, 4, 2)          # rs2' / rd'
    imm6 = sext((b12 << 5) | r_lo, 6)
    if q == 0:
        if f3 == 0:
            imm = (_bits(h, 12, 11) << 4) | (_bits(h, 10, 7) << 6) | \
                (_bits(h, 6, 6) << 2) | (_bits(h, 5, 5) << 3)
            if imm == 0:               # includes the all-zero illegal instruction
                return None
            return _c(h, "c.addi4spn", Insn(h, 2, "addi", "I", rd=p_lo, rs1=2, imm=imm),
                      rd=p_lo, rs1=2, imm=imm)
        if f3 in (2, 6):
            imm = (_bits(h, 12, 10) << 3) | (_bits(h, 6, 6) << 2) | (_bits(h, 5, 5) << 6)
            if f3 == 2:
                return _c(h, "c.lw", Insn(h, 2, "lw", "I", rd=p_lo, rs1=p_hi, imm=imm),
                          rd=p_lo, rs1=p_hi, imm=imm)
            return _c(h, "c.sw", Insn(h, 2, "sw", "I", rs2=p_lo, rs1=p_hi, imm=imm),
                      rs2=p_lo, rs1=p_hi, imm=imm)
        return None                    # c.fld/c.flw/c.fsd/c.fsw, reserved
    if q == 1:
        if f3 == 0:
            exp = Insn(h, 2, "addi", "I", rd=r_hi, rs1=r_hi, imm=imm6)
            if r_hi == 0:
                return _c(h, "c.nop", exp, imm=imm6 if imm6 else None)
            return _c(h, "c.addi", exp, rd=r_hi, imm=imm6)
        if f3 in (1, 5):
            imm = sext((b12 << 11) | (_bits(h, 11, 11) << 4) | (_bits(h, 10, 9) << 8) |
                       (_bits(h, 8, 8) << 10) | (_bits(h, 7, 7) << 6) |
                       (_bits(h, 6, 6) << 7) | (_bits(h, 5, 3) << 1) |
                       (_bits(h, 2, 2) << 5), 12)
            if f3 == 1:                # RV32 only (c.addiw on RV64)
                return _c(h, "c.jal", Insn(h, 2, "jal", "I", rd=1, imm=imm), imm=imm)
            return _c(h, "c.j", Insn(h, 2, "jal", "I", rd=0, imm=imm), imm=imm)
        if f3 == 2:
            return _c(h, "c.li", Insn(h, 2, "addi", "I", rd=r_hi, rs1=0, imm=imm6),
                      rd=r_hi, imm=imm6)
        if f3 == 3:
            if r_hi == 2:
                imm = sext((b12 << 9) | (_bits(h, 6, 6) << 4) | (_bits(h, 5, 5) << 6) |
                           (_bits(h, 4, 3) << 7) | (_bits(h, 2, 2) << 5), 10)
                if imm == 0:
                    return None
                return _c(h, "c.addi16sp", Insn(h, 2, "addi", "I", rd=2, rs1=2, imm=imm),
                          rd=2, imm=imm)
            if imm6 == 0:
                return None
            imm = imm6 & 0xFFFFF
            return _c(h, "c.lui", Insn(h, 2, "lui", "I", rd=r_hi, imm=imm), rd=r_hi, imm=imm)
        if f3 == 4:
            f2 = _bits(h, 11, 10)
            if f2 < 2:
                if b12:                # shamt[5]=1: reserved on RV32
                    return None
                m = ("srli", "srai")[f2]
                return _c(h, "c." + m, Insn(h, 2, m, "I", rd=p_hi, rs1=p_hi, imm=r_lo),
                          rd=p_hi, imm=r_lo)
            if f2 == 2:
                return _c(h, "c.andi", Insn(h, 2, "andi", "I", rd=p_hi, rs1=p_hi, imm=imm6),
                          rd=p_hi, imm=imm6)
            if b12:                    # c.subw/c.addw (RV64) and reserved
                return None
            m = ("sub", "xor", "or", "and")[_bits(h, 6, 5)]
            return _c(h, "c." + m, Insn(h, 2, m, "I", rd=p_hi, rs1=p_hi, rs2=p_lo),
                      rd=p_hi, rs2=p_lo)
        imm = sext((b12 << 8) | (_bits(h, 11, 10) << 3) | (_bits(h, 6, 5) << 6) |
                   (_bits(h, 4, 3) << 1) | (_bits(h, 2, 2) << 5), 9)
        m = "beq" if f3 == 6 else "bne"
        return _c(h, "c.%sz" % m, Insn(h, 2, m, "I", rs1=p_hi, rs2=0, imm=imm),
                  rs1=p_hi, imm=imm)
    # q == 2
    if f3 == 0:
        if b12:                        # shamt[5]=1: reserved on RV32
            return None
        return _c(h, "c.slli", Insn(h, 2, "slli", "I", rd=r_hi, rs1=r_hi, imm=r_lo),
                  rd=r_hi, imm=r_lo)
    if f3 == 2:
        if r_hi == 0:
            return None
        imm = (b12 << 5) | (_bits(h, 6, 4) << 2) | (_bits(h, 3, 2) << 6)
        return _c(h, "c.lwsp", Insn(h, 2, "lw", "I", rd=r_hi, rs1=2, imm=imm),
                  rd=r_hi, rs1=2, imm=imm)
    if f3 == 4:
        if not b12:
            if r_lo == 0:
                if r_hi == 0:
                    return None
                return _c(h, "c.jr", Insn(h, 2, "jalr", "I", rd=0, rs1=r_hi, imm=0), rs1=r_hi)
            return _c(h, "c.mv", Insn(h, 2, "add", "I", rd=r_hi, rs1=0, rs2=r_lo),
                      rd=r_hi, rs2=r_lo)
        if r_lo == 0:
            if r_hi == 0:
                return _c(h, "c.ebreak", Insn(h, 2, "ebreak", "I"))
            return _c(h, "c.jalr", Insn(h, 2, "jalr", "I", rd=1, rs1=r_hi, imm=0), rs1=r_hi)
        return _c(h, "c.add", Insn(h, 2, "add", "I", rd=r_hi, rs1=r_hi, rs2=r_lo),
                  rd=r_hi, rs2=r_lo)
    if f3 == 6:
        imm = (_bits(h, 12, 9) << 2) | (_bits(h, 8, 7) << 6)
        return _c(h, "c.swsp", Insn(h, 2, "sw", "I", rs2=r_lo, rs1=2, imm=imm),
                  rs2=r_lo, rs1=2, imm=imm)
    return None                        # c.fldsp/c.flwsp/c.fsdsp/c.fswsp


_cache = {}


def _decode_raw(raw):
    """raw: 16-bit value (bits[1:0] != 11) or 32-bit value.  Cached, pc-less."""
    insn = _cache.get(raw)
    if insn is None:
        if raw & 3 == 3:
            insn = _decode32(raw) or Insn(raw, 4, "illegal")
        else:
            insn = _decode16(raw) or Insn(raw, 2, "illegal")
        insn._exec = _EXEC.get(insn.base.mnemonic, _x_illegal)
        if len(_cache) > 200000:
            _cache.clear()
        _cache[raw] = insn
    return insn


def decode(data, pc=None):
    """Decode one instruction from bytes (little-endian) or an int."""
    if isinstance(data, int):
        raw = data & M32 if data & 3 == 3 else data & 0xFFFF
    else:
        if len(data) < 2:
            raise ValueError("need at least 2 bytes")
        raw = data[0] | data[1] << 8
        if raw & 3 == 3:
            if len(data) < 4:
                raise ValueError("truncated 32-bit instruction")
            raw |= data[2] << 16 | data[3] << 24
    return _decode_raw(raw)._at(pc)


def decode_stream(data, pc=0):
    """Linear sweep: yields the Insn at pc, pc+len, ... until data is used up."""
    off = 0
    while off < len(data):
        insn = decode(data[off:off + 4], pc + off)
        yield insn
        off += insn.length


def disasm(insn, abi=True):
    """Text of an Insn in llvm `-M no-aliases` operand order."""
    def r(n):
        return ABI_NAMES[n] if abi else "x%d" % n

    def tgt():
        return "0x%x" % insn.target if insn.pc is not None else ".%+d" % insn.imm
    m = insn.mnemonic
    b = m[2:] if m.startswith("c.") else m
    if m == "illegal":
        ops = []
    elif m in ("c.nop", "c.ebreak", "ecall", "ebreak", "fence.i"):
        ops = [] if insn.imm is None or m == "fence.i" else [str(insn.imm)]
    elif m == "fence":
        def s(v):
            return "".join(c for c, k in zip("iorw", (8, 4, 2, 1)) if v & k) or "0"
        ops = [s(insn.imm >> 4 & 15), s(insn.imm & 15)]
    elif insn.ext == "Zicsr":
        ops = [r(insn.rd), "0x%x" % insn.csr, r(insn.rs1) if insn.rs1 is not None
               else str(insn.imm)]
    elif m in ("c.j", "c.jal"):
        ops = [tgt()]
    elif m in ("c.jr", "c.jalr"):
        ops = [r(insn.rs1)]
    elif m in ("c.beqz", "c.bnez"):
        ops = [r(insn.rs1), tgt()]
    elif m == "jal":
        ops = [r(insn.rd), tgt()]
    elif b in _BRANCHES.values():
        ops = [r(insn.rs1), r(insn.rs2), tgt()]
    elif b in _LOADS.values() or m == "c.lwsp" or m == "jalr":
        ops = [r(insn.rd), "%d(%s)" % (insn.imm, r(insn.rs1))]
    elif b in _STORES.values() or m == "c.swsp":
        ops = [r(insn.rs2), "%d(%s)" % (insn.imm, r(insn.rs1))]
    else:
        ops = [r(v) for v in (insn.rd, insn.rs1, insn.rs2) if v is not None]
        if insn.imm is not None:
            ops.append(str(insn.imm))
    return (m + " " + ", ".join(ops)).strip()


# --------------------------------------------------------------------------
# Execution

class Fault(Exception):
    def __init__(self, kind, addr=None, pc=None):
        Exception.__init__(self, kind, addr, pc)
        self.kind, self.addr, self.pc = kind, addr, pc

    def __str__(self):
        return "fault:%s%s%s" % (
            self.kind, "" if self.addr is None else " addr=0x%08x" % self.addr,
            "" if self.pc is None else " pc=0x%08x" % self.pc)


class Region:
    __slots__ = ("addr", "end", "data", "writable", "name")

    def __init__(self, addr, data, writable, name):
        self.addr, self.end, self.data = addr, addr + len(data), data
        self.writable, self.name = writable, name

    def __repr__(self):
        return "<Region %s 0x%08x..0x%08x %s>" % (
            self.name, self.addr, self.end, "rw" if self.writable else "ro")


def _s32(v):
    return v - ((v & 0x80000000) << 1)


def _div(a, b):                        # signed, rounding towards zero
    if b == 0:
        return -1
    a, b = _s32(a), _s32(b)            # overflow (-2**31 / -1) wraps to -2**31
    q = abs(a) // abs(b)
    return -q if (a < 0) != (b < 0) else q


def _rem(a, b):                        # sign of the dividend
    if b == 0:
        return a
    a, b = _s32(a), _s32(b)
    r = abs(a) % abs(b)                # overflow case gives 0
    return -r if a < 0 else r


_ALU = {
    "add": lambda a, b: a + b,
    "sub": lambda a, b: a - b,
    "sll": lambda a, b: a << (b & 31),
    "slt": lambda a, b: int(_s32(a) < _s32(b)),
    "sltu": lambda a, b: int(a < b),
    "xor": lambda a, b: a ^ b,
    "srl": lambda a, b: a >> (b & 31),
    "sra": lambda a, b: _s32(a) >> (b & 31),
    "or": lambda a, b: a | b,
    "and": lambda a, b: a & b,
    "mul": lambda a, b: a * b,
    "mulh": lambda a, b: (_s32(a) * _s32(b)) >> 32,
    "mulhsu": lambda a, b: (_s32(a) * b) >> 32,
    "mulhu": lambda a, b: (a * b) >> 32,
    "div": _div,
    "divu": lambda a, b: a // b if b else M32,
    "rem": _rem,
    "remu": lambda a, b: a % b if b else a,
}
_ALU_IMM = {"addi": "add", "slti": "slt", "sltiu": "sltu", "xori": "xor",
            "ori": "or", "andi": "and", "slli": "sll", "srli": "srl", "srai": "sra"}
_COND = {
    "beq": lambda a, b: a == b,
    "bne": lambda a, b: a != b,
    "blt": lambda a, b: _s32(a) < _s32(b),
    "bge": lambda a, b: _s32(a) >= _s32(b),
    "bltu": lambda a, b: a < b,
    "bgeu": lambda a, b: a >= b,
}
_EXEC = {}    # base mnemonic -> f(machine, base_insn, pc, length); must set m.pc


def _mk_rr(fn):
    def ex(m, e, pc, n):
        m.wr(e.rd, fn(m.rr(e.rs1), m.rr(e.rs2)))
        m.pc = (pc + n) & M32
    return ex


def _mk_ri(fn):
    def ex(m, e, pc, n):               # sltiu/andi...: the sign-extended imm as u32
        m.wr(e.rd, fn(m.rr(e.rs1), e.imm & M32))
        m.pc = (pc + n) & M32
    return ex


def _mk_branch(fn):
    def ex(m, e, pc, n):
        taken = fn(m.rr(e.rs1), m.rr(e.rs2))
        m.pc = (pc + (e.imm if taken else n)) & M32
    return ex


def _mk_load(size, signed):
    def ex(m, e, pc, n):
        v = m.load((m.rr(e.rs1) + e.imm) & M32, size)
        m.wr(e.rd, sext(v, 8 * size) if signed else v)
        m.pc = (pc + n) & M32
    return ex


def _mk_store(size):
    def ex(m, e, pc, n):
        addr = (m.rr(e.rs1) + e.imm) & M32
        m.store(addr, size, m.rr(e.rs2) & ((1 << 8 * size) - 1))
        m.pc = (pc + n) & M32
    return ex


def _x_lui(m, e, pc, n):
    m.wr(e.rd, e.imm << 12)
    m.pc = (pc + n) & M32


def _x_auipc(m, e, pc, n):
    m.wr(e.rd, pc + (e.imm << 12))
    m.pc = (pc + n) & M32


def _x_jal(m, e, pc, n):
    m.wr(e.rd, pc + n)
    m.pc = (pc + e.imm) & M32          # always even: imm is a multiple of 2


def _x_jalr(m, e, pc, n):
    t = (m.rr(e.rs1) + e.imm) & 0xFFFFFFFE     # read rs1 before writing rd
    m.wr(e.rd, pc + n)
    m.pc = t


def _x_nop(m, e, pc, n):               # fence, fence.i: single hart, no caches
    m.pc = (pc + n) & M32


def _x_illegal(m, e, pc, n):
    raise Fault("illegal", pc=pc)


def _x_ecall(m, e, pc, n):
    raise Fault("ecall", pc=pc)


def _x_ebreak(m, e, pc, n):
    raise Fault("ebreak", pc=pc)


def _x_csr(m, e, pc, n):
    raise Fault("csr", pc=pc)


for _m, _f in _ALU.items():
    _EXEC[_m] = _mk_rr(_f)
for _m, _b in _ALU_IMM.items():
    _EXEC[_m] = _mk_ri(_ALU[_b])
for _m, _f in _COND.items():
    _EXEC[_m] = _mk_branch(_f)
for _m, _sz, _sg in (("lb", 1, 1), ("lh", 2, 1), ("lw", 4, 0), ("lbu", 1, 0), ("lhu", 2, 0)):
    _EXEC[_m] = _mk_load(_sz, _sg)
for _m, _sz in (("sb", 1), ("sh", 2), ("sw", 4)):
    _EXEC[_m] = _mk_store(_sz)
_EXEC.update({"lui": _x_lui, "auipc": _x_auipc, "jal": _x_jal, "jalr": _x_jalr,
              "fence": _x_nop, "fence.i": _x_nop, "ecall": _x_ecall,
              "ebreak": _x_ebreak, "illegal": _x_illegal})
for _m in _CSR.values():
    _EXEC[_m] = _x_csr


class U64(int):
    """Marks a call() argument as a 64-bit integer (long long)."""


class CallResult(namedtuple("CallResult", "status a0 a1 steps sp")):
    __slots__ = ()
    i32 = property(lambda s: _s32(s.a0))
    u64 = property(lambda s: s.a0 | s.a1 << 32)
    i64 = property(lambda s: (s.a0 | s.a1 << 32) - ((s.a1 & 0x80000000) << 33))


class Machine:
    SENTINEL = 0xFFFFFFF0              # return address used by call(); never mapped

    def __init__(self, mem_size=None, regions=None, little_endian=True, base=0):
        self.x = [0] * 32
        self.pc = 0
        self.regions = []
        self.little_endian = little_endian
        self._bo = "little" if little_endian else "big"
        self.allow_misaligned = False
        self.sentinel = self.SENTINEL
        self.instret = 0
        self.hist = {}
        self.last_insn = None
        self.fault = None
        self._rl, self._wl, self._mr, self._mw = [], [], [], []
        # most recently used data / fetch region (starts as an empty dummy)
        self._dreg = self._freg = Region(0, b"", False, "none")
        if mem_size is not None:
            self.add_region(base, mem_size, True, "ram")
        for reg in regions or ():
            self.add_region(*reg)

    # ---- memory ----------------------------------------------------------
    def add_region(self, addr, size_or_bytes, writable=True, name=None):
        data = bytearray(size_or_bytes)     # int -> zero filled, bytes -> copy
        if addr < 0 or addr + len(data) > 1 << 32 or not data:
            raise ValueError("region outside the 32-bit address space or empty")
        for r in self.regions:
            if addr < r.end and r.addr < addr + len(data):
                raise ValueError("region overlaps %r" % r)
        reg = Region(addr, data, bool(writable), name or "r%d" % len(self.regions))
        self.regions.append(reg)
        return reg

    def _find(self, addr, size):
        for r in self.regions:
            if r.addr <= addr and addr + size <= r.end:
                return r
        return None

    def load_image(self, addr, data):
        r = self._find(addr, len(data))
        if r is None:
            raise ValueError("image 0x%x+%d is not inside one mapped region" % (addr, len(data)))
        r.data[addr - r.addr:addr - r.addr + len(data)] = data

    write_mem = load_image

    def read_mem(self, addr, n):
        r = self._find(addr, n)
        if r is None:
            raise ValueError("0x%x+%d is not inside one mapped region" % (addr, n))
        return bytes(r.data[addr - r.addr:addr - r.addr + n])

    def read_word(self, addr):
        return int.from_bytes(self.read_mem(addr, 4), self._bo)

    @property
    def default_sp(self):
        for r in reversed(self.regions):
            if r.writable:
                return r.end & ~15
        raise ValueError("no writable region for a stack")

    def load(self, addr, size):
        """Data load used by instruction semantics: unsigned value, logged."""
        if addr & (size - 1) and not self.allow_misaligned:
            raise Fault("misaligned-load", addr)
        r = self._dreg
        if not (r.addr <= addr and addr + size <= r.end):
            r = self._find(addr, size)
            if r is None:
                raise Fault("unmapped-load", addr)
            self._dreg = r
        off = addr - r.addr
        v = int.from_bytes(r.data[off:off + size], self._bo)
        self._mr.append((addr, size, v))
        return v

    def store(self, addr, size, value):
        if addr & (size - 1) and not self.allow_misaligned:
            raise Fault("misaligned-store", addr)
        r = self._dreg
        if not (r.addr <= addr and addr + size <= r.end):
            r = self._find(addr, size)
            if r is None:
                raise Fault("unmapped-store", addr)
            self._dreg = r
        if not r.writable:
            raise Fault("readonly-store", addr)
        off = addr - r.addr
        r.data[off:off + size] = value.to_bytes(size, self._bo)
        self._mw.append((addr, size, value))

    def fetch(self, pc):
        """Raw encoding at pc: 16-bit parcel, or 32 bits if parcel[1:0]==11."""
        if pc & 1:
            raise Fault("misaligned-fetch", pc)
        r = self._freg
        if r.addr <= pc and pc + 4 <= r.end:
            d, off = r.data, pc - r.addr
            raw = d[off] | d[off + 1] << 8
            if raw & 3 == 3:
                raw |= d[off + 2] << 16 | d[off + 3] << 24
            return raw
        raw = 0
        for i in (0, 2):               # parcel by parcel (may straddle regions)
            r = self._find(pc + i, 2)
            if r is None:
                raise Fault("unmapped-fetch", pc + i)
            if i == 0:
                self._freg = r
            off = pc + i - r.addr
            raw |= (r.data[off] | r.data[off + 1] << 8) << (8 * i)
            if raw & 3 != 3:
                break
        return raw

    # ---- register file (logged) -----------------------------------------
    def rr(self, n):
        self._rl.append(n)
        return self.x[n]

    def wr(self, n, v):
        if n:                          # writes to x0 are discarded
            self._wl.append(n)
            self.x[n] = v & M32

    last_reads = property(lambda self: set(self._rl))
    last_writes = property(lambda self: set(self._wl))
    last_mem_reads = property(lambda self: list(self._mr))
    last_mem_writes = property(lambda self: list(self._mw))

    # ---- execution --------------------------------------------------------
    def step(self):
        self._rl.clear()
        self._wl.clear()
        self._mr.clear()
        self._mw.clear()
        pc = self.pc
        try:
            insn = _decode_raw(self.fetch(pc))
            # A faulting instruction changes nothing: every semantic function
            # performs its only register/memory write after all its checks.
            insn._exec(self, insn.expanded or insn, pc, insn.length)
        except Fault as f:
            if f.pc is None:
                f.pc = pc
            self.fault = f
            raise
        self.instret += 1
        h = self.hist
        m = insn.mnemonic
        h[m] = h.get(m, 0) + 1
        self.last_insn = insn
        return insn

    def run(self, max_steps, stop_pc=None):
        stop = self.sentinel if stop_pc is None else stop_pc
        step = self.step
        try:
            for _ in range(max_steps):
                if self.pc == stop:
                    return "ret"
                step()
        except Fault as f:
            return "fault:" + f.kind
        return "ret" if self.pc == stop else "steps"

    def call(self, addr, args=(), sp=None, max_steps=1000000):
        x = self.x
        sp = self.default_sp if sp is None else sp
        regs, stack = [], []           # 32-bit words
        for a in args:
            words = [a & M32]
            if isinstance(a, U64):
                words.append(a >> 32 & M32)
                if len(regs) >= 8 and len(stack) & 1:
                    stack.append(0)    # 8-byte alignment of a long long on the stack
            for w in words:
                (regs if len(regs) < 8 else stack).append(w)
        if stack:
            sp = (sp - 4 * len(stack)) & ~15
            self.load_image(sp, b"".join(w.to_bytes(4, self._bo) for w in stack))
        x[10:10 + len(regs)] = regs
        x[1], x[2], self.pc = self.sentinel, sp & M32, addr & M32
        before = self.instret
        status = self.run(max_steps)
        return CallResult(status, x[10], x[11], self.instret - before, sp & M32)
