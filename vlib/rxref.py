"""Reference pieces for C31 (regular-expression automata).  No ppci import.

AST (json-able nested lists):
    ["lit", ch]            one literal character (rendered escaped when it is a metacharacter)
    ["dot"]                any character ('.', compared with re.DOTALL)
    ["cls", [item, ...]]   character class; item = ch | [lo, hi] with lo < hi
    ["eps"]                empty expression (only built directly, never rendered inside something)
    ["star", e] ["plus", e] ["opt", e]
    ["cat", l, r] ["alt", l, r]
    ["grp", e]             a redundant pair of parentheses (random part only)

Three independent things are derived from an AST:
  * render(): the pattern text with the minimal parentheses Python's ``re`` needs;
  * Glushkov position automaton (first/last/follow) -> second oracle, and the dead-state,
    prefix-ambiguity and determinism predicates used by the avoid switches;
  * nothing else: ppci objects are built in checks/c31.py.
"""
import itertools

META = "\\|()[].*+?"
CLASS_META = "\\]-^["

UN = ("star", "plus", "opt")
PREC = {"alt": 0, "cat": 1, "star": 2, "plus": 2, "opt": 2, "lit": 3, "dot": 3, "cls": 3, "grp": 3, "eps": 3}
SUFFIX = {"star": "*", "plus": "+", "opt": "?"}


def size(t):
    return 1 + sum(size(c) for c in t[1:] if isinstance(c, (list, tuple)) and t[0] not in ("lit", "cls"))


def render_cls(items):
    out = []
    for it in items:
        if isinstance(it, (list, tuple)):
            out.append(esc_cls(it[0]) + "-" + esc_cls(it[1]))
        else:
            out.append(esc_cls(it))
    return "[" + "".join(out) + "]"


def esc_cls(ch):
    return "\\" + ch if ch in CLASS_META else ch


def render(t, ctx=0):
    k = t[0]
    if k == "lit":
        s = "\\" + t[1] if t[1] in META else t[1]
    elif k == "dot":
        s = "."
    elif k == "cls":
        s = render_cls(t[1])
    elif k == "grp":
        s = "(" + render(t[1], 0) + ")"
    elif k in UN:
        s = render(t[1], 3) + SUFFIX[k]
    elif k == "cat":
        s = render(t[1], 1) + render(t[2], 1)
    elif k == "alt":
        s = render(t[1], 0) + "|" + render(t[2], 0)
    else:
        raise ValueError("cannot render %r" % (k,))
    if PREC[k] < ctx:
        s = "(" + s + ")"
    return s


def cls_chars(items):
    s = set()
    for it in items:
        if isinstance(it, (list, tuple)):
            s.update(chr(c) for c in range(ord(it[0]), ord(it[1]) + 1))
        else:
            s.add(it)
    return s


# ---- enumeration -----------------------------------------------------------

def enumerate_asts(n, atoms, _memo=None):
    """All ASTs with exactly n nodes over the given atoms (unary * + ?, binary cat alt)."""
    memo = {} if _memo is None else _memo

    def go(k):
        if k in memo:
            return memo[k]
        if k == 1:
            out = list(atoms)
        else:
            out = []
            for u in UN:
                for c in go(k - 1):
                    out.append([u, c])
            for b in ("cat", "alt"):
                for i in range(1, k - 1):
                    for l in go(i):
                        for r in go(k - 1 - i):
                            out.append([b, l, r])
        memo[k] = out
        return out

    return go(n)


def count_asts(n, natoms):
    c = {1: natoms}
    for k in range(2, n + 1):
        c[k] = 3 * c[k - 1] + 2 * sum(c[i] * c[k - 1 - i] for i in range(1, k - 1))
    return c[n]


def strings(alpha, maxlen):
    for n in range(maxlen + 1):
        for p in itertools.product(alpha, repeat=n):
            yield "".join(p)


# ---- structural predicates -------------------------------------------------

def strip_grp(t):
    if t[0] == "grp":
        return strip_grp(t[1])
    if t[0] in UN:
        return [t[0], strip_grp(t[1])]
    if t[0] in ("cat", "alt"):
        return [t[0], strip_grp(t[1]), strip_grp(t[2])]
    return t


def has(t, kinds):
    if t[0] in kinds:
        return True
    if t[0] in UN or t[0] == "grp":
        return has(t[1], kinds)
    if t[0] in ("cat", "alt"):
        return has(t[1], kinds) or has(t[2], kinds)
    return False


def concat_only_at_top(t):
    """True when every 'cat' node hangs directly under the root chain of 'cat' nodes, i.e. the
    expression is  item item ...  with no concatenation inside an alternative, a group or under
    a postfix operator.  (The shape ppci's parser handled before the parser fix.)"""
    if t[0] == "cat":
        return concat_only_at_top(t[1]) and concat_only_at_top(t[2])
    return not has(t, ("cat",))


def quant_depth(t):
    """Maximal number of nested postfix operators on a path."""
    if t[0] in UN:
        return 1 + quant_depth(t[1])
    if t[0] == "grp":
        return quant_depth(t[1])
    if t[0] in ("cat", "alt"):
        return max(quant_depth(t[1]), quant_depth(t[2]))
    return 0


def expand_plus(t):
    """e+ -> e e*  (what ppci's parser and Regex API build: two copies of e)"""
    t = strip_grp(t)
    if t[0] == "plus":
        e = expand_plus(t[1])
        return ["cat", e, ["star", e]]
    if t[0] in UN:
        return [t[0], expand_plus(t[1])]
    if t[0] in ("cat", "alt"):
        return [t[0], expand_plus(t[1]), expand_plus(t[2])]
    return t


def nullable(t):
    k = t[0]
    if k in ("star", "opt", "eps"):
        return True
    if k in ("plus", "grp"):
        return nullable(t[1])
    if k == "cat":
        return nullable(t[1]) and nullable(t[2])
    if k == "alt":
        return nullable(t[1]) or nullable(t[2])
    return False


def star_over_nullable(t):
    k = t[0]
    if k in ("star", "plus") and nullable(t[1]):
        return True
    if k in UN or k == "grp":
        return star_over_nullable(t[1])
    if k in ("cat", "alt"):
        return star_over_nullable(t[1]) or star_over_nullable(t[2])
    return False


def surely_terminates(t):
    """A class on which a derivative construction without any alternation normal form provably
    stays finite: star-free expressions (finite language, empty derivatives collapse to NULL), and
    expressions whose position automaton (with e+ read as e e*, as ppci builds it) is deterministic
    and that have no star over a nullable body: after every input there is at most one live
    thread, so no derivative ever contains a sum that the expression did not contain."""
    if not has(t, ("star", "plus")):
        return True
    e = expand_plus(t)
    if star_over_nullable(e):
        return False
    return Glushkov(e).deterministic()


# ---- Glushkov position automaton --------------------------------------------

class Glushkov:
    """Positions 1..n carry a character predicate; state 0 is the start.

    sym[p] is None (any character) or a frozenset of characters."""

    def __init__(self, t):
        self.sym = [None]
        self.follow = [set()]
        nullable, first, last = self._go(strip_grp(t))
        self.nullable = nullable
        self.follow[0] = set(first)
        self.last = set(last)
        self.n = len(self.sym) - 1

    def _new(self, pred):
        self.sym.append(pred)
        self.follow.append(set())
        return len(self.sym) - 1

    def _go(self, t):
        k = t[0]
        if k == "eps":
            return True, set(), set()
        if k == "lit":
            p = self._new(frozenset(t[1]))
            return False, {p}, {p}
        if k == "dot":
            p = self._new(None)
            return False, {p}, {p}
        if k == "cls":
            p = self._new(frozenset(cls_chars(t[1])))
            return False, {p}, {p}
        if k in UN:
            n, f, l = self._go(t[1])
            if k in ("star", "plus"):
                for p in l:
                    self.follow[p] |= f
            return (n or k != "plus"), f, l
        if k == "cat":
            n1, f1, l1 = self._go(t[1])
            n2, f2, l2 = self._go(t[2])
            for p in l1:
                self.follow[p] |= f2
            return (n1 and n2), (f1 | f2 if n1 else f1), (l1 | l2 if n2 else l2)
        if k == "alt":
            n1, f1, l1 = self._go(t[1])
            n2, f2, l2 = self._go(t[2])
            return (n1 or n2), f1 | f2, l1 | l2
        raise ValueError(k)

    def matches(self, p, ch):
        s = self.sym[p]
        return s is None or ch in s

    def step(self, states, ch):
        out = set()
        for q in states:
            for p in self.follow[q]:
                if self.matches(p, ch):
                    out.add(p)
        return frozenset(out)

    def accepting(self, states):
        return any((q == 0 and self.nullable) or q in self.last for q in states)

    def accepts(self, s):
        cur = frozenset([0])
        for ch in s:
            cur = self.step(cur, ch)
            if not cur:
                return False
        return self.accepting(cur)

    def table(self, alpha, maxlen):
        """{string: accepted} for every string over alpha up to maxlen (trie walk)."""
        out = {}

        def walk(prefix, cur):
            out[prefix] = bool(cur) and self.accepting(cur)
            if len(prefix) == maxlen:
                return
            for ch in alpha:
                walk(prefix + ch, self.step(cur, ch) if cur else cur)

        walk("", frozenset([0]))
        return out

    def char_classes(self):
        """Representative characters: one per distinct behaviour (all named chars + one other)."""
        named = set()
        for s in self.sym[1:]:
            if s is not None:
                named |= s
        other = next(chr(c) for c in range(1, 256) if chr(c) not in named)
        return sorted(named) + [other]

    def subset_states(self, limit=100000):
        """number of reachable state sets of the subset construction (incl. the empty set if reached):
        an upper bound for the minimal DFA"""
        reps = self.char_classes()
        seen = {frozenset([0])}
        todo = [frozenset([0])]
        while todo and len(seen) < limit:
            cur = todo.pop()
            for ch in reps:
                nxt = self.step(cur, ch)
                if nxt not in seen:
                    seen.add(nxt)
                    todo.append(nxt)
        return len(seen)

    def has_dead_state(self):
        """Is there a string (over chr(0)..chr(255)) that is not a prefix of any word of the
        language?  Every position can reach the end, so this is: the subset construction reaches
        the empty set."""
        reps = self.char_classes()
        seen = {frozenset([0])}
        todo = [frozenset([0])]
        while todo:
            cur = todo.pop()
            for ch in reps:
                nxt = self.step(cur, ch)
                if not nxt:
                    return True
                if nxt not in seen:
                    seen.add(nxt)
                    todo.append(nxt)
        return False

    def deterministic(self):
        reps = self.char_classes()
        for p in range(self.n + 1):
            for ch in reps:
                if sum(1 for q in self.follow[p] if self.matches(q, ch)) > 1:
                    return False
        return True

    def prefix_ambiguous(self):
        """Are there two different runs on the same string that end in the same position?"""
        reps = self.char_classes()
        seen = set()
        todo = [(0, 0, False)]
        while todo:
            item = todo.pop()
            if item in seen:
                continue
            seen.add(item)
            p, q, split = item
            for ch in reps:
                for p2 in self.follow[p]:
                    if not self.matches(p2, ch):
                        continue
                    for q2 in self.follow[q]:
                        if not self.matches(q2, ch):
                            continue
                        s2 = split or p2 != q2
                        if s2 and p2 == q2:
                            return True
                        todo.append((p2, q2, s2))
        return False
