"""Subprocess body for C22/C23: instantiate wasm modules with ppci and run a call script.

usage: python -m vlib.ppci_wasm_run job.json out.jsonl

job : {"target": "python"|"native",
       "modules": [{"id", "desc": wasmgen description, "build": "components"|"bytes", "wasm": base64 (for bytes),
                    "reuse": instantiate the Module object twice and use the second instance,
                    "watch_module": report whether instantiate() changed module.to_bytes(),
                    "calls": [{"f","args":[[type,text]],"ret"}], "globals":[{"name","typ"}], "memory": name|None}]}
out : one json object per line, flushed immediately, so that the parent knows
      what was in flight when a native trap killed this process:
      {"id","ev":"begin"} {"id","ev":"inst","v":text} {"id","ev":"call","k":n,"v":text}
      {"id","ev":"end","globals":{..},"mem":{..},"log":[..]}

Value text is the one of vlib/v8driver.js: i32/i64 decimal, f32/f64 hex bit
pattern (f32 after rounding to single), NaN -> "nan", no result -> "void".
Exceptions: "trap:wasm:<message>" (WasmTrapException), "trap:unreachable"
(runtime.Unreachable), "exc:<Type>:<message>" (anything else).
"""
import base64
import hashlib
import json
import math
import re
import struct
import sys


def sx(v, bits):
    v &= (1 << bits) - 1
    return v - (1 << bits) if v >> (bits - 1) else v


def to_py(t, s):
    if t in ("i32", "i64"):
        return int(s)
    if t == "f32":
        return struct.unpack("<f", struct.pack("<I", int(s, 16)))[0]
    return struct.unpack("<d", struct.pack("<Q", int(s, 16)))[0]


def to_text(t, v):
    if t is None:
        # a function without result has nothing to compare (the native target's ctypes
        # prototype returns an arbitrary int for "void")
        return "void"
    if v is None:
        return "none"
    try:
        if t in ("i32", "i64"):
            if not isinstance(v, int):
                if float(v) != int(v):
                    return "nonint:%r" % (v,)
                v = int(v)
            return str(sx(v, 32 if t == "i32" else 64))
        v = float(v)
        if math.isnan(v):
            return "nan"
        if t == "f32":
            try:
                b = struct.pack("<f", v)
            except OverflowError:
                b = struct.pack("<f", math.copysign(math.inf, v))
            return "%08x" % struct.unpack("<I", b)[0]
        return "%016x" % struct.unpack("<Q", struct.pack("<d", v))[0]
    except Exception as e:  # noqa
        return "unprintable:%s:%r" % (type(e).__name__, v)


_NONZERO = re.compile(b"[^\\x00]")


def mem_info(data):
    """pages, sha256 and the first non-zero runs (same run detection as v8driver.js)."""
    data = bytes(data)
    n = len(data)
    nz = []
    i = 0
    while len(nz) < 48:
        mo = _NONZERO.search(data, i)
        if mo is None:
            break
        i = j = mo.start()
        while j < n and j - i < 64 and (data[j] or (j + 1 < n and data[j + 1])):
            j += 1
        nz.append([i, data[i:j].hex()])
        i = j
    return {"pages": n // 65536, "sha": hashlib.sha256(data).hexdigest(), "nz": nz}


def describe(e):
    from ppci.wasm import WasmTrapException
    from ppci.wasm.execution.runtime import Unreachable

    if isinstance(e, WasmTrapException):
        return "trap:wasm:%s" % (str(e)[:80],)
    if isinstance(e, Unreachable):
        return "trap:unreachable"
    return "exc:%s:%s" % (type(e).__name__, str(e)[:100].replace("\n", " "))


def main(argv):
    import logging

    logging.disable(logging.CRITICAL)
    # ppci.arch.get_current_arch() calls platform.architecture(), which forks `file` on every
    # instantiation; the answer is constant for this process
    import functools
    import platform

    platform.architecture = functools.lru_cache(maxsize=None)(platform.architecture)
    from ppci import ir, wasm
    from vlib import wasmgen

    with open(argv[0]) as f:
        job = json.load(f)
    out = open(argv[1], "a")

    def emit(obj):
        out.write(json.dumps(obj) + "\n")
        out.flush()

    target = job["target"]
    for m in job["modules"]:
        log = []

        def hi32(x: ir.i32) -> ir.i32:
            return sx(x ^ 0x5A5A5A5A, 32)

        def hi64(x: ir.i64) -> ir.i64:
            return sx(x + 1, 64)

        def hf64(x: ir.f64) -> ir.f64:
            return x * 0.5

        def hf32(x: ir.f32) -> ir.f32:
            return -x

        def hlog(x: ir.i32) -> None:
            log.append(sx(x, 32))

        def hmix(a: ir.i32, b: ir.i64, c: ir.f64) -> ir.i32:
            return sx(a + sx(b, 32) + (1 if c > 0 else 0), 32)

        host = {"hi32": hi32, "hi64": hi64, "hf64": hf64, "hf32": hf32, "hlog": hlog, "hmix": hmix}
        emit({"id": m["id"], "ev": "begin"})
        try:
            if m.get("build") == "bytes":
                module = wasm.Module(base64.b64decode(m["wasm"]))
            else:
                module = wasmgen.to_components(m["desc"])
            imports = {}
            for im in m["desc"]["imports"]:
                if im["kind"] == "func":
                    imports.setdefault(im["module"], {})[im["name"]] = host[im["name"]]
            before = module.to_bytes() if m.get("watch_module") else None
            if m.get("reuse"):
                # a Module object may be instantiated more than once: the first instance is thrown away
                wasm.instantiate(module, {k: dict(v) for k, v in imports.items()}, target=target)
                del log[:]      # host calls of the discarded instance's start function
            inst = wasm.instantiate(module, imports, target=target)
            ev = {"id": m["id"], "ev": "inst", "v": "ok"}
            if before is not None:
                ev["module_changed"] = module.to_bytes() != before
            emit(ev)
        except BaseException as e:  # noqa
            emit({"id": m["id"], "ev": "inst", "v": describe(e)})
            emit({"id": m["id"], "ev": "end", "log": log})
            continue
        for k, c in enumerate(m["calls"]):
            emit({"id": m["id"], "ev": "calling", "k": k})
            try:
                f = inst.exports[c["f"]]
                r = f(*[to_py(t, s) for t, s in c["args"]])
                v = to_text(c["ret"], r)
            except BaseException as e:  # noqa
                v = describe(e)
            emit({"id": m["id"], "ev": "call", "k": k, "v": v})
        gl = {}
        for g in m.get("globals", []):
            try:
                gl[g["name"]] = to_text(g["typ"], inst.exports[g["name"]].read())
            except BaseException as e:  # noqa
                gl[g["name"]] = describe(e)
        mem = None
        if m.get("memory"):
            try:
                mobj = inst.exports[m["memory"]]
                mem = mem_info(bytearray(mobj.read(0, mobj.size() * 65536)))
            except BaseException as e:  # noqa
                mem = {"error": describe(e)}
        emit({"id": m["id"], "ev": "end", "globals": gl, "mem": mem, "log": log})
    out.close()


if __name__ == "__main__":
    main(sys.argv[1:])
