"""Independent checker of register allocation results (DESIGN C06 'ramon.py').

Shares no code with ppci/codegen/flowgraph.py or interferencegraph.py: own
control flow graph (instruction granularity, from ``jumps`` / fall-through),
own backward liveness (worklist), own alias relation (transitive closure of
the ``aliases`` attribute of the physical registers, cross-checked against
``arch.info.alias``), own forward must-definition analysis for virtual
registers and for spill slots.

Observation points (harness side, see install()):
  * GraphColoringRegisterAllocator.remove_redundant_moves -- snapshot of
    frame.instructions just before the coalesced moves are deleted + the set
    of moves about to go;
  * GraphColoringRegisterAllocator.alloc_frame -- colours are final when it
    returns; the snapshot is judged then;
  * MiniGen.gen_load / gen_store, Frame.alloc, rewrite_program (only to learn
    which instructions are spill code for which slot, which slots exist and
    which registers a slot was made for);
  * at entry of alloc_frame the *input* list is analysed once by the same
    must-definition analysis: virtual registers that the instruction selector
    already left without a definition on some path (mips/or1k/thumb patterns
    that read a fresh register) are excluded from events c and d1 -- the
    allocator cannot lose what was never there.

Refuting events (keys of the returned findings):
  a  two registers live at the same point (one of them virtual) got the same
     or overlapping physical registers and are not move source/destination of
     the defining move (Chaitin criterion at every definition);
  b  an instruction clobbers a physical register that overlaps the colour of
     a virtual register live across it;
  c  a virtual register is used on some path without a definition before it;
  d1 a spill reload can be reached without a store to that slot before it;
  d2 two stack slots overlap while both hold a live value / a slot overlaps
     another slot of the frame at all when both are in use;
  e  a removed ("coalesced") move whose two sides got different colours;
  f  colour missing / not a register of the class; the list returned differs
     from snapshot minus removed moves.
Conflicts between two *physical* registers are never reported (ABI artefacts).
A conflict with a live virtual register that is not defined on every path to
that point (non-strict instruction list, e.g. a mips block that lost its branch
and falls into a loop header) is not judged either: on such a path the
register holds no value (counted in stats["nonstrict_skipped"]).
"""


class Alias:
    """Overlap relation between physical registers."""

    def __init__(self, arch):
        self.arch = arch
        self._desc = {}
        self._overlap = {}
        self.mismatch = []
        try:
            ref = arch.info.alias
        except Exception:  # noqa
            ref = {}
        # cross-check with ppci's (symmetric) table: same overlap relation on its registers
        keys = list(ref)
        for reg in keys:
            theirs = {id(x) for x in ref[reg]}
            for other in keys:
                if other is reg:
                    continue
                if self.overlap(reg, other) != (id(other) in theirs):
                    self.mismatch.append("%s/%s" % (reg, other))

    def desc(self, reg):
        """All registers reachable through .aliases (transitively), incl. reg."""
        key = id(reg)
        if key not in self._desc:
            seen = {key: reg}
            work = [reg]
            while work:
                r = work.pop()
                for a in getattr(r, "aliases", ()) or ():
                    if id(a) not in seen:
                        seen[id(a)] = a
                        work.append(a)
            self._desc[key] = seen
        return self._desc[key]

    def family(self, reg):
        return list(self.desc(reg).values())

    def overlap(self, p, q):
        """p and q name (partly) the same storage: they have a part in common
        (a register is a part of itself; parts are given by ``aliases``).  rax/al
        overlap (al is a part of rax), al/ah do not, two views of one pair of
        byte registers do."""
        if p is q:
            return True
        key = (id(p), id(q))
        if key not in self._overlap:
            dp, dq = self.desc(p), self.desc(q)
            self._overlap[key] = any(k in dq for k in dp)
        return self._overlap[key]


class Snapshot:
    def __init__(self, frame, instructions, removed):
        self.frame = frame
        self.instructions = instructions
        self.removed = removed


class Recorder:
    """State shared by the wrappers; one per worker process."""

    def __init__(self):
        self.snapshots = {}      # id(frame) -> Snapshot
        self.spill = {}          # id(instruction) -> (kind, slot, vreg)
        self.slots = {}          # id(frame) -> [StackLocation]
        self.results = []        # (frame, [finding dict], stats) appended when alloc_frame returns
        self.on_result = None
        self.raised = 0


def install(recorder):
    """Wrap the observation points.  Idempotent per process."""
    from ppci.codegen import registerallocator as ra
    from ppci.arch.stack import Frame

    RA = ra.GraphColoringRegisterAllocator
    if getattr(RA, "_ramon", None) is not None:
        RA._ramon = recorder
        return
    RA._ramon = recorder
    orig_remove = RA.remove_redundant_moves
    orig_alloc = RA.alloc_frame
    orig_load = ra.MiniGen.gen_load
    orig_store = ra.MiniGen.gen_store
    orig_frame_alloc = Frame.alloc

    def remove_redundant_moves(self):
        rec = RA._ramon
        rec.snapshots[id(self.frame)] = Snapshot(self.frame, list(self.frame.instructions), list(self.coalescedMoves))
        return orig_remove(self)

    def alloc_frame(self, frame):
        rec = RA._ramon
        rec.current_frame = frame
        rec.slot_origin = {}
        rec.current_temps = None
        # guard baseline: virtual registers that already lack a definition on some path in the
        # allocator's *input* (instruction selection artefacts) are not the allocator's doing
        try:
            rec.input_undefined = undefined_uses(list(frame.instructions))
        except Exception:  # noqa
            rec.input_undefined = None
        try:
            orig_alloc(self, frame)
        except BaseException:
            rec.raised += 1
            rec.snapshots.pop(id(frame), None)
            rec.spill.clear()
            rec.slots.pop(id(frame), None)
            raise
        snap = rec.snapshots.pop(id(frame), None)
        try:
            findings, stats = check_frame(self.arch, frame, snap, rec)
        finally:
            rec.spill.clear()
            rec.slots.pop(id(frame), None)
        if rec.on_result:
            rec.on_result(frame, findings, stats, snap)
        else:
            rec.results.append((frame, findings, stats))

    def gen_load(self, frame, vreg, slot):
        code = orig_load(self, frame, vreg, slot)
        rec = RA._ramon
        for ins in code:
            rec.spill[id(ins)] = ("load", slot, vreg, ins, getattr(rec, "sv_counter", 0))
        return code

    def gen_store(self, frame, vreg, slot):
        code = orig_store(self, frame, vreg, slot)
        rec = RA._ramon
        for ins in code:
            rec.spill[id(ins)] = ("store", slot, vreg, ins, getattr(rec, "sv_counter", 0))
        return code

    def frame_alloc(self, size, alignment):
        loc = orig_frame_alloc(self, size, alignment)
        rec = RA._ramon
        rec.slots.setdefault(id(self), []).append(loc)
        if getattr(rec, "current_temps", None) is not None:
            rec.slot_origin[id(loc)] = rec.current_temps
        return loc

    orig_rewrite = RA.rewrite_program

    def rewrite_program(self, node):
        rec = RA._ramon
        rec.current_temps = {id(t) for t in node.temps}
        rec.sv_counter = getattr(rec, "sv_counter", 0) + 1     # one "spilled value" per spilled node
        try:
            return orig_rewrite(self, node)
        finally:
            rec.current_temps = None

    RA.rewrite_program = rewrite_program

    RA.remove_redundant_moves = remove_redundant_moves
    RA.alloc_frame = alloc_frame
    ra.MiniGen.gen_load = gen_load
    ra.MiniGen.gen_store = gen_store
    Frame.alloc = frame_alloc


# --------------------------------------------------------------------------


def is_virtual(reg):
    return reg._num is None


def physical_of(reg, cache, arch=None):
    """The physical register a (coloured) register stands for, or None."""
    if reg._num is not None:
        return reg
    col = reg._color
    if col is None:
        return None
    cls = type(reg)
    key = (cls, col)
    if key not in cache:
        found = None
        try:
            for p in cls.all_registers():
                if p._num == col:
                    found = p
                    break
        except Exception:  # noqa  (class without a ``registers`` list: use the target's class table)
            found = None
            if arch is not None:
                for rc in arch.info.register_classes:
                    if issubclass(rc.typ, cls) or issubclass(cls, rc.typ):
                        for p in rc.registers or []:
                            if p._num == col and isinstance(p, cls):
                                found = p
                                break
                    if found is not None:
                        break
        cache[key] = found
    return cache[key]


def build_cfg(instrs):
    """successor index lists; an instruction with ``jumps`` goes to exactly
    those targets, every other one falls through."""
    index = {id(ins): i for i, ins in enumerate(instrs)}
    n = len(instrs)
    succ = []
    missing = []
    for i, ins in enumerate(instrs):
        js = ins.jumps
        if js:
            s = []
            for j in js:
                k = index.get(id(j))
                if k is None:
                    missing.append((i, str(j)))
                elif k not in s:
                    s.append(k)
            succ.append(s)
        else:
            succ.append([i + 1] if i + 1 < n else [])
    pred = [[] for _ in range(n)]
    for i, s in enumerate(succ):
        for k in s:
            pred[k].append(i)
    return succ, pred, missing


def reachable(succ, n):
    seen = [False] * n
    if n:
        seen[0] = True
        work = [0]
        while work:
            i = work.pop()
            for k in succ[i]:
                if not seen[k]:
                    seen[k] = True
                    work.append(k)
    return seen


def liveness(n, succ, pred, uses, defs):
    """Backward may-liveness; returns live_out per instruction (sets of keys)."""
    live_in = [set() for _ in range(n)]
    live_out = [set() for _ in range(n)]
    work = list(range(n))
    inwork = [True] * n
    while work:
        i = work.pop()
        inwork[i] = False
        out = set()
        for k in succ[i]:
            out |= live_in[k]
        live_out[i] = out
        new_in = uses[i] | (out - defs[i])
        if new_in != live_in[i]:
            live_in[i] = new_in
            for p in pred[i]:
                if not inwork[p]:
                    inwork[p] = True
                    work.append(p)
    return live_in, live_out


def must_defined(n, succ, pred, defs, universe, reach):
    """Forward must analysis: set of keys defined on *every* path from the
    entry to the point before instruction i."""
    full = set(universe)
    d_in = [set(full) for _ in range(n)]
    d_out = [set(full) for _ in range(n)]
    if n:
        d_in[0] = set()
    work = list(range(n - 1, -1, -1))
    inwork = [True] * n
    while work:
        i = work.pop()
        inwork[i] = False
        if i == 0:
            cur = set()
        else:
            ps = [p for p in pred[i] if reach[p]]
            if ps:
                cur = set(d_out[ps[0]])
                for p in ps[1:]:
                    cur &= d_out[p]
            else:
                cur = set(full) if not reach[i] else set()
        d_in[i] = cur
        new_out = cur | defs[i]
        if new_out != d_out[i]:
            d_out[i] = new_out
            for k in succ[i]:
                if not inwork[k]:
                    inwork[k] = True
                    work.append(k)
    return d_in


def undefined_uses(instrs):
    """ids of virtual registers that are read at a reachable instruction of
    ``instrs`` without being defined on every path from the entry."""
    n = len(instrs)
    succ, pred, _ = build_cfg(instrs)
    reach = reachable(succ, n)
    regs = {}
    uses, defs = [], []
    for ins in instrs:
        u = {id(r): r for r in ins.used_registers if is_virtual(r)}
        d = {id(r): r for r in ins.defined_registers if is_virtual(r)}
        regs.update(u)
        regs.update(d)
        uses.append(set(u))
        defs.append(set(d))
    d_in = must_defined(n, succ, pred, defs, set(regs), reach)
    bad = set()
    for i in range(n):
        if reach[i]:
            bad |= uses[i] - d_in[i]
    return bad


def check_frame(arch, frame, snap, rec=None):
    """-> (findings, stats).  findings: list of {"event", "what", "index", "instruction"}."""
    findings = []
    stats = {"instructions": 0, "virtual_registers": 0, "removed_moves": 0, "spill_loads": 0, "spill_stores": 0,
             "alias_pairs": 0, "definitions_checked": 0, "clobbers_checked": 0, "slots": 0, "pairs_compared": 0}

    def report(event, what, index=None):
        if len(findings) < 20:
            ins = None
            if index is not None:
                try:
                    ins = str(instrs[index])
                except Exception:  # noqa
                    ins = "?"
            findings.append({"event": event, "what": what, "index": index, "instruction": ins})

    if snap is None:
        instrs = list(frame.instructions)
        removed = []
        report("f", "remove_redundant_moves was not reached before alloc_frame returned")
        return findings, stats
    instrs = snap.instructions
    removed = snap.removed
    n = len(instrs)
    stats["instructions"] = n
    stats["removed_moves"] = len(removed)
    alias = getattr(arch, "_ramon_alias", None)
    if alias is None:
        alias = arch._ramon_alias = Alias(arch)
    if alias.mismatch:
        report("f", "arch.info.alias lists overlaps the aliases attributes do not give: %s" % alias.mismatch[:4])

    # ---- (f) returned list = snapshot minus removed moves
    removed_ids = {id(m) for m in removed}
    expect = [ins for ins in instrs if id(ins) not in removed_ids]
    final = list(frame.instructions)
    if len(expect) != len(final) or any(a is not b for a, b in zip(expect, final)):
        report("f", "instruction list after alloc_frame (%d) is not the pre-deletion list minus the %d coalesced moves (%d)" % (
            len(final), len(removed), len(expect)))

    # ---- registers, colours
    cache = {}
    allocatable = {}
    for rc in arch.info.register_classes:
        # a register of a sub-class is a legitimate colour for the class (nodes are narrowed when coalesced)
        for rc2 in arch.info.register_classes:
            if issubclass(rc2.typ, rc.typ):
                allocatable.setdefault(rc.typ, set()).update(id(r) for r in (rc2.registers or []))
    U, D, C = [], [], []
    regs = {}
    for ins in instrs:
        u = list(ins.used_registers)
        d = list(ins.defined_registers)
        c = list(ins.clobbers or [])
        U.append(u)
        D.append(d)
        C.append(c)
        for r in u + d:
            regs[id(r)] = r
    phys = {}
    for k, r in regs.items():
        p = physical_of(r, cache, arch)
        phys[k] = p
        if is_virtual(r):
            stats["virtual_registers"] += 1
            if p is None:
                report("f", "virtual register %s has colour %r which is no register of class %s" % (r.name, r._color, type(r).__name__))
            else:
                ok = None
                for cls in type(r).__mro__:
                    if cls in allocatable:
                        ok = id(p) in allocatable[cls]
                        break
                if ok is False:
                    # legitimate when the register was coalesced with a precoloured register outside the
                    # allocatable set (avr: mul result in r0); counted, not judged
                    stats["colours_outside_allocatable_set"] = stats.get("colours_outside_allocatable_set", 0) + 1

    succ, pred, missing = build_cfg(instrs)
    if missing:
        report("f", "jump target not in the instruction list: %s" % (missing[:3],))
    reach = reachable(succ, n)
    # A reachable instruction without ``jumps`` directly in front of a jump target (delay-slot nops behind a
    # jump are unreachable and do not count): the block lost its terminating
    # branch (seen on mips only).  ppci's flow graph has no edge there, the machine falls through; the
    # allocator's input has no defined control flow at that point and the frame is not judged.
    is_target = [False] * n
    for i, ss in enumerate(succ):
        if instrs[i].jumps:
            for k in ss:
                is_target[k] = True
    for i in range(n - 1):
        if reach[i] and not instrs[i].jumps and is_target[i + 1]:
            stats["skipped_flow_incomplete"] = 1
            return [f for f in findings if f["event"] == "f"], stats
    uses = [{id(r) for r in u} for u in U]
    defs = [{id(r) for r in d} for d in D]
    live_in, live_out = liveness(n, succ, pred, uses, defs)

    def ov(k1, k2):
        p, q = phys[k1], phys[k2]
        if p is None or q is None:
            return False
        if p is q:
            return True
        if type(p) is not type(q):
            stats["alias_pairs"] += 1     # comparison decided by the alias relation (different classes)
        return alias.overlap(p, q)

    # must-definition of virtual registers (used by c, and as strictness guard by a/b)
    vkeys = {k for k, r in regs.items() if is_virtual(r)}
    vdefs = [dd & vkeys for dd in defs]
    d_in = must_defined(n, succ, pred, vdefs, vkeys, reach)
    stats["nonstrict_skipped"] = 0

    def strict_here(i, k):
        """A live virtual register that is not defined on every path to the point after i holds no value
        on some path (only instruction lists that are already non-strict in the allocator's input, e.g.
        mips blocks without their branch, show this); conflicts with it are not judged."""
        if k not in vkeys or k in d_in[i] or k in defs[i]:
            return True
        stats["nonstrict_skipped"] += 1
        return False

    # ---- (a) Chaitin criterion at every definition, (b) clobbers
    for i, ins in enumerate(instrs):
        if not reach[i]:
            continue
        d = D[i]
        if d:
            src = id(U[i][0]) if (ins.ismove and U[i]) else None
            others = live_out[i] | defs[i]
            for r in d:
                kd = id(r)
                stats["definitions_checked"] += 1
                vd = is_virtual(r)
                for ko in others:
                    if ko == kd:
                        continue
                    o = regs[ko]
                    if not vd and not is_virtual(o):
                        continue
                    if ins.ismove and ko == src and kd == id(D[i][0]):
                        continue   # destination may share with the source of its own move
                    stats["pairs_compared"] += 1
                    if ov(kd, ko) and strict_here(i, ko):
                        report("a", "%s (defined here) and %s (live after) both occupy %s/%s" % (
                            r.name, o.name, getattr(phys[kd], "name", None), getattr(phys[ko], "name", None)), i)
        if C[i]:
            through = live_out[i]
            for c in C[i]:
                stats["clobbers_checked"] += 1
                for ko in through:
                    o = regs[ko]
                    if not is_virtual(o):
                        continue
                    p = phys[ko]
                    if p is not None and (p is c or alias.overlap(p, c)) and strict_here(i, ko):
                        report("b", "clobber of %s destroys %s (in %s) which is live after the instruction" % (
                            c.name, o.name, p.name), i)

    # ---- (c) every use of a virtual register has a definition on every path
    input_undefined = getattr(rec, "input_undefined", None) if rec is not None else None
    stats["input_undefined_registers"] = len(input_undefined or ())
    for i in range(n):
        if not reach[i]:
            continue
        for k in uses[i] & vkeys:
            if k not in d_in[i]:
                if input_undefined is None or k in input_undefined:
                    continue    # was already so in the allocator's input
                report("c", "virtual register %s is read here but not defined on every path from the entry" % regs[k].name, i)

    # ---- (e) removed moves
    for m in removed:
        try:
            s, t = m.used_registers[0], m.defined_registers[0]
        except Exception:  # noqa
            report("e", "removed instruction %s is no move" % m)
            continue
        ps, pt = physical_of(s, cache, arch), physical_of(t, cache, arch)
        if ps is None or pt is None or ps is not pt:
            report("e", "removed move %s: source %s in %s, destination %s in %s" % (
                m, s.name, getattr(ps, "name", None), t.name, getattr(pt, "name", None)))
        if not getattr(m, "ismove", False):
            report("e", "removed instruction %s is not marked as a move" % m)

    # ---- (d) spill slots.  The unit is the *spilled value* (one per spilled node = one call of
    # rewrite_program); each lives in the slot that call allocated.
    if rec is not None:
        sl_use = [set() for _ in range(n)]
        sl_def = [set() for _ in range(n)]
        slots = {}       # id(slot) -> slot
        sv_slot = {}     # spilled value -> slot
        for i, ins in enumerate(instrs):
            info = rec.spill.get(id(ins))
            if not info or info[3] is not ins:
                continue
            kind, slot, sv = info[0], info[1], (info[4], id(info[1]))
            slots[id(slot)] = slot
            sv_slot[sv] = slot
            # of the (possibly several) instructions of one spill sequence only the memory access counts;
            # all of them are adjacent, so attributing the access to each is equivalent for the dataflow
            if kind == "load":
                sl_use[i].add(sv)
                stats["spill_loads"] += 1
            else:
                sl_def[i].add(sv)
                stats["spill_stores"] += 1
        stats["slots"] = len(slots)
        stats["spilled_values"] = len(sv_slot)
        if sv_slot:
            sd_in = must_defined(n, succ, pred, sl_def, set(sv_slot), reach)
            for i in range(n):
                if reach[i]:
                    for k in sl_use[i]:
                        if k not in sd_in[i]:
                            origin = rec.slot_origin.get(k[1]) if hasattr(rec, "slot_origin") else None
                            if input_undefined is None or origin is None or (origin & input_undefined):
                                continue    # the spilled register itself had no definition on some path
                            report("d1", "reload from %s can be reached without a store of that value to the slot" % (sv_slot[k],), i)
            s_in, s_out = liveness(n, succ, pred, sl_use, sl_def)

            def sov(a, b):
                return a is b or (a.offset < b.offset + b.size and b.offset < a.offset + a.size)

            for i in range(n):
                for k in sl_def[i]:
                    for k2 in s_out[i]:
                        if k2 != k and sov(sv_slot[k], sv_slot[k2]):
                            report("d2", "store to %s while the overlapping %s holds another spilled value that is still to be reloaded" % (
                                sv_slot[k], sv_slot[k2]), i)
        # spill slots must not overlap any other stack location of the frame either
        allslots = rec.slots.get(id(frame), [])
        spill_ids = set(slots)
        for a in allslots:
            if id(a) not in spill_ids:
                continue
            for b in allslots:
                if b is a:
                    continue
                if a.offset < b.offset + b.size and b.offset < a.offset + a.size:
                    if id(b) in spill_ids and id(b) < id(a):
                        continue
                    report("d2", "spill slot %s overlaps stack location %s of the same frame" % (a, b))
    return findings, stats


def forget(rec, frame):
    """Drop per-frame state (called by the harness after a frame is judged)."""
    rec.slots.pop(id(frame), None)
