"""Integer constant-expression trees with C (LP64, gcc x86-64) semantics, for C27/C28.

The generator builds a tree bottom-up and evaluates every node itself with the
rules of C99 6.3.1/6.4.4/6.5/6.6 for the x86-64 System V data model (char
signed, int 32, long = long long = 64).  A node whose evaluation would be
undefined or a constraint violation (signed overflow, division by zero in an
evaluated operand, shift count out of range, left shift of a negative value or
into the sign bit, INT_MIN / -1) is never built, so every tree is a valid
integer constant expression with a known value; gcc -pedantic-errors is the
second filter in the checks.

Every node also carries *tags*: facts about the input only (never about what
ppci computed) that name constructs for which a known finding exists.
`avoid` (a set of finding keys) makes the generator refuse nodes carrying a
matching tag, which is how the sweep stays clear of open findings.

Not generated at all (scope limits, repeated in the checks' docstrings):
floating operands other than a floating literal as immediate cast operand;
literals whose suffix names a type too narrow for the value
(`4294967296u`: valid C, ppci answers with a diagnostic); `_Bool`; wide
characters; multi-character constants.
"""

# key: (bits, signed, rank, spellings)
TYPES = {
    "char": (8, True, 1, ["char"]),
    "schar": (8, True, 1, ["signed char"]),
    "uchar": (8, False, 1, ["unsigned char"]),
    "short": (16, True, 2, ["short", "short int", "signed short"]),
    "ushort": (16, False, 2, ["unsigned short", "unsigned short int"]),
    "int": (32, True, 3, ["int", "signed", "signed int"]),
    "uint": (32, False, 3, ["unsigned", "unsigned int"]),
    "long": (64, True, 4, ["long", "long int", "signed long"]),
    "ulong": (64, False, 4, ["unsigned long", "unsigned long int", "long unsigned int"]),
    "llong": (64, True, 5, ["long long", "long long int", "signed long long"]),
    "ullong": (64, False, 5, ["unsigned long long", "unsigned long long int"]),
}
ALL_TYPES = list(TYPES)
SUBINT = ("char", "schar", "uchar", "short", "ushort")
UNSIGNED_OF = {"int": "uint", "long": "ulong", "llong": "ullong"}
# order in which ppci's semantics picks a "common type" among sub-int types
PPCI_SUBRANK = {"char": 30, "schar": 30, "uchar": 31, "short": 40, "ushort": 41}

# finding keys the tags refer to (shared by C27 and C28)
K_MISSING = "consteval-operators-missing"
K_FLOOR = "consteval-division-floors"
K_NOWRAP = "consteval-no-wrap-to-type"
K_PACK = "pack-rejects-out-of-range-initializer"
K_CHAR = "char-constant-has-type-char"
K_SHIFT = "shift-result-type-from-both-operands"
K_PROMO = "no-integer-promotion-unary-ternary-compare"
K_TERNPROMO = "conditional-operator-arms-not-promoted"
K_DECLIT = "decimal-literal-gets-unsigned-int"
K_ENUM = "enumerator-operand-gives-enum-typed-arithmetic"
K_SIZET = "sizeof-result-is-signed-long"
K_EQPREC = "equality-parsed-at-relational-precedence"
K_TERNCOND = "ternary-condition-converted-to-int"
# C28 only (trees that ppci evaluates at run time, e.g. initialisers of local aggregates):
K_NARROW = "narrow-int-mul-div-neg-and-float-casts"
ALL_KEYS = (K_MISSING, K_FLOOR, K_NOWRAP, K_PACK, K_CHAR, K_SHIFT, K_PROMO, K_DECLIT, K_ENUM, K_SIZET, K_EQPREC, K_TERNCOND, K_TERNPROMO)


def bits(t):
    return TYPES[t][0]


def signed(t):
    return TYPES[t][1]


def rank(t):
    return TYPES[t][2]


def tmin(t):
    return -(1 << (bits(t) - 1)) if signed(t) else 0


def tmax(t):
    return (1 << (bits(t) - 1)) - 1 if signed(t) else (1 << bits(t)) - 1


def fits(v, t):
    return tmin(t) <= v <= tmax(t)


def wrap(v, t):
    """Conversion to integer type t (modular; gcc's implementation-defined choice for signed)."""
    n = bits(t)
    v &= (1 << n) - 1
    if signed(t) and v >> (n - 1):
        v -= 1 << n
    return v


def promote(t):
    return "int" if rank(t) < 3 else t


def uac(t1, t2):
    """Usual arithmetic conversions (6.3.1.8) on integer types."""
    t1, t2 = promote(t1), promote(t2)
    if t1 == t2:
        return t1
    if signed(t1) == signed(t2):
        return t1 if rank(t1) > rank(t2) else t2
    s, u = (t1, t2) if signed(t1) else (t2, t1)
    if rank(u) >= rank(s):
        return u
    if bits(s) > bits(u):
        return s
    return UNSIGNED_OF[s]


def spelling(t, r):
    return r.choice(TYPES[t][3])


def literal_type(v, base, suf):
    """C99 6.4.4.1: type of an integer literal; None if no type fits."""
    uns, lng = "u" in suf, suf.count("l")
    cands = []
    if lng == 0:
        cands += ["uint"] if uns else (["int"] if base == "d" else ["int", "uint"])
    if lng <= 1:
        cands += ["ulong"] if uns else (["long"] if base == "d" else ["long", "ulong"])
    cands += ["ullong"] if uns else (["llong"] if base == "d" else ["llong", "ullong"])
    return next((c for c in cands if v <= tmax(c)), None)


SUFFIX_NAMES = {"": "int", "u": "uint", "l": "long", "ul": "ulong", "ll": "llong", "ull": "ullong"}

PREC = {"*": 13, "/": 13, "%": 13, "+": 12, "-": 12, "<<": 11, ">>": 11,
        "<": 10, "<=": 10, ">": 10, ">=": 10, "==": 9, "!=": 9,
        "&": 8, "^": 7, "|": 6, "&&": 5, "||": 4, "?:": 3}
P_UNARY, P_PRIMARY = 14, 16
ARITH = ("+", "-", "*")
DIVS = ("/", "%")
SHIFTS = ("<<", ">>")
BITS = ("&", "|", "^")
RELS = ("<", "<=", ">", ">=", "==", "!=")
LOGS = ("&&", "||")


class Node:
    __slots__ = ("text", "ctype", "value", "tags", "ops", "prec", "nops", "ptype", "kind")

    def __init__(self, text, ctype, value, prec, kind, tags=(), ops=(), nops=0, ptype=None):
        self.text = text
        self.ctype = ctype      # type C gives the expression
        self.value = value      # value C gives the expression
        self.prec = prec
        self.kind = kind
        self.tags = frozenset(tags)   # finding keys whose trigger construct occurs in the tree
        self.ops = frozenset(ops)     # (operator, result type) features
        self.nops = nops
        # the sub-int type ppci's semantics gives this node, if any (casts to sub-int
        # types, character constants, and unary/ternary nodes over such operands, which
        # ppci does not promote).  Used only to tag constructs, never to predict values.
        self.ptype = ptype

    def emb(self, need, r=None):
        """Text for use as an operand that needs precedence >= need."""
        if self.prec < need or (r is not None and self.prec < P_PRIMARY and r.random() < 0.3):
            return "(" + self.text + ")"
        return self.text


class Gen:
    """One generator instance per case; r is the case's random.Random."""

    def __init__(self, r, avoid=(), enums=None):
        self.r = r
        self.avoid = frozenset(avoid)
        self.enums = list(enums or [])   # [(name, value)] enumerators usable as operands

    # -- leaves -------------------------------------------------------------
    def interesting_value(self):
        r = self.r
        c = r.random()
        if c < 0.35:
            return r.randrange(0, 12)
        if c < 0.55:
            return r.randrange(0, 300)
        if c < 0.85:
            k = r.choice((7, 8, 15, 16, 31, 32, 63, 64))
            return max(0, min((1 << 64) - 1, (1 << k) + r.choice((-2, -1, 0, 1))))
        return r.getrandbits(r.choice((8, 16, 31, 32, 33, 48, 63, 64)))

    def literal(self, value=None):
        """An integer literal (of the given non-negative value, or an interesting one)."""
        r = self.r
        for attempt in range(40):
            v = self.interesting_value() if value is None else value
            base = r.choice(("d", "d", "x", "o"))
            suf = r.choice(("", "", "", "u", "l", "ul", "ll", "ull"))
            if attempt > 20:
                base, suf = "x", r.choice(("", "ul", "ull"))
            t = literal_type(v, base, suf)
            if t is None:
                continue
            if suf and v > tmax(SUFFIX_NAMES[suf]):
                continue  # valid C, diagnostic in ppci: scope limit
            tags = set()
            if base == "d" and not suf and tmax("int") < v <= tmax("uint"):
                tags.add(K_DECLIT)
            if tags & self.avoid:
                continue
            if base == "d":
                txt = str(v)
            elif base == "x":
                txt = ("0x%x" if r.random() < 0.7 else "0X%X") % v
            else:
                txt = "0%o" % v if v else "0"
            s = suf
            if s and r.random() < 0.4:
                s = s.upper()
            elif s in ("ul", "ull") and r.random() < 0.3:
                s = s[1:] + "u"
            return Node(txt + s, t, v, P_PRIMARY, "lit", tags)
        return Node("1", "int", 1, P_PRIMARY, "lit")

    CHARS = [("'a'", 97), ("'Z'", 90), ("'0'", 48), ("' '", 32), ("'\\n'", 10), ("'\\t'", 9), ("'\\0'", 0),
             ("'\\\\'", 92), ("'\\''", 39), ("'\\x41'", 65), ("'\\101'", 65), ("'\\x7f'", 127), ("'~'", 126),
             ("'\\377'", -1), ("'\\x80'", -128), ("'\\xfe'", -2), ("'\\200'", -128)]

    def charconst(self):
        txt, v = self.r.choice(self.CHARS)
        tags = {K_CHAR} if v < 0 else set()
        if tags & self.avoid:
            txt, v, tags = "'a'", 97, set()
        return Node(txt, "int", v, P_PRIMARY, "char", tags, ptype="char")

    def sizeof_type(self):
        t = self.r.choice(ALL_TYPES)
        return self.size_t_node("sizeof(%s)" % spelling(t, self.r), bits(t) // 8, "sizeoft", set(),
                                {("sizeof", "ulong")}, 1)

    def size_t_node(self, text, value, kind, tags, ops, nops):
        """ppci gives sizeof the type long: under the avoid switch the operand is cast to size_t's type."""
        if K_SIZET in self.avoid:
            return Node("(unsigned long)" + text, "ulong", value, P_UNARY, "cast", tags, ops, nops)
        return Node(text, "ulong", value, P_UNARY, kind, tags | {K_SIZET}, ops, nops)

    def enumref(self):
        name, v = self.r.choice(self.enums)
        if K_ENUM in self.avoid:
            # ppci gives arithmetic on a bare enumerator the enum type: hand it over as an int
            return Node("(int)" + name, "int", v, P_UNARY, "cast", ops=[("enumerator-cast", "int")], nops=1)
        return Node(name, "int", v, P_PRIMARY, "enum", {K_ENUM}, ops=[("enumerator", "int")])

    def floatcast(self):
        r = self.r
        t = r.choice(ALL_TYPES)
        if K_NARROW in self.avoid and t in SUBINT:
            t = "int"
        whole = r.randrange(0, min(tmax(t), 1 << 20) + 1)
        frac = r.choice(("0", "5", "25", "75", "999"))
        txt = "%d.%s" % (whole, frac)
        if r.random() < 0.2:
            txt += "e0"
        return Node("(%s)%s" % (spelling(t, r), txt), t, whole, P_UNARY, "fcast",
                    ops=[("cast-from-float", t)], nops=1, ptype=t if t in SUBINT else None)

    def leaf(self):
        c = self.r.random()
        if c < 0.72:
            return self.literal()
        if c < 0.82:
            return self.charconst()
        if c < 0.89:
            return self.sizeof_type()
        if c < 0.95 and self.enums:
            return self.enumref()
        if c < 0.98:
            return self.floatcast()
        return self.literal()

    # -- operators ----------------------------------------------------------
    def cast(self, a, t=None):
        r = self.r
        t = t or r.choice(ALL_TYPES)
        v = wrap(a.value, t)
        tags = set(a.tags)
        if v != a.value:
            tags.add(K_NOWRAP)
        if tags & self.avoid:
            return None
        return Node("(%s)%s" % (spelling(t, r), a.emb(P_UNARY)), t, v, P_UNARY, "cast", tags,
                    a.ops | {("cast", t)}, a.nops + 1, ptype=t if t in SUBINT else None)

    def unary(self, op, a):
        tags = set(a.tags)
        t = promote(a.ctype)
        x = a.value  # promotion never changes a value
        ptype = None
        if op == "!":
            t, v = "int", int(x == 0)
            tags.add(K_MISSING)
        else:
            exact = {"-": -x, "~": ~x, "+": x}[op]
            if signed(t):
                if not fits(exact, t):
                    return None
                v = exact
            else:
                v = wrap(exact, t)
                if v != exact:
                    tags.add(K_NOWRAP)
            ptype = a.ptype  # ppci does not promote the operand of unary + - ~
        if tags & self.avoid:
            return None
        inner = a.emb(P_UNARY)
        if inner[0] in "+-" and op in "+-":
            inner = "(" + inner + ")"
        return Node(op + inner, t, v, P_UNARY, "un", tags, a.ops | {(op, t)}, a.nops + 1, ptype=ptype)

    @staticmethod
    def conv(x, dst_t, tags):
        """Implicit conversion of an operand value; a value-changing one is tagged."""
        v = wrap(x, dst_t)
        if v != x:
            tags.add(K_NOWRAP)
        return v

    @staticmethod
    def bad_mix(ta, tb):
        return {ta, tb} in ({"llong", "ulong"}, {"long", "ullong"})

    def binary(self, op, a, b, b_unevaluated=False):
        tags = set(a.tags) | set(b.tags)
        ta, tb = promote(a.ctype), promote(b.ctype)
        if op in SHIFTS:
            t = ta
            n = b.value
            if not 0 <= n < bits(t):
                return None
            if ta != tb:
                tags.add(K_SHIFT)   # ppci types the result by both operands
            x = a.value
            if op == "<<":
                if signed(t):
                    if x < 0 or not fits(x << n, t):
                        return None
                    v = x << n
                else:
                    v = wrap(x << n, t)
                    if v != x << n:
                        tags.add(K_NOWRAP)
            else:
                v = x >> n  # arithmetic for negative signed values (gcc)
        elif op in LOGS:
            t = "int"
            tags.add(K_MISSING)
            if b_unevaluated:
                v = 0 if op == "&&" else 1
            elif op == "&&":
                v = int(bool(a.value) and bool(b.value))
            else:
                v = int(bool(a.value) or bool(b.value))
        else:
            t = uac(ta, tb)
            x = self.conv(a.value, t, tags)
            y = self.conv(b.value, t, tags)
            if op in RELS:
                tags.add(K_MISSING)
                if a.ptype and b.ptype and a.ptype != b.ptype:
                    tags.add(K_PROMO)  # ppci converts to the "larger" sub-int type instead of int
                v = int({"<": x < y, "<=": x <= y, ">": x > y, ">=": x >= y, "==": x == y, "!=": x != y}[op])
                t = "int"
            elif op in DIVS:
                if y == 0:
                    return None
                if signed(t) and x == tmin(t) and y == -1:
                    return None
                q = abs(x) // abs(y)
                if (x < 0) != (y < 0):
                    q = -q
                rem = x - q * y
                if op == "/":
                    v = q
                    if rem != 0 and (x < 0) != (y < 0):
                        tags.add(K_FLOOR)   # floor and truncation differ here
                else:
                    v = rem
                    tags.add(K_MISSING)
            else:
                if op in BITS:
                    exact = {"&": x & y, "|": x | y, "^": x ^ y}[op]
                else:
                    exact = {"+": x + y, "-": x - y, "*": x * y}[op]
                if signed(t):
                    if not fits(exact, t):
                        return None
                    v = exact
                else:
                    v = wrap(exact, t)
                    if v != exact:
                        tags.add(K_NOWRAP)
        p = PREC[op]
        btext = b.emb(p + 1, self.r)
        if op in ("==", "!=") and b.kind == "bin" and b.prec == PREC["<"] and btext == b.text:
            # a == b < c: ppci's parser gives == and < one precedence level
            if K_EQPREC in self.avoid:
                btext = "(" + btext + ")"
            else:
                tags.add(K_EQPREC)
        if tags & self.avoid:
            return None
        text = "%s %s %s" % (a.emb(p, self.r), op, btext)
        return Node(text, t, v, p, "bin", tags, a.ops | b.ops | {(op, t)}, a.nops + b.nops + 1)

    def ternary(self, c, a, b):
        tags = set(c.tags) | set(a.tags) | set(b.tags) | {K_MISSING}
        ta, tb = promote(a.ctype), promote(b.ctype)
        t = uac(ta, tb)
        ptype = None
        if a.ptype and b.ptype:
            # ppci: common type of the unpromoted arms
            if a.ptype != b.ptype:
                tags.add(K_TERNPROMO)
            ptype = max(a.ptype, b.ptype, key=lambda k: PPCI_SUBRANK[k])
        if bool(wrap(c.value, "int")) != bool(c.value):
            tags.add(K_TERNCOND)   # ppci converts the condition to int: 0x100000000 ? a : b takes b
        chosen = a if c.value else b
        v = self.conv(chosen.value, t, tags)
        if ptype and not fits(v, ptype):
            tags.add(K_TERNPROMO)   # ppci gives the whole ?: the sub-int type and reduces the value to it
        if tags & self.avoid:
            return None
        text = "%s ? %s : %s" % (c.emb(PREC["||"], self.r), a.emb(PREC["?:"] + 1, self.r),
                                 b.emb(PREC["?:"], self.r))
        return Node(text, t, v, PREC["?:"], "tern", tags, c.ops | a.ops | b.ops | {("?:", t)},
                    c.nops + a.nops + b.nops + 1, ptype=ptype)

    def sizeof_expr(self, a):
        """sizeof applied to an expression: its value is the size of the *type* of a."""
        tags = set(a.tags)
        if a.ptype and a.ctype not in SUBINT:
            # C promoted this expression to int, ppci kept a sub-int type
            tags.add({"char": K_CHAR, "tern": K_TERNPROMO}.get(a.kind, K_PROMO))
        if tags & self.avoid:
            return None
        return self.size_t_node("sizeof(%s)" % a.text, bits(a.ctype) // 8, "sizeofe", tags,
                                a.ops | {("sizeof-expr", a.ctype)}, a.nops + 1)

    def unevaluated(self):
        """An operand that is never evaluated: divides by zero."""
        z, zt = self.r.choice((("0", "int"), ("(1 - 1)", "int"), ("0u", "uint"), ("0L", "long")))
        op = self.r.choice(("/", "%"))
        tags = {K_MISSING} if op == "%" else set()
        if tags & self.avoid:
            op, tags = "/", set()
        return Node("%s %s %s" % (self.r.choice(("1", "7", "-3")), op, z), uac("int", zt), 0, PREC["/"], "div0",
                    tags, ops=[("unevaluated-div0", "int")], nops=1)

    # -- trees --------------------------------------------------------------
    def shift_count(self, a, op):
        r = self.r
        t = promote(a.ctype)
        cnt = r.choice((0, 1, 2, 3, 4, 7, 8, 15, 16, 31, 32, 33, 63))
        if cnt >= bits(t):
            cnt = r.randrange(bits(t))
        if op == "<<" and signed(t):
            if a.value < 0:
                return None
            room = bits(t) - 1 - a.value.bit_length()
            if room < 0:
                return None
            cnt = min(cnt, room)
        b = self.literal(cnt)
        if cnt >= 2 and r.random() < 0.3:
            # a << 1 + 2: an additive count, unparenthesised, checks the precedence of the shift
            k = r.randrange(1, cnt)
            b = self.binary("+", Node(str(k), "int", k, P_PRIMARY, "lit"),
                            Node(str(cnt - k), "int", cnt - k, P_PRIMARY, "lit")) or b
        if K_SHIFT in self.avoid and promote(b.ctype) != t:
            b = self.cast(b, t) if r.random() < 0.5 or t != "int" else Node(str(cnt), "int", cnt, P_PRIMARY, "lit")
        return b

    def tree(self, depth):
        r = self.r
        if depth <= 0 or r.random() < 0.12:
            return self.leaf()
        for _ in range(12):
            c = r.random()
            n = None
            if c < 0.52:
                op = r.choice(ARITH + ARITH + DIVS + DIVS + SHIFTS + SHIFTS + BITS + RELS + LOGS)
                a = self.tree(depth - 1)
                if op in SHIFTS:
                    b = self.shift_count(a, op)
                    if b is None:
                        continue
                    n = self.binary(op, a, b)
                elif op in LOGS and r.random() < 0.25:
                    want_true = op == "||"
                    if bool(a.value) != want_true:
                        a = self.literal(1 if want_true else 0)
                    n = self.binary(op, a, self.unevaluated(), b_unevaluated=True)
                else:
                    b = self.tree(depth - 1)
                    if op in DIVS and r.random() < 0.5:
                        # the interesting operands of / and % are negative ones
                        if r.random() < 0.6:
                            a = self.unary("-", a) or a
                        if r.random() < 0.4:
                            b = self.unary("-", b) or b
                    n = self.binary(op, a, b)
            elif c < 0.68:
                n = self.unary(r.choice("--~~!+"), self.tree(depth - 1))
            elif c < 0.84:
                n = self.cast(self.tree(depth - 1))
            elif c < 0.94:
                cnd = self.tree(depth - 1)
                if r.random() < 0.2:
                    live, dead = self.tree(depth - 1), self.unevaluated()
                    n = self.ternary(cnd, live, dead) if cnd.value else self.ternary(cnd, dead, live)
                else:
                    n = self.ternary(cnd, self.tree(depth - 1), self.tree(depth - 1))
            else:
                n = self.sizeof_expr(self.tree(depth - 1))
            if n is not None:
                return n
        return self.leaf()

    def expr(self, depth=None, lo=None, hi=None, tries=40):
        """A tree (with >= 1 operator when possible); value inside [lo, hi] if given."""
        r = self.r
        fallback = None
        for _ in range(tries):
            d = depth if depth is not None else r.choice((1, 1, 2, 2, 3, 3, 4))
            n = self.tree(d)
            if lo is not None and not lo <= n.value <= hi:
                n = self.into_range(n, lo, hi)
                if n is None:
                    continue
            if n.nops:
                return n
            fallback = n
        if fallback is not None:
            return fallback
        v = lo if lo is not None else 1
        if v >= 0:
            return self.literal(v)
        return self.unary("-", self.literal(-v)) or self.literal(0)

    def into_range(self, n, lo, hi):
        """(n & mask) + lo: masks the value into the range with operators every avoid set allows."""
        span = hi - lo + 1
        k = span.bit_length() - 1
        if k <= 0:
            return None
        m = self.binary("&", n, self.literal((1 << k) - 1))
        if m is None or m.value < 0:
            return None
        if lo == 0:
            return m
        off = self.literal(lo) if lo > 0 else self.unary("-", self.literal(-lo))
        if off is None:
            return None
        res = self.binary("+", m, off)
        if res is None or not lo <= res.value <= hi:
            return None
        return res


# ---- items: one self-contained group of declarations each ---------------------------

ITEM_KINDS = ("scalar", "scalar", "scalar", "scalar", "array", "struct", "bitfield", "enum", "arraysize",
              "pointer", "string", "float", "aggregate")
K_STRNEST = "string-literal-for-nested-char-array"

# pieces of string literals: (spelling, byte); a \x escape is only ever followed by a non-hex character
STR_PIECES = [("a", 97), ("Z", 90), ("0", 48), (" ", 32), ("\\n", 10), ("\\t", 9), ("\\\\", 92), ("\\\"", 34),
              ("\\377", 255), ("\\200", 128), ("\\376", 254), ("\\177", 127), ("\\xffg", None), ("\\x80s", None),
              ("\\101", 65), ("\\001", 1)]
CHAR_TYPES = ("char", "schar", "uchar")


def gen_string(r, maxlen=6):
    """(spelling without quotes, bytes)"""
    txt, data = "", b""
    for _ in range(r.randrange(0, maxlen)):
        sp, b = r.choice(STR_PIECES)
        if b is None:   # "\xffg": two characters
            txt += sp
            data += bytes([int(sp[2:4], 16), ord(sp[4])])
        else:
            txt += sp
            data += bytes([b])
    return txt, data


def char_array_init(r, avoid, tags, nested):
    """-> (dimension text, initialiser text, image bytes) for a char array object or member."""
    txt, data = gen_string(r)
    mode = r.choice(("exact", "nul", "wide", "unsized"))
    if nested and mode == "unsized":
        mode = "nul"
    if mode == "exact" and not data:
        mode = "nul"
    size = {"exact": len(data), "nul": len(data) + 1, "wide": len(data) + r.randrange(2, 5),
            "unsized": len(data) + 1}[mode]
    img = data.ljust(size, b"\0")
    use_string = True
    if nested:
        # ppci: a string literal for a char array that is itself a member/element raises AssertionError
        if K_STRNEST in avoid or r.random() < 0.3:
            use_string = False
        else:
            tags.add(K_STRNEST)
    if any(b >= 0x80 for b in data):
        tags.add(K_PACK)    # elements evaluate to negative char values: pack() must convert them
    if use_string:
        init = '"%s"' % txt
        if r.random() < 0.15 and not nested:
            # char s[] = {"abc"}; is valid too; ppci: TypeError in eval_cast (same root: only a string that
            # is the whole initialiser is converted to an array initialiser)
            if K_STRNEST not in avoid:
                tags.add(K_STRNEST)
                init = "{%s}" % init
    else:
        init = "{%s}" % ", ".join(str(b) if b < 0x80 else r.choice((str(b), "'\\%o'" % b)) for b in data) if data else "{0}"
    return ("" if mode == "unsized" else str(size)), init, img


def float_bytes(x, double):
    import struct
    return struct.pack("<d" if double else "<f", x)


def le_bytes(v, nbytes):
    return (v & ((1 << (8 * nbytes)) - 1)).to_bytes(nbytes, "little")


class Item:
    """decl: C text; observe: [(global name, expected byte image per the generator's own
    evaluation)]; sizes: [(global name, expected sizeof)]; exprs: the trees used."""

    def __init__(self, kind, decl, observe, sizes, exprs, dest, tags, loose=False):
        self.kind = kind
        self.decl = decl
        self.observe = observe
        self.sizes = sizes
        self.exprs = exprs
        self.dest = dest
        self.tags = frozenset(tags)
        self.loose = loose   # compare modulo trailing zero bytes (bit-field storage unit size)
        self.ops = frozenset().union(*[e.ops for e in exprs]) if exprs else frozenset()
        self.nops = sum(e.nops for e in exprs)

    def key(self):
        return [self.kind, self.dest, [e.text for e in self.exprs]]


def dest_value(e, t, tags):
    """Value of initialiser tree e after conversion to destination type t."""
    if not fits(e.value, t):
        tags.add(K_PACK)   # CContext.pack gets a value outside the destination's range
    return wrap(e.value, t)


def gen_item(r, n, avoid, kind=None):
    """Item number n (names carry n, so items of one unit never clash)."""
    avoid = frozenset(avoid)
    kind = kind or r.choice(ITEM_KINDS)
    g = Gen(r, avoid)
    for _ in range(30):
        it = _gen_item(r, g, n, avoid, kind)
        if it is not None and not (it.tags & avoid):
            return it
    # a plain fallback that no avoid switch touches
    e = g.binary("+", g.literal(r.randrange(100)), g.literal(r.randrange(100)))
    return Item("scalar", "int g%d = %s;" % (n, e.text), [("g%d" % n, le_bytes(e.value, 4))], [], [e], "int", e.tags)


def _gen_item(r, g, n, avoid, kind):
    tags = set()
    if kind == "scalar":
        t = r.choice(ALL_TYPES)
        e = g.expr()
        v = dest_value(e, t, tags)
        quals = r.choice(("", "", "", "static ", "const ", "static const "))
        decl = "%s%s g%d = %s;" % (quals, spelling(t, r), n, e.text)
        return Item(kind, decl, [("g%d" % n, le_bytes(v, bits(t) // 8))], [], [e], t, tags | e.tags)
    if kind in ("array", "struct"):
        t = r.choice(ALL_TYPES)
        k = r.randrange(1, 5)
        es = [g.expr() for _ in range(k)]
        img = b"".join(le_bytes(dest_value(e, t, tags), bits(t) // 8) for e in es)
        for e in es:
            tags |= e.tags
        if kind == "array":
            extra = r.choice((0, 0, 1, 3))
            dim = r.choice(("", str(k + extra))) if not extra else str(k + extra)
            img += bytes((bits(t) // 8) * extra)
            decl = "%s g%d[%s] = {%s};" % (spelling(t, r), n, dim, ", ".join(e.text for e in es))
        else:
            sp = spelling(t, r)
            fields = " ".join("%s f%d;" % (sp, i) for i in range(k))
            decl = "struct s%d { %s } g%d = {%s};" % (n, fields, n, ", ".join(e.text for e in es))
        return Item(kind, decl, [("g%d" % n, img)], [], es, t, tags)
    if kind == "bitfield":
        k = r.randrange(1, 5)
        widths, vals, acc, nbits = [], [], 0, 0
        base = r.choice(("unsigned", "unsigned int", "int", "signed int"))
        for i in range(k):
            room = 32 - nbits - (k - 1 - i)
            w = g.expr(lo=1, hi=min(16, room))
            val = g.expr()
            widths.append(w)
            vals.append(val)
            acc |= (val.value & ((1 << w.value) - 1)) << nbits
            nbits += w.value
            tags |= w.tags | val.tags
        fields = " ".join("%s f%d : %s;" % (base, i, w.text) for i, w in enumerate(widths))
        decl = "struct b%d { %s } g%d = {%s};" % (n, fields, n, ", ".join(v.text for v in vals))
        return Item(kind, decl, [("g%d" % n, le_bytes(acc, 4))], [], widths + vals, "bitfield", tags, loose=True)
    if kind == "enum":
        k = r.randrange(1, 5)
        names, exprs, obs, parts = [], [], [], []
        nxt = 0
        for i in range(k):
            name = "E%d_%d" % (n, i)
            if i == 0 or r.random() < 0.6:
                g.enums = [(nm, v) for nm, v in names]
                e = g.expr(lo=tmin("int"), hi=tmax("int") - 1)
                if not fits(e.value, "int") or e.value == tmax("int"):
                    return None
                exprs.append(e)
                tags |= e.tags
                nxt = e.value
                parts.append("%s = %s" % (name, e.text))
            else:
                parts.append(name)
            names.append((name, nxt))
            obs.append(("g%d_%d" % (n, i), le_bytes(nxt, 4)))
            nxt += 1
        g.enums = list(names)
        use = g.expr()
        g.enums = []
        tags |= use.tags
        exprs.append(use)
        decl = "enum e%d { %s };\n" % (n, ", ".join(parts))
        decl += " ".join("int g%d_%d = %s;" % (n, i, nm) for i, (nm, _) in enumerate(names))
        decl += "\nlong long g%d_u = %s;" % (n, use.text)
        obs.append(("g%d_u" % n, le_bytes(dest_value(use, "llong", tags), 8)))
        # an enumeration constant into a narrower / unsigned object
        nt = r.choice(("char", "schar", "uchar", "short", "ushort", "uint", "ulong"))
        nm, nv = r.choice(names)
        if not fits(nv, nt):
            tags.add(K_PACK)
        decl += "\n%s g%d_n = %s;" % (spelling(nt, r), n, nm)
        obs.append(("g%d_n" % n, le_bytes(wrap(nv, nt), bits(nt) // 8)))
        return Item(kind, decl, obs, [], exprs, "enum", tags)
    if kind == "pointer":
        # an integer constant expression converted to a pointer: the object is wider / of another kind
        # than the expression the evaluator reduced
        e = g.expr()
        if r.random() < 0.5:
            e = g.unary(r.choice("-~"), e) or e     # negative and all-ones values are the interesting ones
        via = r.choice((None, None, "int", "uint", "short", "uchar", "long", "ulong", "schar"))
        v = e.value if via is None else wrap(e.value, via)
        if via is not None and v != e.value:
            tags.add(K_NOWRAP)
        if not 0 <= v < (1 << 63):
            tags.add(K_PACK)
        inner = e.emb(P_UNARY) if via is None else "(%s)%s" % (spelling(via, r), e.emb(P_UNARY))
        img = le_bytes(v, 8)
        form = r.random()
        pt = r.choice(("void", "char", "int", "long", "unsigned char", "const char"))
        if form < 0.45:
            decl = "%s%s *g%d = (%s *)%s;" % (r.choice(("", "", "static ")), pt, n, pt, inner)
        elif form < 0.6:
            decl = "int (*g%d)(void) = (int (*)(void))%s;" % (n, inner)
        elif form < 0.8:
            e2 = g.expr()
            if not 0 <= e2.value < (1 << 63):
                tags.add(K_PACK)
            decl = "%s *g%d[3] = {(%s *)%s, (%s *)%s};" % (pt, n, pt, inner, pt, e2.emb(P_UNARY))
            img += le_bytes(e2.value, 8) + bytes(8)
            return Item(kind, decl, [("g%d" % n, img)], [], [e, e2], "pointer", tags | e.tags | e2.tags)
        else:
            e2 = g.expr()
            lv = dest_value(e2, "long", tags)
            decl = "struct p%d { %s *f0; long f1; } g%d = {(%s *)%s, %s};" % (n, pt, n, pt, inner, e2.text)
            img += le_bytes(lv, 8)
            return Item(kind, decl, [("g%d" % n, img)], [], [e, e2], "pointer", tags | e.tags | e2.tags)
        return Item(kind, decl, [("g%d" % n, img)], [], [e], "pointer", tags | e.tags)
    if kind == "string":
        ct = r.choice(CHAR_TYPES)
        dim, init, img = char_array_init(r, avoid, tags, nested=False)
        decl = "%s%s g%d[%s] = %s;" % (r.choice(("", "", "static ", "const ")), spelling(ct, r), n, dim, init)
        it = Item(kind, decl, [("g%d" % n, img)], [], [], ct, tags)
        it.nops = 1
        it.ops = frozenset({("string-literal", ct)})
        return it
    if kind == "float":
        if r.random() < 0.5:
            # integer constant expression into a floating object
            e = g.expr()
            double = r.random() < 0.6
            if not double and abs(e.value) >= (1 << 53):
                return None     # keep to a single rounding step (int -> double exact, then -> float)
            decl = "%s g%d = %s;" % ("double" if double else "float", n, e.text)
            it = Item(kind, decl, [("g%d" % n, float_bytes(float(e.value), double))], [], [e],
                      "double" if double else "float", e.tags)
            return it
        # floating literal into an integer object: truncation toward zero, value kept in range
        t = r.choice(ALL_TYPES)
        whole = r.randrange(0, min(tmax(t), 1 << 40) + 1)
        neg = signed(t) and r.random() < 0.4 and whole <= -tmin(t) - 1
        txt = "%d.%s" % (whole, r.choice(("0", "5", "25", "999")))
        if r.random() < 0.2:
            txt += "e0"
        v = -whole if neg else whole
        decl = "%s g%d = %s%s;" % (spelling(t, r), n, "-" if neg else "", txt)
        it = Item(kind, decl, [("g%d" % n, le_bytes(v, bits(t) // 8))], [], [], t, tags)
        it.nops = 1
        it.ops = frozenset({("float-literal-initialiser", t)})
        return it
    if kind == "aggregate":
        # pointer, long and a char array member (decreasing alignment: no inner padding)
        e, e2 = g.expr(), g.expr()
        if r.random() < 0.5:
            e = g.unary(r.choice("-~"), e) or e
        if not 0 <= e.value < (1 << 63):
            tags.add(K_PACK)
        lv = dest_value(e2, "long", tags)
        ct = r.choice(CHAR_TYPES)
        dim, init, simg = char_array_init(r, avoid, tags, nested=True)
        pt = r.choice(("void", "char", "long"))
        body = "%s *f0; long f1; %s f2[%s];" % (pt, spelling(ct, r), dim)
        inits = ["(%s *)%s" % (pt, e.emb(P_UNARY)), e2.text, init]
        if r.random() < 0.3:
            inits = [".f0 = " + inits[0], ".f1 = " + inits[1], ".f2 = " + inits[2]]
            if r.random() < 0.5:
                r.shuffle(inits)
        img = le_bytes(e.value, 8) + le_bytes(lv, 8) + simg
        if r.random() < 0.35:
            decl = "struct i%d { %s };\nstruct o%d { struct i%d in; } g%d = {{%s}};" % (n, body, n, n, n, ", ".join(inits))
        else:
            decl = "struct i%d { %s } g%d = {%s};" % (n, body, n, ", ".join(inits))
        return Item(kind, decl, [("g%d" % n, img)], [], [e, e2], "aggregate", tags | e.tags | e2.tags, loose=True)
    if kind == "arraysize":
        t = r.choice(ALL_TYPES)
        e = g.expr(lo=1, hi=3000)
        if not 1 <= e.value <= 3000:
            return None
        decl = "%s a%d[%s];\nunsigned long g%d = sizeof(a%d) / sizeof(a%d[0]);" % (spelling(t, r), n, e.text, n, n, n)
        return Item(kind, decl, [("g%d" % n, le_bytes(e.value, 8))], [("a%d" % n, e.value * bits(t) // 8)],
                    [e], "arraysize", e.tags)
    raise ValueError(kind)
