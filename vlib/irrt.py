"""Workload shared by the IR round-trip checks C15 (text) and C16 (JSON).

* ``scan(module)``        -> (kinds, triggers): a histogram of what the module
  contains (instruction classes, operators, types, constant classes, kinds of
  globals, forward references ...) and the set of *trigger constructs* of the
  known round-trip defects that occur in it.  Triggers are properties of the
  INPUT module only; a check maps its open finding keys to trigger names and
  keeps those constructs out of its sweep.
* ``neutralise(module, triggers)`` rewrites exactly those constructs away
  (initial value -> none, ``~x`` -> ``x ^ -1``, ...); the caller re-validates
  the module afterwards.
* ``gen_case`` (vlib.irgen in kind-coverage mode), ``corpus_cases`` (fixed C /
  C3 / Python snippets through the front-ends, optionally optimised so that
  phis and ``undefined`` values appear), ``directed_cases`` (hand-built
  modules: forward references for every operand slot, a constant of every
  class and type, every operator and condition on every type, keyword-like
  names, blob parameters, local bindings, all kinds of externals).
* ``behaviour`` runs vlib.refinterp on the module before and after a round
  trip and reports differing observables.
"""
import io
import math
import re

from ppci import ir

from . import ircmp, irgen, irwf
from .refinterp import Interp

ID_STRICT = re.compile(r"[A-Za-z][A-Za-z\d_]*\Z")
ID_USCORE = re.compile(r"[A-Za-z_][A-Za-z\d_]*\Z")
PLAIN_FLOAT = re.compile(r"-?\d+\.\d+\Z")

INSTRUCTION_CLASSES = ["Const", "Binop", "Unop", "Cast", "AddressOf", "Undefined", "LiteralData", "FunctionCall",
                       "ProcedureCall", "Phi", "Alloc", "CopyBlob", "Load", "Store", "InlineAsm", "Exit", "Return",
                       "Jump", "CJump"]
BINOPS = ["+", "-", "*", "/", "%", "|", "&", "^", "<<", ">>", "rol", "ror"]
UNOPS = ["-", "~"]
CONDS = ["==", "!=", "<", ">", "<=", ">="]
VALUE_TYPES = ["i8", "u8", "i16", "u16", "i32", "u32", "i64", "u64", "f32", "f64", "ptr", "blob"]
CONST_CLASSES = ["zero", "one", "minus-one", "min", "max", "above-2^63", "float-tiny", "float-huge", "float-negative",
                 "float-exponent", "float-inf", "float-nan", "float-negzero"]


def text_of(module, verify=False):
    from ppci.irutils import print_module

    f = io.StringIO()
    print_module(module, file=f, verify=verify)
    return f.getvalue()


def bump(d, key, n=1):
    d[key] = d.get(key, 0) + n


def const_classes(ins):
    v, ty = ins.value, ins.ty
    out = []
    if isinstance(v, float):
        if v != v:
            return ["float-nan"]
        if math.isinf(v):
            return ["float-inf"]
        if v == 0.0 and math.copysign(1.0, v) < 0:
            out.append("float-negzero")
        if v < 0:
            out.append("float-negative")
        if 0 < abs(v) < 1e-100:
            out.append("float-tiny")
        if abs(v) > 1e100:
            out.append("float-huge")
        if "e" in repr(v):
            out.append("float-exponent")
        if v == 0.0:
            out.append("zero")
        if v == 1.0:
            out.append("one")
        if v == -1.0:
            out.append("minus-one")
        return out or ["float-other"]
    if v == 0:
        out.append("zero")
    if v == 1:
        out.append("one")
    if v == -1:
        out.append("minus-one")
    if v >= 1 << 63:
        out.append("above-2^63")
    if getattr(ty, "is_integer", False) and ty.is_integer:
        lo, hi = irgen.int_range(ty)
        if v == lo and lo < 0:
            out.append("min")
        if v == hi:
            out.append("max")
        if not lo <= v <= hi:
            out.append("out-of-range")
    return out or ["int-other"]


def float_spelling_plain(v):
    return bool(PLAIN_FLOAT.match(str(v)))


def all_names(module):
    yield module.name
    for e in module.externals:
        yield e.name
    for v in module.variables:
        yield v.name
    for f in module.functions:
        yield f.name
        for p in f.arguments:
            yield p.name
        for b in f.blocks:
            yield b.name
            for i in b.instructions:
                if isinstance(i, ir.Value):
                    yield i.name


def scan(module):
    kinds, trig = {}, set()
    for e in module.externals:
        bump(kinds, "external." + type(e).__name__)
    for v in module.variables:
        bump(kinds, "binding.variable." + str(v.binding))
        if v.value is None:
            bump(kinds, "global.uninitialised")
        else:
            trig.add("init-value")
            if any(not isinstance(p, (bytes, bytearray)) for p in v.value):
                bump(kinds, "global.relocation")
            else:
                bump(kinds, "global.bytes")
    blobs = {}        # size -> alignments of blob types in type-carrying positions (everything but alloc / literal)

    def note(ty, where):
        if isinstance(ty, ir.BlobDataTyp):
            blobs.setdefault(ty.size, set()).add(ty.alignment)
            bump(kinds, "blobtype-at." + where)
    for e in module.externals:
        if isinstance(e, ir.ExternalSubRoutine):
            for ty in e.argument_types:
                note(ty, "external-parameter")
        if isinstance(e, ir.ExternalFunction):
            note(e.return_ty, "external-return")
    for f in module.functions:
        for p_ in f.arguments:
            note(p_.ty, "parameter")
        if isinstance(f, ir.Function):
            note(f.return_ty, "return")
        for b in f.blocks:
            for i in b.instructions:
                if isinstance(i, ir.Value) and type(i) not in (ir.Alloc, ir.LiteralData):
                    note(i.ty, type(i).__name__)
    if any(len(a) > 1 for a in blobs.values()):
        bump(kinds, "blobtype.same-size-different-alignment")
    for n in all_names(module):
        if not ID_STRICT.match(n):
            trig.add("uscore-name" if ID_USCORE.match(n) else "odd-name")
    for f in module.functions:
        bump(kinds, "function." + type(f).__name__)
        bump(kinds, "binding.function." + str(f.binding))
        pos = {}
        local = set()
        for bi, b in enumerate(f.blocks):
            local.add(b.name)
            for ii, i in enumerate(b.instructions):
                pos[i] = (bi, ii)
                if isinstance(i, ir.Value):
                    local.add(i.name)
        pn = [p.name for p in f.arguments]
        if len(set(pn)) != len(pn) or any(n in local for n in pn):
            trig.add("param-clash")
        for p in f.arguments:
            bump(kinds, "param." + tyname(p.ty))
        for b in f.blocks:
            for i in b.instructions:
                t = type(i)
                bump(kinds, "ins." + t.__name__)
                if isinstance(i, ir.Value):
                    bump(kinds, "type." + tyname(i.ty))
                if t is ir.Binop:
                    bump(kinds, "binop." + i.operation)
                    bump(kinds, "binop-type." + tyname(i.ty))
                    if i.operation in ("rol", "ror"):
                        trig.add("rotate")
                elif t is ir.Unop:
                    bump(kinds, "unop." + i.operation)
                    if i.operation == "~":
                        trig.add("unop~")
                elif t is ir.CJump:
                    bump(kinds, "cond." + i.cond)
                    bump(kinds, "cond-type." + tyname(i.a.ty))
                elif t is ir.Const:
                    for c in const_classes(i):
                        bump(kinds, "const." + c)
                    if isinstance(i.value, float) and not float_spelling_plain(i.value):
                        trig.add("float-spelling")
                elif t is ir.Load:
                    if i.volatile:
                        bump(kinds, "volatile.load")
                        trig.add("volatile")
                elif t is ir.Store:
                    if i.volatile:
                        bump(kinds, "volatile.store")
                        trig.add("volatile")
                    if isinstance(i.value.ty, ir.BlobDataTyp):
                        bump(kinds, "store.blob-value")
                elif t is ir.Undefined:
                    trig.add("undefined")
                    bump(kinds, "undefined." + ("used" if i.used_by else "dead"))
                elif t is ir.CopyBlob:
                    trig.add("memcpy")
                elif t is ir.InlineAsm:
                    trig.add("inline-asm")
                elif t is ir.FunctionCall or t is ir.ProcedureCall:
                    direct = isinstance(i.callee, (ir.SubRoutine, ir.ExternalSubRoutine))
                    bump(kinds, "callee." + ("direct" if direct else "indirect"))
                # forward references
                if t is not ir.Phi:
                    for fld, v in ircmp.operand_fields(i):
                        if v in pos and pos[v] > pos[i]:
                            bump(kinds, "fwdref." + t.__name__)
                else:
                    for blk, v in i.inputs.items():
                        if v in pos and pos[v] >= pos[i]:
                            bump(kinds, "fwdref.Phi")
                        if isinstance(v, ir.Undefined):
                            bump(kinds, "undefined.phi-input")
        for mode in ("text", "json"):
            if placeholder_conflict(f, pos, mode):
                trig.add("fwd-conflict-" + mode)
    return kinds, trig


def placeholder_conflict(f, pos, mode):
    """Would the (unrepaired) reader give the placeholder of a not yet defined
    value a type that a type-checking constructor then rejects?  A static walk
    over the INPUT in listing order that mirrors how placeholders are typed:
    text reader: binary operands i32, phi inputs the phi's type, address-of
    source a blob, everything else ptr; JSON reader: phi inputs the phi's
    type, everything else ptr; the first use creates the placeholder, later
    uses get the same object.  Strict users: Binop, Unop (operand type = result
    type), Phi (input type = phi type), AddressOf (blob), Load/Store address
    and callee (ptr)."""
    placeholder = {}
    for b in f.blocks:
        for i in b.instructions:
            t = type(i)
            if t is ir.Phi:
                ops = [("phi", v) for v in i.inputs.values()]
            else:
                ops = ircmp.operand_fields(i)
            for fld, v in ops:
                # (a phi that feeds itself is looked up before it is registered)
                if not (v in pos and pos[v] >= pos[i]):
                    continue
                strict = None          # what the constructor insists on: a type, "blob", or None
                created = ir.ptr
                if t is ir.Binop:
                    strict = i.ty
                    created = ir.i32 if mode == "text" else ir.ptr
                elif t is ir.Unop:
                    strict = i.ty
                elif t is ir.Phi:
                    strict = created = i.ty
                elif t is ir.AddressOf:
                    strict = "blob"
                    if mode == "text":
                        created = "blob"
                elif (t is ir.Load and fld == "address") or (t is ir.Store and fld == "address") or fld == "callee":
                    strict = ir.ptr
                have = placeholder.setdefault(v, created)
                if strict is not None and have is not strict:
                    return True
    return False


def tyname(ty):
    return "blob" if isinstance(ty, ir.BlobDataTyp) else ty.name


# --------------------------------------------------------------------------
# rewriting trigger constructs away


def neutralise(module, triggers):
    """Rewrite the given trigger constructs away, in place."""
    if "init-value" in triggers:
        for v in module.variables:
            v.value = None
    rename = {}
    if "uscore-name" in triggers:
        taken = set(all_names(module))
        for v in list(module.variables) + list(module.externals) + list(module.functions):
            if not ID_STRICT.match(v.name) and ID_USCORE.match(v.name):
                new = "u" + v.name.lstrip("_")
                while new in taken:
                    new += "x"
                taken.add(new)
                rename[v.name] = new
                v.name = new
        for v in module.variables:
            if v.value is not None:
                v.value = tuple(p if isinstance(p, (bytes, bytearray)) else (p[0], rename.get(p[1], p[1]))
                                for p in v.value)
    for f in module.functions:
        if "param-clash" in triggers:
            local = set(b.name for b in f.blocks)
            for b in f.blocks:
                for i in b.instructions:
                    if isinstance(i, ir.Value):
                        local.add(i.name)
            for p in f.arguments:
                if p.name in local or [q.name for q in f.arguments].count(p.name) > 1:
                    new = "par_" + p.name
                    while new in local:
                        new += "x"
                    local.add(new)
                    p.name = new
        if "uscore-name" in triggers:
            for p in f.arguments:
                if not ID_STRICT.match(p.name) and ID_USCORE.match(p.name):
                    p.name = "u" + p.name.lstrip("_")
            for b in f.blocks:
                if not ID_STRICT.match(b.name) and ID_USCORE.match(b.name):
                    b.name = "u" + b.name.lstrip("_")
                for i in b.instructions:
                    if isinstance(i, ir.Value) and not ID_STRICT.match(i.name) and ID_USCORE.match(i.name):
                        i.name = "u" + i.name.lstrip("_")
        for b in list(f.blocks):
            for i in list(b.instructions):
                t = type(i)
                if t in (ir.Load, ir.Store) and i.volatile and "volatile" in triggers:
                    i.volatile = False
                elif t is ir.Unop and i.operation == "~" and "unop~" in triggers:
                    c = ir.Const(-1, "allones", i.ty)
                    b.insert_instruction(c, before_instruction=i)
                    n = ir.Binop(i.a, "^", c, i.name + "x", i.ty)
                    b.insert_instruction(n, before_instruction=i)
                    i.replace_by(n)
                    i.remove_from_block()
                elif t is ir.Binop and i.operation in ("rol", "ror") and "rotate" in triggers:
                    i.operation = "<<" if i.operation == "rol" else ">>"
                elif t is ir.Const and isinstance(i.value, float) and "float-spelling" in triggers \
                        and not float_spelling_plain(i.value):
                    i.value = 1.5
                elif t is ir.Undefined and "undefined" in triggers:
                    if isinstance(i.ty, ir.BlobDataTyp):
                        c = ir.Alloc(i.name + "c", i.ty.size, i.ty.alignment)
                    else:
                        c = ir.Const(0 if (i.ty is ir.ptr or i.ty.is_integer) else 0.0, i.name + "c", i.ty)
                    b.insert_instruction(c, before_instruction=i)
                    i.replace_by(c)
                    i.remove_from_block()
                elif t is ir.CopyBlob and "memcpy" in triggers:
                    i.remove_from_block()
                elif t is ir.InlineAsm and "inline-asm" in triggers:
                    i.remove_from_block()
        if triggers & {"fwd-conflict-text", "fwd-conflict-json"}:
            irgen.rpo_blocks(f)


def well_formed(module):
    """-> None, or why the module is outside 'well-formed IR module'."""
    from ppci.irutils import verify_module

    try:
        verify_module(module)
    except Exception as e:  # noqa
        return "verify_module: %s: %s" % (type(e).__name__, str(e)[:120])
    problems = irwf.check_module(module)
    if problems:
        return "irwf: " + problems[0][:160]
    return None


# --------------------------------------------------------------------------
# cases


def gen_case(r, dials):
    """One irgen module in kind-coverage mode.  dials: dict of cfg overrides
    computed by the check from its open findings."""
    cfg = {"kinds": True, "rotates": True, "volatile": True, "undefined": r.random() < 0.3,
           "shape": "mem" if r.random() < 0.2 else "ssa", "size": r.choice([4, 6, 10, 14]),
           "ptr_size": r.choice([8, 8, 4]), "rpo": r.random() < 0.3, "unsafe": r.random() < 0.1,
           "blob_params": r.random() < 0.6}
    cfg.update(dials)
    m, info = irgen.gen_module(r, cfg)
    argv = {fn: irgen.gen_args(r, m, fn, 2) for fn in info["functions"]}
    return m, argv, cfg["ptr_size"], info["tags"]


def scalar_functions(module):
    out = []
    for f in module.functions:
        if all(p.ty is not ir.ptr and not isinstance(p.ty, ir.BlobDataTyp) for p in f.arguments):
            out.append(f.name)
    return out


def corpus_cases(r, defines, only=None):
    """Yields (case id, build) for the front-end corpus; build() -> (module, argv, ptr_size)
    or raises (front-end failure: not judged here)."""
    from . import irrt_corpus

    def c_build(src, opt):
        def build():
            from ppci import api
            from ppci.lang.c import COptions

            co = COptions()
            for d in defines:
                co.add_define(d, "1")
            m = api.c_to_ir(io.StringIO(src), "x86_64", coptions=co)
            if opt:
                api.optimize(m, level=opt)
            return m
        return build

    def c3_build(src, opt):
        def build():
            from ppci import api

            m = api.c3_to_ir([io.StringIO(src)], [], "x86_64")
            if opt:
                api.optimize(m, level=opt)
            return m
        return build

    def py_build(src, opt):
        def build():
            from ppci import api
            from ppci.lang.python import python_to_ir

            m = python_to_ir(io.StringIO(src))
            if opt:
                api.optimize(m, level=opt)
            return m
        return build

    for lang, snippets, mk in (("c", irrt_corpus.C_SNIPPETS, c_build), ("c3", irrt_corpus.C3_SNIPPETS, c3_build),
                               ("py", irrt_corpus.PY_SNIPPETS, py_build)):
        for name, src in snippets:
            for opt in (0, 2):
                cid = "corpus/%s/%s/O%d" % (lang, name, opt)
                if only is not None and cid != only:
                    continue
                yield cid, mk(src, opt)


def args_for(r, module, n=3):
    argv = {}
    for fn in scalar_functions(module):
        argv[fn] = irgen.gen_args(r, module, fn, n)
    return argv


# ---- directed modules -------------------------------------------------------

def _fn(m, name, ret, ptys, binding=None):
    if ret is None:
        f = ir.Procedure(name, binding or ir.Binding.GLOBAL)
    else:
        f = ir.Function(name, binding or ir.Binding.GLOBAL, ret)
    m.add_function(f)
    ps = []
    for i, t in enumerate(ptys):
        p = ir.Parameter("p%d" % i, t)
        f.add_parameter(p)
        ps.append(p)
    return f, ps


def _blocks(f, names):
    out = []
    for n in names:
        b = ir.Block("%s_%s" % (f.name, n))
        f.add_block(b)
        out.append(b)
    f.entry = out[0]
    return out


def _sample(ty):
    if ty is ir.ptr:
        return 8
    if ty.is_integer:
        return 5
    return 2.5


ALL_TYPES = [ir.i8, ir.u8, ir.i16, ir.u16, ir.i32, ir.u32, ir.i64, ir.u64, ir.f32, ir.f64]


def directed_forward(kind, ty):
    """entry -> defs -> uses, listed as [entry, uses, defs]: every operand of the
    instruction of the given kind in 'uses' is defined textually later."""
    m = ir.Module("fwd")
    ret = ty if kind in ("binop", "unop", "return", "cast", "load", "call") else ir.i32
    helper = None
    if kind == "call":
        helper, (hp,) = _fn(m, "helper", ty, [ty])
        (hb,) = _blocks(helper, ["b"])
        hb.add_instruction(ir.Return(hp))
    f, (p,) = _fn(m, "f", ret, [ty])
    entry, uses, defs = _blocks(f, ["entry", "uses", "defs"])
    entry.add_instruction(ir.Jump(defs))
    d1 = ir.Binop(p, "+", p, "d1", ty)
    defs.add_instruction(d1)
    c = ir.Const(_sample(ty), "d2", ty)
    defs.add_instruction(c)
    al = ir.Alloc("dal", 8, 8)
    defs.add_instruction(al)
    ad = ir.AddressOf(al, "dad")
    defs.add_instruction(ad)
    defs.add_instruction(ir.Store(d1, ad))
    al2 = ir.Alloc("dal2", 8, 8)
    defs.add_instruction(al2)
    ad2 = ir.AddressOf(al2, "dad2")
    defs.add_instruction(ad2)
    defs.add_instruction(ir.Jump(uses))
    one = None
    if kind == "binop":
        t = ir.Binop(d1, "-" if ty is ir.ptr else "*", c, "t", ty)
        uses.add_instruction(t)
        uses.add_instruction(ir.Return(t))
    elif kind == "unop":
        t = ir.Unop("-", d1, "t", ty)
        uses.add_instruction(t)
        uses.add_instruction(ir.Return(t))
    elif kind == "cast":
        t = ir.Cast(d1, "t", ty)
        uses.add_instruction(t)
        uses.add_instruction(ir.Return(t))
    elif kind == "return":
        uses.add_instruction(ir.Return(d1))
    elif kind == "load":
        t = ir.Load(ad, "t", ty)
        uses.add_instruction(t)
        uses.add_instruction(ir.Return(t))
    elif kind == "call":
        t = ir.FunctionCall(helper, [d1], "t", ty)
        uses.add_instruction(t)
        uses.add_instruction(ir.Return(t))
    else:
        one = ir.Const(1, "one", ir.i32)
        zero = ir.Const(0, "zero", ir.i32)
        if kind == "store":
            uses.add_instruction(ir.Store(c, ad))
        elif kind == "addressof":
            uses.add_instruction(ir.AddressOf(al, "t"))
        elif kind == "memcpy":
            uses.add_instruction(ir.CopyBlob(ad2, ad, 8))
        if kind == "cjump":
            yes, no = _blocks_more(f, ["yes", "no"])
            uses.add_instruction(ir.CJump(d1, "<", c, yes, no))
            yes.add_instruction(one)
            yes.add_instruction(ir.Return(one))
            no.add_instruction(zero)
            no.add_instruction(ir.Return(zero))
        else:
            uses.add_instruction(one)
            uses.add_instruction(ir.Return(one))
    return m


def _blocks_more(f, names):
    out = []
    for n in names:
        b = ir.Block("%s_%s" % (f.name, n))
        f.add_block(b)
        out.append(b)
    return out


def directed_constants():
    """one function per (class value, type) returning the constant"""
    m = ir.Module("consts")
    n = 0
    fvals = [0.0, -0.0, 1.0, -1.0, 0.1, -2.5, 0.30000000000000004, 3.141592653589793, -2.718281828459045, 16777217.0,
             0.000123456789012, 5e-324, 2.2250738585072014e-308, 1e-300, 1.5e-05, 1e16, 1e22, 1e300,
             1.7976931348623157e308, -1e25, 123456789.125, float("inf"), float("-inf"), float("nan")]
    for ty in ALL_TYPES + [ir.ptr]:
        if ty is ir.ptr:
            vals = [0, 1, 8, 0xFFFFFFFF]
        elif ty.is_integer:
            lo, hi = irgen.int_range(ty)
            vals = [0, 1, -1 if lo < 0 else hi, lo, hi, hi - 1, lo + 1]
            if ty is ir.u64:
                vals += [1 << 63, (1 << 63) + 1]
            if ty is ir.i64:
                vals += [-(1 << 63)]
        else:
            vals = list(fvals) + [3, -7]      # int spelled constants of float type
        for v in vals:
            f, _ = _fn(m, "k%d" % n, ty, [])
            (b,) = _blocks(f, ["b"])
            c = ir.Const(v, "c", ty)
            b.add_instruction(c)
            b.add_instruction(ir.Return(c))
            n += 1
    return m


def directed_operators(ty):
    """every binary operator, unary operator and condition on one type"""
    m = ir.Module("ops_" + ty.name)
    isint = ty is not ir.ptr and ty.is_integer
    ops = list(BINOPS) if isint else ["+", "-", "*", "/"]
    if ty is ir.ptr:
        ops = ["+", "-"]
    for k, op in enumerate(ops):
        f, (a, b) = _fn(m, "op%d" % k, ty, [ty, ty])
        (blk,) = _blocks(f, ["b"])
        t = ir.Binop(a, op, b, "t", ty)
        blk.add_instruction(t)
        blk.add_instruction(ir.Return(t))
    if ty is not ir.ptr:
        for k, op in enumerate(UNOPS if isint else ["-"]):
            f, (a,) = _fn(m, "un%d" % k, ty, [ty])
            (blk,) = _blocks(f, ["b"])
            t = ir.Unop(op, a, "t", ty)
            blk.add_instruction(t)
            blk.add_instruction(ir.Return(t))
    for k, cond in enumerate(CONDS):
        f, (a, b) = _fn(m, "cmp%d" % k, ir.i32, [ty, ty])
        blk, yes, no = _blocks(f, ["b", "yes", "no"])
        blk.add_instruction(ir.CJump(a, cond, b, yes, no))
        one = ir.Const(1, "one", ir.i32)
        yes.add_instruction(one)
        yes.add_instruction(ir.Return(one))
        zero = ir.Const(0, "zero", ir.i32)
        no.add_instruction(zero)
        no.add_instruction(ir.Return(zero))
    if ty is not ir.ptr:
        for k, dty in enumerate(ALL_TYPES + [ir.ptr]):
            if dty is ir.ptr and not isint:
                continue
            f, (a,) = _fn(m, "cast%d" % k, dty, [ty])
            (blk,) = _blocks(f, ["b"])
            t = ir.Cast(a, "t", dty)
            blk.add_instruction(t)
            blk.add_instruction(ir.Return(t))
    return m


def directed_names():
    """parameters, values and blocks called like words of the text syntax; a
    local value that shadows a global; local bindings; every external kind;
    blob parameter and blob-typed call argument; a call of a function defined
    later in the module"""
    m = ir.Module("names")
    m.add_external(ir.ExternalVariable("xvar"))
    xp = ir.ExternalProcedure("xproc", [ir.i32, ir.f64])
    m.add_external(xp)
    xf = ir.ExternalFunction("xfun", [], ir.u16)
    m.add_external(xf)
    m.add_variable(ir.Variable("load", ir.Binding.LOCAL, 4, 4))
    m.add_variable(ir.Variable("counter", ir.Binding.GLOBAL, 8, 8))
    f, ps = _fn(m, "first", ir.i32, [ir.i32, ir.i32, ir.i32])
    for p, n in zip(ps, ["phi", "store", "bytes"]):
        p.name = n
    (b,) = _blocks(f, ["global"])
    later_ret = ir.i32
    vals = []
    prev = ps[0]
    for n in ["load", "cast", "call", "alloc", "literal", "jmp", "cjmp", "exit", "aligned", "at", "blob", "ptr", "i32",
              "function", "procedure", "variable", "local", "external", "module", "undefined", "memcpy", "rol", "e5"]:
        t = ir.Binop(prev, "+", ps[1], n, ir.i32)
        b.add_instruction(t)
        prev = t
    call = ir.FunctionCall(xf, [], "counter", ir.u16)     # local value shadows the global 'counter'
    b.add_instruction(call)
    cc = ir.Cast(call, "return", ir.i32)
    b.add_instruction(cc)
    s = ir.Binop(prev, "+", cc, "sum", ir.i32)
    b.add_instruction(s)
    fc = ir.Const(2.5, "fconst", ir.f64)
    b.add_instruction(fc)
    b.add_instruction(ir.ProcedureCall(xp, [s, fc]))
    b.add_instruction(ir.Return(s))
    # call of a later function, blob parameter
    g, (gp,) = _fn(m, "second", ir.i32, [ir.i32], binding=ir.Binding.LOCAL)
    (gb,) = _blocks(g, ["b"])
    al = ir.Alloc("box", 16, 8)
    gb.add_instruction(al)
    ad = ir.AddressOf(al, "boxp")
    gb.add_instruction(ad)
    gb.add_instruction(ir.Store(gp, ad))
    h = ir.Function("third", ir.Binding.GLOBAL, ir.i32)     # defined after its first use
    r = ir.FunctionCall(h, [al], "r", ir.i32)
    gb.add_instruction(r)
    gb.add_instruction(ir.Return(r))
    m.add_function(h)
    bp = ir.Parameter("boxed", ir.BlobDataTyp(16, 8))
    h.add_parameter(bp)
    (hb,) = _blocks(h, ["b"])
    a2 = ir.AddressOf(bp, "inner")
    hb.add_instruction(a2)
    v = ir.Load(a2, "v", ir.i32)
    hb.add_instruction(v)
    hb.add_instruction(ir.Return(v))
    # a procedure without parameters, local binding
    q, _ = _fn(m, "fourth", None, [], binding=ir.Binding.LOCAL)
    (qb,) = _blocks(q, ["b"])
    qb.add_instruction(ir.Exit())
    return m


def directed_undefined_phi():
    """what mem2reg leaves for `int x; if (p > 0) x = 7; if (p > 0) return x; return 0;`"""
    m = ir.Module("undphi")
    f, (p,) = _fn(m, "f", ir.i32, [ir.i32])
    entry, then, join, yes, no = _blocks(f, ["entry", "then", "join", "yes", "no"])
    und = ir.Undefined("und_x", ir.i32)
    entry.add_instruction(und)
    zero = ir.Const(0, "zero", ir.i32)
    entry.add_instruction(zero)
    entry.add_instruction(ir.CJump(p, ">", zero, then, join))
    seven = ir.Const(7, "seven", ir.i32)
    then.add_instruction(seven)
    then.add_instruction(ir.Jump(join))
    phi = ir.Phi("x", ir.i32)
    join.add_instruction(phi)
    phi.set_incoming(entry, und)
    phi.set_incoming(then, seven)
    join.add_instruction(ir.CJump(p, ">", zero, yes, no))
    yes.add_instruction(ir.Return(phi))
    no.add_instruction(ir.Return(zero))
    return m


def directed_mixed_forward(ty):
    """a value referenced before its definition first by an untyped user
    (store / cast / call argument), then by a typed one (phi, binop)"""
    m = ir.Module("mixfwd")
    f, (p,) = _fn(m, "f", ty, [ty])
    entry, head, body = _blocks(f, ["entry", "head", "body"])
    al = ir.Alloc("al", 8, 8)
    entry.add_instruction(al)
    ad = ir.AddressOf(al, "ad")
    entry.add_instruction(ad)
    entry.add_instruction(ir.Jump(body))
    # head is listed before body but runs after it
    nxt = ir.Binop(p, "+", p, "nxt", ty)
    head.add_instruction(ir.Store(nxt, ad))
    c = ir.Cast(nxt, "c", ty)
    head.add_instruction(c)
    t = ir.Binop(nxt, "+", c, "t", ty)
    head.add_instruction(t)
    head.add_instruction(ir.Return(t))
    body.add_instruction(nxt)
    body.add_instruction(ir.Jump(head))
    return m


def directed_selfphi_forward(ty):
    """blocks listed [entry, after, head]: `after` uses (untyped) a phi of
    `head` that also feeds itself"""
    m = ir.Module("selfphi")
    f, (p, n) = _fn(m, "f", ir.i32, [ty, ir.i32])
    entry, after, head = _blocks(f, ["entry", "after", "head"])
    zero = ir.Const(0, "zero", ir.i32)
    entry.add_instruction(zero)
    one = ir.Const(1, "one", ir.i32)
    entry.add_instruction(one)
    entry.add_instruction(ir.Jump(head))
    acc = ir.Phi("acc", ty)
    i = ir.Phi("i", ir.i32)
    ci = ir.Cast(acc, "ci", ir.i32)
    after.add_instruction(ci)
    after.add_instruction(ir.Return(ci))
    head.add_instruction(acc)
    head.add_instruction(i)
    i2 = ir.Binop(i, "+", one, "i2", ir.i32)
    head.add_instruction(i2)
    acc.set_incoming(entry, p)
    acc.set_incoming(head, acc)
    i.set_incoming(entry, zero)
    i.set_incoming(head, i2)
    head.add_instruction(ir.CJump(i2, "<", n, head, after))
    return m


def directed_blob_types(order):
    """Blob types of equal size and different alignment in every position that
    carries a type: parameters, return types, parameter and return types of
    externals, phi, call result, undefined, cast; plus allocs of those types
    passed by value.  ``order`` permutes which alignment is met first."""
    m = ir.Module("blobtypes")
    aligns = [[4, 1, 8, 2], [1, 8, 2, 4], [8, 2, 4, 1], [2, 4, 1, 8]][order]
    t = [ir.BlobDataTyp(8, a) for a in aligns]
    w = [ir.BlobDataTyp(16, a) for a in aligns]
    xp = ir.ExternalProcedure("xblobs", [t[1], t[0], w[2]])
    m.add_external(xp)
    xf = ir.ExternalFunction("xmake", [ir.i32, t[2]], t[3])
    m.add_external(xf)
    # by value in, by value out
    same, (sp, _) = _fn(m, "same", t[1], [t[1], t[0]])
    (sb,) = _blocks(same, ["b"])
    sb.add_instruction(ir.Return(sp))
    pick, (c, a, b, wa, wb) = _fn(m, "pick", ir.i32, [ir.i32, t[0], t[0], w[0], w[1]])
    entry, left, right, join = _blocks(pick, ["entry", "left", "right", "join"])
    zero = ir.Const(0, "zero", ir.i32)
    entry.add_instruction(zero)
    und = ir.Undefined("und_box", t[2])
    entry.add_instruction(und)
    al = ir.Alloc("tmpbox", 8, aligns[2])
    entry.add_instruction(al)
    entry.add_instruction(ir.CJump(c, ">", zero, left, right))
    left.add_instruction(ir.Jump(join))
    right.add_instruction(ir.Jump(join))
    phi = ir.Phi("chosen", t[0])
    join.add_instruction(phi)
    phi.set_incoming(left, a)
    phi.set_incoming(right, b)
    phi2 = ir.Phi("maybe", t[2])
    join.add_instruction(phi2)
    phi2.set_incoming(left, und)
    phi2.set_incoming(right, al)
    ad = ir.AddressOf(phi, "chosenp")
    join.add_instruction(ad)
    v = ir.Load(ad, "v", ir.i32)
    join.add_instruction(v)
    made = ir.FunctionCall(xf, [v, al], "made", t[3])
    join.add_instruction(made)
    al1 = ir.Alloc("box1", 8, aligns[1])
    join.add_instruction(al1)
    back = ir.FunctionCall(same, [al1, phi], "back", t[1])
    join.add_instruction(back)
    cast = ir.Cast(back, "recast", t[0])
    join.add_instruction(cast)
    wide = ir.Undefined("und_wide", w[2])
    join.add_instruction(wide)
    join.add_instruction(ir.ProcedureCall(xp, [back, cast, wide]))
    join.add_instruction(ir.Return(v))
    return m


def directed_cases():
    """-> [(case id, build)]"""
    out = [("directed/undefined-phi", directed_undefined_phi)]
    for order in range(4):
        out.append(("directed/blob-types/%d" % order, (lambda order=order: directed_blob_types(order))))
    for ty in (ir.u8, ir.i64, ir.f32):
        out.append(("directed/forward/selfphi/%s" % ty.name, (lambda ty=ty: directed_selfphi_forward(ty))))
    for ty in (ir.u8, ir.i32, ir.f64, ir.ptr):
        out.append(("directed/forward/mixed/%s" % ty.name, (lambda ty=ty: directed_mixed_forward(ty))))
    kinds = ["binop", "unop", "cast", "return", "load", "call", "store", "addressof", "memcpy", "cjump"]
    for kind in kinds:
        tys = ALL_TYPES + ([ir.ptr] if kind in ("binop", "cast", "return", "load", "call", "store", "cjump") else [])
        if kind in ("addressof", "memcpy"):
            tys = [ir.i32]
        for ty in tys:
            out.append(("directed/forward/%s/%s" % (kind, ty.name), (lambda kind=kind, ty=ty: directed_forward(kind, ty))))
    out.append(("directed/constants", directed_constants))
    for ty in ALL_TYPES + [ir.ptr]:
        out.append(("directed/operators/%s" % ty.name, (lambda ty=ty: directed_operators(ty))))
    out.append(("directed/names", directed_names))
    return out


# --------------------------------------------------------------------------
# behaviour


def behaviour(m1, m2, argv, ptr_size, mon, max_steps=40000):
    """Run every (function, vector) on both modules.  -> list of difference
    strings.  mon: dict with 'runs', 'discarded' (dict), 'nontrivial' (list of
    (fname, vec))."""
    diffs = []
    try:
        i1 = Interp(m1, ptr_size=ptr_size)
        i2 = Interp(m2, ptr_size=ptr_size)
    except Exception as e:  # noqa
        return ["reference interpreter could not load a module: %s: %s" % (type(e).__name__, e)]
    for fname, vecs in argv.items():
        for vec in vecs:
            try:
                r1 = i1.run(fname, vec, max_steps=max_steps)
            except Exception as e:  # noqa -- the reference model cannot run the ORIGINAL: nothing to compare
                bump(mon["discarded"], "reference interpreter raised on the original: %s" % type(e).__name__)
                continue
            if r1.status != "ok":
                key = r1.status + ": " + (r1.reason or "")[:30]
                bump(mon["discarded"], key)
                continue
            try:
                r2 = i2.run(fname, vec, max_steps=max_steps)
                o2 = {"status": r2.status, "reason": r2.reason, "obs": r2.observables() if r2.status == "ok" else None}
            except Exception as e:  # noqa
                o2 = {"status": "interpreter raised", "reason": "%s: %s" % (type(e).__name__, str(e)[:120]), "obs": None}
            mon["runs"] += 1
            if r1.steps >= 10 and r1.branches >= 1:
                mon["nontrivial"].append((fname, vec))
            o1 = r1.observables()
            if o2["status"] != "ok":
                diffs.append("%s%r: original returns %r, re-read module: %s (%s)" % (
                    fname, tuple(vec), o1["ret"], o2["status"], o2["reason"]))
            elif o1 != o2["obs"]:
                what = [k for k in ("ret", "globals", "trace") if o1[k] != o2["obs"][k]]
                k = what[0]
                diffs.append("%s%r: %s differs: original %s, re-read %s" % (
                    fname, tuple(vec), k, str(o1[k])[:160], str(o2["obs"][k])[:160]))
            if len(diffs) >= 3:
                return diffs
    return diffs


# --------------------------------------------------------------------------
# shared engine of checks/c15.py and checks/c16.py


class Table:
    """What a check knows about its findings.
    triggers: {finding key: [trigger names]}   constructs kept out of the sweep while the finding is open
    dials:    {finding key: irgen cfg overrides}
    defines:  {finding key: [C defines for the corpus]}
    """

    def __init__(self, prop, triggers, dials, defines, roundtrip, behaviour, identifier_syntax):
        self.prop = prop
        self.triggers = triggers
        self.dials = dials
        self.defines = defines
        self.roundtrip = roundtrip          # (module) -> (module2 or None, [(stage, detail)], artefact text)
        self.behaviour = behaviour
        self.identifier_syntax = identifier_syntax

    def avoid_triggers(self, avoid):
        out = set()
        for k in avoid:
            out |= set(self.triggers.get(k, ()))
        return out

    def merged_dials(self, avoid):
        cfg = {}
        off = set()
        for k in avoid:
            d = self.dials.get(k, {})
            for name, v in d.items():
                if name == "kinds_off":
                    off |= set(v)
                else:
                    cfg[name] = v
        cfg["kinds_off"] = tuple(sorted(off))
        return cfg

    def merged_defines(self, avoid):
        out = []
        for k in avoid:
            out += self.defines.get(k, [])
        return sorted(set(out))


class Mon:
    def __init__(self):
        self.evals = 0
        self.nontrivial = set()
        self.viol = []
        self.kinds = {}
        self.origin = {}
        self.stages = {}
        self.known = {}
        self.neutralised = {}
        self.discarded = {}
        self.samples = []
        self.beh = {"runs": 0, "discarded": {}, "nontrivial": []}

    def result(self):
        disc = dict(self.discarded)
        for k, v in self.beh["discarded"].items():
            disc["run " + k] = v
        return {"evaluations": self.evals, "nontrivial_hashes": sorted(self.nontrivial),
                "observed": {"kinds": nest(self.kinds), "origin": self.origin, "stages_compared": self.stages,
                             "explained_by_open_finding": self.known, "constructs_rewritten_away": self.neutralised,
                             "behaviour_runs": self.beh["runs"]},
                "discarded": disc, "samples": self.samples[:2], "violations": self.viol[:12]}


def attempt(table, m, ptr_size, r, mon, count):
    """One round trip of a well-formed module -> (failures, artefact)."""
    m2, fails, art = table.roundtrip(m)
    if count:
        mon.evals += 1
        bump(mon.stages, "structure")
    if not fails and m2 is not None and table.behaviour:
        argv = args_for(r, m, 2)
        beh = mon.beh if count else {"runs": 0, "discarded": {}, "nontrivial": []}
        before = beh["runs"]
        diffs = behaviour(m, m2, argv, ptr_size, beh)
        if count:
            mon.evals += beh["runs"] - before
            bump(mon.stages, "behaviour", beh["runs"] - before)
        for d in diffs:
            fails.append(("behaviour", d))
    return fails, art


def judge(table, mon, cid, origin, build, seed_r, avoid, raw, spec, replay):
    try:
        m, ptr_size = build()
    except Exception as e:  # noqa -- the front-end / generator, not the round trip, failed
        bump(mon.discarded, "%s: case could not be built: %s" % (origin, type(e).__name__))
        return
    kinds, trig = scan(m)
    avoid_trig = table.avoid_triggers(avoid)
    present = sorted(k for k in avoid if set(table.triggers.get(k, ())) & trig)
    if present and not raw:
        neutralise(m, trig & avoid_trig)
        for k in present:
            bump(mon.neutralised, k)
        kinds, trig = scan(m)
        if trig & avoid_trig:
            bump(mon.discarded, "construct of an open finding could not be rewritten away")
            return
    if table.identifier_syntax and "odd-name" in trig:
        bump(mon.discarded, "a name is outside the identifier syntax of the text format")
        return
    why = well_formed(m)
    if why:
        bump(mon.discarded, "%s: input not well-formed (%s)" % (origin, why.split(":")[0]))
        return
    merge_kinds(mon.kinds, kinds)
    bump(mon.origin, origin)
    r = seed_r()
    fails, art = attempt(table, m, ptr_size, r, mon, True)
    ninstr = sum(len(b.instructions) for f in m.functions for b in f.blocks)
    if ninstr >= 10:
        mon.nontrivial.add(ircmp.structural_hash(m))
    if not fails:
        if len(mon.samples) < 2 and ninstr > 25:
            mon.samples.append({"case": cid, "artefact": art[:700]})
        return
    if raw and present:
        # neutralise-and-retest (DESIGN 3.2 step 3)
        try:
            m3, ptr_size = build()
            _, trig3 = scan(m3)
            neutralise(m3, trig3 & avoid_trig)
            _, trig3 = scan(m3)
            ok = not (trig3 & avoid_trig) and well_formed(m3) is None
        except Exception:  # noqa
            ok = False
        if ok:
            fails3, art3 = attempt(table, m3, ptr_size, seed_r(), mon, False)
            if not fails3:
                for k in present:
                    bump(mon.known, k)
                return
            fails, art = [(s, "after rewriting the constructs of %s away: %s" % (present, d)) for s, d in fails3], art3
        else:
            for k in present:
                bump(mon.known, k)
            bump(mon.discarded, "raw case failed, could not be neutralised for a retest")
            return
    if len(mon.viol) < 12:
        stage, detail = fails[0]
        mon.viol.append({
            "summary": "%s: %s: %s" % (cid, stage, detail[:240]),
            "case": {"id": cid, "origin": origin, "failures": [[s, d[:600]] for s, d in fails[:4]],
                     "constructs_present": sorted(trig), "artefact": art[:9000]},
            "replay_spec": replay,
        })


def nest(flat):
    """{'ins.Const': 3} -> {'ins': {'Const': 3}} (core.dig walks dotted paths)"""
    out = {}
    for k, v in flat.items():
        cur = out
        parts = k.split(".")
        for p in parts[:-1]:
            cur = cur.setdefault(p, {})
        cur[parts[-1]] = v
    return out


def merge_kinds(dst, src):
    for k, v in src.items():
        dst[k] = dst.get(k, 0) + v


def run_shard(spec, table):
    from .core import rng

    mon = Mon()
    avoid = list(spec["avoid"])
    raw = bool(spec.get("raw"))
    part = spec["part"]
    only = spec.get("only")
    prop = table.prop
    if part == "gen":
        dials = {} if raw else table.merged_dials(avoid)
        for idx in range(spec["start"], spec["start"] + spec["count"]):
            if only is not None and idx != only:
                continue

            def build(idx=idx):
                r = rng(spec["seed"], prop, idx)
                m, argv, ptr_size, tags = gen_case(r, dials)
                return m, ptr_size
            judge(table, mon, "irgen/%s/%d%s" % (spec["seed"], idx, "/raw" if raw else ""), "irgen", build,
                  (lambda idx=idx: rng(spec["seed"], prop, "args%d" % idx)), avoid, raw, spec, dict(spec, only=idx))
    elif part == "corpus":
        defines = [] if raw else table.merged_defines(avoid)
        for cid, mk in corpus_cases(None, defines):
            if only is not None and cid != only:
                continue
            judge(table, mon, cid + ("/raw" if raw else ""), "corpus", (lambda mk=mk: (mk(), 8)),
                  (lambda cid=cid: rng(spec["seed"], prop, cid)), avoid, raw, spec, dict(spec, only=cid))
    elif part == "directed":
        for cid, mk in directed_cases():
            if only is not None and cid != only:
                continue
            judge(table, mon, cid + ("/raw" if raw else ""), "directed", (lambda mk=mk: (mk(), 8)),
                  (lambda cid=cid: rng(spec["seed"], prop, cid)), avoid, raw, spec, dict(spec, only=cid))
    return mon.result()


def required_kinds(avoid_trig, text):
    """Evidence floors: what every run must have seen (DESIGN C15 E: 'must be all, else inconclusive')."""
    req = ["ins." + c for c in INSTRUCTION_CLASSES]
    req += ["binop." + o for o in BINOPS] + ["unop." + o for o in UNOPS] + ["cond." + c for c in CONDS]
    req += ["type." + t for t in VALUE_TYPES] + ["const." + c for c in CONST_CLASSES]
    req += ["global.bytes", "global.relocation", "global.uninitialised", "volatile.load", "volatile.store",
            "external.ExternalVariable", "external.ExternalFunction", "external.ExternalProcedure",
            "callee.direct", "callee.indirect", "function.Function", "function.Procedure", "param.blob",
            "binding.function.local", "binding.variable.local", "fwdref.Phi", "undefined.phi-input", "store.blob-value",
            "blobtype.same-size-different-alignment", "blobtype-at.parameter", "blobtype-at.return",
            "blobtype-at.external-parameter", "blobtype-at.external-return", "blobtype-at.Phi",
            "blobtype-at.FunctionCall", "blobtype-at.Undefined", "blobtype-at.Cast"]
    drop = set()
    if "unop~" in avoid_trig:
        drop.add("unop.~")
    if "rotate" in avoid_trig:
        drop |= {"binop.rol", "binop.ror"}
    if "undefined" in avoid_trig:
        drop |= {"ins.Undefined", "undefined.phi-input", "blobtype-at.Undefined"}
    if "memcpy" in avoid_trig:
        drop.add("ins.CopyBlob")
    if "inline-asm" in avoid_trig:
        drop.add("ins.InlineAsm")
    if "float-spelling" in avoid_trig:
        drop |= {"const.float-tiny", "const.float-huge", "const.float-exponent", "const.float-inf", "const.float-nan"}
    if "init-value" in avoid_trig:
        drop |= {"global.bytes", "global.relocation"}
    if "volatile" in avoid_trig:
        drop |= {"volatile.load", "volatile.store"}
    return [k for k in req if k not in drop]
