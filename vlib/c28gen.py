"""Small generators for C28: C3 programs and IR text modules (valid by construction).

C3: what is "valid" is defined by ppci's own C3 front-end, so the generator aims
at type-correct programs in the syntax of the repository's samples; a
diagnostic is an accepted outcome, only an internal error refutes C28.

IR text: modules in the syntax ppci.irutils.print_module writes, restricted to
what read_module can read back (no initial values, no negative literals, no
unary ~): typed SSA values, allocs, loads/stores, casts, binops, calls, phis in
diamonds and counted loops.  Every use is dominated by its definition by
construction (values of a branch arm are only used inside the arm or through a
phi at the join).
"""

# ---- C3 -----------------------------------------------------------------------------------

C3_NARROW = ("byte", "int8_t", "int16_t", "uint8_t", "uint16_t")
A_C3_CONSTOPS = "c3-const-bit-operators"
A_C3_CONSTDIV = "c3-const-division"
A_ARM_SMALL = "arm-at-most-four-parameters"
A_ARM_64 = "arm-no-64-bit-types"
A_ARM_8 = "arm-no-8-bit-types"
A_NARROW = "narrow-int-mul-div-neg-and-float-casts"   # feature switch: x86-64 selector has no pattern
C3_INTS = ["int", "byte", "int8_t", "int16_t", "int32_t", "int64_t", "uint8_t", "uint16_t", "uint32_t", "uint64_t"]


class C3Gen:
    def __init__(self, r, avoid=(), target="x86_64"):
        self.r = r
        self.avoid = frozenset(avoid)
        self.ints = list(C3_INTS)
        if target == "arm":
            if A_ARM_64 in self.avoid:
                self.ints = [t for t in self.ints if "64" not in t]
            if A_ARM_8 in self.avoid:
                self.ints = [t for t in self.ints if t not in ("byte", "int8_t", "uint8_t")]
        self.small = target == "arm" and A_ARM_SMALL in self.avoid
        self.cvals = {}       # constant name -> value
        self.out = []
        self.globals = []     # (name, type)
        self.garrays = []     # (name, type, n)
        self.gstructs = []    # (name, [(field, type)])
        self.consts = []
        self.funcs = []       # (name, ret, [types])
        self.features = set()
        self.n = 0

    def uid(self, p):
        self.n += 1
        return "%s%d" % (p, self.n)

    def ityp(self):
        return self.r.choice(self.ints + ["int", "int", "int"])

    def const_expr(self, depth=2):
        """(text, value) with the value inside the 32-bit int range at every node."""
        for _ in range(30):
            t, v = self._const_expr(depth)
            if v is not None and -(1 << 31) <= v < (1 << 31):
                return t, v
        return "1", 1

    def _const_expr(self, depth):
        r = self.r
        if depth <= 0 or r.random() < 0.3:
            if self.consts and r.random() < 0.3:
                n = r.choice(self.consts)
                return n, self.cvals[n]
            t = r.choice(("0", "1", "2", "7", "0x10", "255", "1000", "65536"))
            return t, int(t, 0)
        ops = ["+", "-", "*", "%"]
        if A_C3_CONSTDIV not in self.avoid:
            ops.append("/")
        if A_C3_CONSTOPS not in self.avoid:
            ops += ["<<", ">>", "|", "&", "^"]
        op = r.choice(ops)
        self.features.add("const:" + op)
        bt, bv = self._const_expr(depth - 1)
        if op in ("/", "%"):
            bt = r.choice(("1", "2", "3", "7"))
            bv = int(bt)
        if op in ("<<", ">>"):
            bt = r.choice(("0", "1", "3"))
            bv = int(bt)
        at, av = self._const_expr(depth - 1)
        if av is None or bv is None:
            return "0", None
        if op in ("/", "%") and av < 0:
            return "0", None      # sign conventions of / and % on negative operands are not what is tested here
        if op in ("/", "%") and bv <= 0 or op in ("<<", ">>") and not 0 <= bv < 31:
            return "0", None
        v = {"+": lambda: av + bv, "-": lambda: av - bv, "*": lambda: av * bv, "%": lambda: av % bv,
             "/": lambda: av // bv, "<<": lambda: av << bv, ">>": lambda: av >> bv, "|": lambda: av | bv,
             "&": lambda: av & bv, "^": lambda: av ^ bv}[op]()
        if v is None or not -(1 << 31) <= v < (1 << 31):
            return "0", None
        return "(%s %s %s)" % (at, op, bt), v

    def gen_top(self):
        r = self.r
        c = r.random()
        if c < 0.2:
            n = self.uid("K")
            t = r.choice(("int", "int", "byte"))
            e, v = self.const_expr()
            if t == "byte":
                e = "cast<byte>(%s)" % e
            self.out.append("const %s %s = %s;" % (t, n, e))
            if t == "int":
                self.consts.append(n)
                self.cvals[n] = v
            self.features.add("const")
        elif c < 0.45:
            n = self.uid("g")
            t = self.ityp()
            if r.random() < 0.5 and t == "int":
                self.out.append("var %s %s = %s;" % (t, n, self.const_expr(1)[0]))
                self.features.add("global-initialised")
            else:
                self.out.append("var %s %s;" % (t, n))
            self.globals.append((n, t))
        elif c < 0.6:
            n = self.uid("a")
            t = self.ityp()
            k = r.randrange(1, 9)
            self.out.append("var %s[%d] %s;" % (t, k, n))
            self.garrays.append((n, t, k))
            self.features.add("global-array")
        elif c < 0.75:
            n = self.uid("s")
            fields = [("f%d" % i, self.ityp()) for i in range(r.randrange(1, 4))]
            body = " ".join("%s %s;" % (t, f) for f, t in fields)
            if r.random() < 0.5:
                tn = self.uid("T")
                self.out.append("type struct { %s } %s;" % (body, tn))
                self.out.append("var %s %s;" % (tn, n))
                self.features.add("type-definition")
            else:
                self.out.append("var struct { %s } %s;" % (body, n))
            self.gstructs.append((n, fields))
            self.features.add("struct")
        else:
            self.gen_function()

    def lvalue(self, locs):
        r = self.r
        cands = []
        if locs:
            cands.append("l")
        if self.globals:
            cands.append("g")
        if self.garrays:
            cands.append("a")
        if self.gstructs:
            cands.append("s")
        if not cands:
            return None, None
        k = r.choice(cands)
        if k == "l":
            return r.choice(locs)
        if k == "g":
            return r.choice(self.globals)
        if k == "a":
            n, t, ln = r.choice(self.garrays)
            self.features.add("index")
            return "%s[%d]" % (n, r.randrange(ln)), t
        n, fields = r.choice(self.gstructs)
        f, t = r.choice(fields)
        self.features.add("member")
        return "%s.%s" % (n, f), t

    def expr(self, locs, depth=2):
        r = self.r
        if depth <= 0 or r.random() < 0.3:
            c = r.random()
            if c < 0.5:
                lv, t = self.lvalue(locs)
                if lv:
                    return lv if t == "int" else "cast<int>(%s)" % lv
            if c < 0.6 and self.consts:
                return r.choice(self.consts)
            if c < 0.65:
                self.features.add("sizeof")
                return "sizeof(%s)" % self.ityp()
            return r.choice(("0", "1", "2", "5", "100", "0xff"))
        c = r.random()
        if c < 0.7:
            op = r.choice(("+", "-", "*", "/", "%", "<<", ">>", "|", "&", "^"))
            self.features.add("op:" + op)
            return "(%s %s %s)" % (self.expr(locs, depth - 1), op, self.expr(locs, depth - 1))
        if c < 0.8:
            self.features.add("unary-minus")
            return "(-%s)" % self.expr(locs, depth - 1)
        if c < 0.9 and self.funcs:
            f, ret, pts = r.choice(self.funcs)
            if ret == "int":
                self.features.add("call")
                return "%s(%s)" % (f, ", ".join(self.arg(locs, t) for t in pts))
        self.features.add("cast")
        return "cast<int>(cast<%s>(%s))" % (self.ityp(), self.expr(locs, depth - 1))

    def arg(self, locs, t):
        e = self.expr(locs, 1)
        return e if t == "int" else "cast<%s>(%s)" % (t, e)

    def cond(self, locs, depth=1):
        r = self.r
        c = r.random()
        if depth > 0 and c < 0.3:
            op = r.choice(("and", "or"))
            self.features.add("cond:" + op)
            return "(%s %s %s)" % (self.cond(locs, depth - 1), op, self.cond(locs, depth - 1))
        if depth > 0 and c < 0.4:
            self.features.add("cond:not")
            return "not (%s)" % self.cond(locs, depth - 1)
        if c < 0.45:
            return r.choice(("true", "false"))
        op = r.choice(("==", "!=", "<", ">", "<=", ">="))
        return "%s %s %s" % (self.expr(locs, 1), op, self.expr(locs, 1))

    def stmts(self, locs, depth, ret):
        r = self.r
        out = []
        locs = list(locs)
        for _ in range(r.randrange(0, 5)):
            c = r.random()
            if depth >= 3:
                c *= 0.45
            if c < 0.15:
                n = self.uid("v")
                t = self.ityp()
                if r.random() < 0.6:
                    out.append("var %s %s = %s;" % (t, n, self.arg(locs, t)))
                else:
                    out.append("var %s %s;" % (t, n))
                locs.append((n, t))
                self.features.add("local")
            elif c < 0.4:
                lv, t = self.lvalue(locs)
                if lv is None:
                    continue
                op = r.choice(("=", "=", "+=", "-=", "*=", "|=", "&="))
                if op == "*=" and A_NARROW in self.avoid and t in C3_NARROW:
                    op = "+="
                self.features.add("assign" + op)
                out.append("%s %s %s;" % (lv, op, self.arg(locs, t)))
            elif c < 0.45:
                out.append(";")
            elif c < 0.6:
                self.features.add("if")
                s = "if (%s) { %s }" % (self.cond(locs), self.stmts(locs, depth + 1, ret))
                if r.random() < 0.5:
                    s += " else { %s }" % self.stmts(locs, depth + 1, ret)
                out.append(s)
            elif c < 0.7:
                self.features.add("while")
                out.append("while (%s) { %s }" % (self.cond(locs), self.stmts(locs, depth + 1, ret)))
            elif c < 0.8:
                ivs = [n for n, t in locs if t == "int"]
                if not ivs:
                    continue
                iv = r.choice(ivs)
                self.features.add("for")
                out.append("for (%s = 0; %s < %s; %s = %s + 1) { %s }" % (
                    iv, iv, self.expr(locs, 1), iv, iv, self.stmts(locs, depth + 1, ret)))
            elif c < 0.88:
                self.features.add("switch")
                cases = []
                for v in sorted(r.sample(range(0, 20), r.randrange(0, 4))):
                    cases.append("case %d: { %s }" % (v, self.stmts(locs, depth + 1, ret)))
                cases.append("default: { %s }" % self.stmts(locs, depth + 1, ret))
                out.append("switch (%s) { %s }" % (self.expr(locs, 1), " ".join(cases)))
            elif c < 0.94:
                self.features.add("return")
                out.append("return;" if ret == "void" else "return %s;" % self.expr(locs))
                break
            else:
                pf = [f for f in self.funcs if f[1] == "void"]
                if pf:
                    f, _, pts = r.choice(pf)
                    self.features.add("call-statement")
                    out.append("%s(%s);" % (f, ", ".join(self.arg(locs, t) for t in pts)))
        return " ".join(out)

    def gen_function(self):
        r = self.r
        name = self.uid("fn")
        ret = r.choice(("void", "int", "int"))
        params = [(self.uid("p"), self.ityp()) for _ in range(r.choice((0, 1, 2, 3, 4) if self.small else (0, 1, 2, 3, 5)))]
        body = self.stmts(params, 0, ret)
        if ret == "int":
            body += " return %s;" % self.expr(params, 1)
        self.out.append("function %s %s(%s) { %s }" % (ret, name, ", ".join("%s %s" % (t, n) for n, t in params), body))
        self.funcs.append((name, ret, [t for _, t in params]))
        self.features.add("function")

    def build(self, size):
        self.out.append("module m%d;" % self.r.randrange(100))
        for _ in range(size):
            self.gen_top()
        if not self.funcs:
            self.gen_function()
        return "\n".join(self.out) + "\n"


def gen_c3(r, avoid=(), target="x86_64"):
    g = C3Gen(r, avoid, target)
    return g.build(r.randrange(4, 12)), sorted(g.features)


# ---- IR text --------------------------------------------------------------------------------

IR_INTS = ["i8", "u8", "i16", "u16", "i32", "u32", "i64", "u64"]
IR_SIZE = {"i8": 1, "u8": 1, "i16": 2, "u16": 2, "i32": 4, "u32": 4, "i64": 8, "u64": 8, "f32": 4, "f64": 8, "ptr": 8}
IR_BINOPS = ["+", "-", "*", "/", "%", "&", "|", "^", "<<", ">>"]
IR_CMPS = ["==", "!=", "<", ">", "<=", ">="]
NARROW = ("i8", "u8", "i16", "u16")


class IrGen:
    def __init__(self, r, avoid=(), floats=True):
        self.r = r
        self.avoid = frozenset(avoid)
        self.n = 0
        self.features = set()
        self.globals = []
        self.externals = []
        self.functions = []    # (name, ret, [types])
        self.floats = floats

    def uid(self, p="v"):
        self.n += 1
        return "%s%d" % (p, self.n)

    def typ(self):
        c = self.r.random()
        if self.floats and c < 0.12:
            return self.r.choice(("f64", "f32"))
        return self.r.choice(IR_INTS + ["i32", "i32", "i64"])

    class Ctx:
        def __init__(self, vals, lines):
            self.vals = vals      # {type: [names]} visible here
            self.lines = lines

        def fork(self):
            return IrGen.Ctx({t: list(v) for t, v in self.vals.items()}, self.lines)

    def const(self, cx, t):
        n = self.uid("c")
        if t in ("f32", "f64"):
            cx.lines.append("    %s %s = %s;" % (t, n, self.r.choice(("0.0", "1.0", "2.5", "100.0", "0.125"))))
        else:
            bits = 8 * IR_SIZE[t] - (1 if t[0] == "i" else 0)
            v = self.r.choice((0, 1, 2, 3, 7, 8, 255, (1 << bits) - 1, 1 << (bits - 1) if t[0] == "u" else 5))
            cx.lines.append("    %s %s = %d;" % (t, n, v))
        cx.vals.setdefault(t, []).append(n)
        self.features.add("const:" + t)
        return n

    def value(self, cx, t):
        have = cx.vals.get(t, [])
        if have and self.r.random() < 0.75:
            return self.r.choice(have)
        # make one: cast from another type or a constant
        others = [(ot, v) for ot, vs in cx.vals.items() for v in vs if ot != t and ot != "ptr"]
        if A_NARROW in self.avoid:
            others = [(ot, v) for ot, v in others if not self.bad_cast(ot, t)]
        if others and self.r.random() < 0.5 and t != "ptr":
            ot, v = self.r.choice(others)
            n = self.uid("k")
            cx.lines.append("    %s %s = cast %s;" % (t, n, v))
            cx.vals.setdefault(t, []).append(n)
            self.features.add("cast:%s->%s" % (ot, t))
            return n
        return self.const(cx, t)

    @staticmethod
    def bad_cast(src, dst):
        fl = ("f32", "f64")
        return (src in fl and dst in NARROW) or (src in NARROW and dst in fl) or (src == "u64" and dst in fl)

    def straight(self, cx, count, allocs):
        r = self.r
        for _ in range(count):
            c = r.random()
            if c < 0.55:
                t = self.typ()
                ops = ["+", "-", "*", "/"] if t[0] == "f" else IR_BINOPS
                op = r.choice(ops)
                if A_NARROW in self.avoid and t in NARROW and op in ("*", "/", "%"):
                    op = r.choice(("+", "-", "&", "|", "^"))
                a, b = self.value(cx, t), self.value(cx, t)
                n = self.uid()
                cx.lines.append("    %s %s = %s %s %s;" % (t, n, a, op, b))
                cx.vals.setdefault(t, []).append(n)
                self.features.add("binop:%s:%s" % (op, t))
            elif c < 0.68 and allocs:
                addr, t = r.choice(allocs)
                cx.lines.append("    store %s, %s;" % (self.value(cx, t), addr))
                self.features.add("store:" + t)
            elif c < 0.8 and allocs:
                addr, t = r.choice(allocs)
                n = self.uid("ld")
                cx.lines.append("    %s %s = load %s;" % (t, n, addr))
                cx.vals.setdefault(t, []).append(n)
                self.features.add("load:" + t)
            elif c < 0.88 and self.globals:
                g, size = r.choice(self.globals)
                t = r.choice([k for k in IR_INTS if IR_SIZE[k] <= size])
                if r.random() < 0.5:
                    cx.lines.append("    store %s, %s;" % (self.value(cx, t), g))
                else:
                    n = self.uid("gl")
                    cx.lines.append("    %s %s = load %s;" % (t, n, g))
                    cx.vals.setdefault(t, []).append(n)
                self.features.add("global-access")
            elif c < 0.96 and (self.externals or self.functions):
                name, ret, pts = r.choice(self.externals + self.functions)
                args = ", ".join(self.value(cx, t) for t in pts)
                if ret is None:
                    cx.lines.append("    call %s(%s);" % (name, args))
                else:
                    n = self.uid("r")
                    cx.lines.append("    %s %s = call %s(%s);" % (ret, n, name, args))
                    cx.vals.setdefault(ret, []).append(n)
                self.features.add("call")
            else:
                t = self.typ()
                if A_NARROW in self.avoid and t in NARROW:
                    t = "i32"
                if True:
                    v = self.value(cx, t)
                    n = self.uid("ng")
                    cx.lines.append("    %s %s = -%s;" % (t, n, v))
                    cx.vals.setdefault(t, []).append(n)
                    self.features.add("unop-neg:" + t)

    def gen_function(self):
        r = self.r
        name = self.uid("fun")
        ret = self.typ() if r.random() < 0.8 else None
        params = [(self.uid("a"), self.typ() if r.random() < 0.85 else "ptr") for _ in range(r.randrange(0, 5))]
        lines = []
        cx = IrGen.Ctx({}, lines)
        for n, t in params:
            cx.vals.setdefault(t, []).append(n)
        blk = lambda: self.uid(name + "_b")   # noqa
        b0 = blk()
        lines.append("  %s: {" % b0)
        allocs = []
        for _ in range(r.randrange(0, 3)):
            t = self.typ()
            al, ad = self.uid("al"), self.uid("ad")
            lines.append("    blob<%d:%d> %s = alloc %d bytes aligned at %d;" % (IR_SIZE[t], IR_SIZE[t], al, IR_SIZE[t], IR_SIZE[t]))
            lines.append("    ptr %s = &%s;" % (ad, al))
            lines.append("    store %s, %s;" % (self.value(cx, t), ad))
            allocs.append((ad, t))
            self.features.add("alloc")
        self.straight(cx, r.randrange(1, 6), allocs)
        cur = b0
        for _seg in range(r.randrange(0, 3)):
            shape = r.choice(("diamond", "loop", "triangle"))
            self.features.add("cfg:" + shape)
            t = r.choice(IR_INTS)
            a, b = self.value(cx, t), self.value(cx, t)
            if shape == "diamond":
                bt, bf, bj = blk(), blk(), blk()
                lines.append("    cjmp %s %s %s ? %s : %s;" % (a, r.choice(IR_CMPS), b, bt, bf))
                lines.append("  }")
                pt = self.typ()
                arms = []
                for bn in (bt, bf):
                    lines.append("  %s: {" % bn)
                    sub = cx.fork()
                    self.straight(sub, r.randrange(0, 4), allocs)
                    arms.append((bn, self.value(sub, pt)))
                    lines.append("    jmp %s;" % bj)
                    lines.append("  }")
                lines.append("  %s: {" % bj)
                ph = self.uid("phi")
                lines.append("    %s %s = phi %s: %s, %s: %s;" % (pt, ph, arms[0][0], arms[0][1], arms[1][0], arms[1][1]))
                cx.vals.setdefault(pt, []).append(ph)
                self.features.add("phi")
                cur = bj
            elif shape == "triangle":
                bt, bj = blk(), blk()
                lines.append("    cjmp %s %s %s ? %s : %s;" % (a, r.choice(IR_CMPS), b, bt, bj))
                lines.append("  }")
                lines.append("  %s: {" % bt)
                sub = cx.fork()
                self.straight(sub, r.randrange(0, 4), allocs)
                lines.append("    jmp %s;" % bj)
                lines.append("  }")
                lines.append("  %s: {" % bj)
                cur = bj
            else:
                bh, bb, bx = blk(), blk(), blk()
                init = self.value(cx, "i32")
                limit = self.value(cx, "i32")
                one = self.const(cx, "i32")
                lines.append("    jmp %s;" % bh)
                lines.append("  }")
                lines.append("  %s: {" % bh)
                iv, nxt = self.uid("iv"), self.uid("nx")
                lines.append("    i32 %s = phi %s: %s, %s: %s;" % (iv, cur, init, bb, nxt))
                cx.vals.setdefault("i32", []).append(iv)
                lines.append("    cjmp %s < %s ? %s : %s;" % (iv, limit, bb, bx))
                lines.append("  }")
                lines.append("  %s: {" % bb)
                sub = cx.fork()
                self.straight(sub, r.randrange(0, 4), allocs)
                lines.append("    i32 %s = %s + %s;" % (nxt, iv, one))
                lines.append("    jmp %s;" % bh)
                lines.append("  }")
                lines.append("  %s: {" % bx)
                self.features.add("phi-loop")
                cur = bx
            self.straight(cx, r.randrange(0, 4), allocs)
        if ret is None:
            lines.append("    exit;")
        else:
            lines.append("    return %s;" % self.value(cx, ret))
        lines.append("  }")
        # the value for return may have appended a const line before 'return': fix order
        lines = _fix_tail(lines)
        binding = r.choice(("global", "global", "local"))
        head = "%s %s %s(%s) {" % (binding, "procedure" if ret is None else "function " + ret, name,
                                   ", ".join("%s %s" % (t, n) for n, t in params))
        if ret is None:
            head = "%s procedure %s(%s) {" % (binding, name, ", ".join("%s %s" % (t, n) for n, t in params))
        self.functions.append((name, ret, [t for _, t in params]))
        return head + "\n" + "\n\n".join(_blocks(lines)) + "\n}\n"

    def build(self):
        r = self.r
        out = ["module m%d;" % r.randrange(100), ""]
        for _ in range(r.randrange(0, 3)):
            name = self.uid("ext")
            pts = [self.typ() for _ in range(r.randrange(0, 4))]
            if r.random() < 0.7:
                ret = self.typ()
                out.append("external function %s %s(%s);" % (ret, name, ", ".join(pts)))
            else:
                ret = None
                out.append("external procedure %s(%s);" % (name, ", ".join(pts)))
            out.append("")
            self.externals.append((name, ret, pts))
            self.features.add("external")
        for _ in range(r.randrange(0, 3)):
            name = self.uid("gv")
            size = r.choice((1, 2, 4, 8, 16))
            out.append("%s variable %s (%d bytes aligned at %d)" % (r.choice(("global", "local")), name, size, min(size, 8)))
            out.append("")
            self.globals.append((name, size))
            self.features.add("global-variable")
        for _ in range(r.randrange(1, 4)):
            out.append(self.gen_function())
        return "\n".join(out)


def _fix_tail(lines):
    return lines


def _blocks(lines):
    """Group the flat line list into block texts."""
    blocks, cur = [], []
    for ln in lines:
        cur.append(ln)
        if ln == "  }":
            blocks.append("\n".join(cur))
            cur = []
    return blocks


def gen_ir_text(r, avoid=()):
    g = IrGen(r, avoid)
    return g.build(), sorted(g.features)
