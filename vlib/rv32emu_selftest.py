"""Self-test of vlib/rv32emu.py against independent references.

    /venv/bin/python -m vlib.rv32emu_selftest [--n N] [--seed S] [--files F]
                                              [--funcs K] [--json PATH] [-v]

Exit 0 = every comparison agreed, 1 = a disagreement (an emulator or selftest
bug, never a statement about ppci) or a required tool is missing.

 (i)   decoder vs ``llvm-objdump-14 -D --triple=riscv32 --mattr=+c,+m -M
       no-aliases``: every 16-bit pattern (49152, exhaustive) and N (default
       30000) random 32-bit patterns, half uniformly random, half with a valid
       major opcode.  The raw bytes are wrapped by llvm-objcopy (llvm-objdump has
       no -b binary) and the .data section is disassembled.  Mnemonic, registers and immediates must be equal
       after normalisation; llvm ``<unknown>`` must be ``illegal`` here and vice
       versa, except for the divergences listed in DIVERGENCES (counted).
 (ii)  directed vectors: M-extension corner cases from the spec tables, x0,
       sign extension, fault kinds and fault atomicity, the per-step
       read/write logs, stack arguments of call(), big-endian data mode.
 (iii) end to end: seeded generator of UB-free C functions (F files x K
       functions), compiled by clang for rv32imc at -O0 and -O2 (files rotate
       through -mno-relax / -mrelax / -mcmodel=medany so that all the usual
       relocation types occur), "linked" by the minimal relocation applier
       below, executed on the emulator and compared with the same C compiled by
       ``gcc -m64 -O0`` and run on the host (return values incl. 64-bit ones in
       a0/a1, final contents of all global arrays, callee-saved registers).
 (iv)  decoder vs llvm-objdump on every instruction of every linked .text.
"""
import argparse
import concurrent.futures
import json
import os
import random
import re
import shutil
import struct
import subprocess
import sys
import tempfile
import time

from vlib import rv32emu
from vlib.rv32emu import Machine, decode, disasm, ABI_NAMES, M32

OBJDUMP, OBJCOPY = "llvm-objdump-14", "llvm-objcopy-14"
TOOLS = [OBJDUMP, OBJCOPY, "clang", "gcc"]
JOBS = int(os.environ.get("VERIF_JOBS", "6"))

# Accepted decoder divergences from llvm 14 (each justified by the spec text).
DIVERGENCES = {
    "rv32-shamt5": "llvm 14 decodes slli/srli/srai/c.slli/c.srli/c.srai with "
                   "shamt[5]=1 under riscv32; the spec reserves them on RV32 -> illegal here",
    "fence-reserved-fields": "llvm rejects fence/fence.i with non-zero rd/rs1/fm; the spec says "
                             "implementations shall ignore these fields -> fence here",
    "c.lui-nzimm0": "llvm prints 'c.lui rd, 0' (rd != sp); nzimm=0 is reserved in the spec",
    "outside-rv32imc": "privileged instructions (mret, wfi, sfence.vma, ...) decoded by "
                       "llvm; not part of unprivileged RV32IMC -> illegal here",
}
PRIVILEGED = {"mret", "sret", "uret", "dret", "wfi", "sfence.vma", "hfence.vvma",
              "hfence.gvma", "sinval.vma", "sfence.w.inval", "sfence.inval.ir",
              "hinval.vvma", "hinval.gvma"}

_REG = {n: i for i, n in enumerate(ABI_NAMES)}
_REG.update({"x%d" % i: i for i in range(32)})
_REG["fp"] = 8


def run(cmd, **kw):
    return subprocess.run(cmd, capture_output=True, text=True, timeout=300, **kw)


# ------------------------------------------------------------------ (i) decoder
def norm(mn, opstr):
    """One disassembly line -> (mnemonic, [operands]); registers ('r', n),
    integers ('i', v), memory ('m', disp, base), other text ('s', text)."""
    ops = []
    for tok in re.sub(r"<[^>]*>", "", opstr).split(","):
        tok = tok.strip()
        if not tok:
            continue
        m = re.fullmatch(r"(-?\w+)\((\w+)\)", tok)
        if m:
            ops.append(("m", int(m.group(1), 0), _REG[m.group(2)]))
        elif tok in _REG:
            ops.append(("r", _REG[tok]))
        else:
            try:
                ops.append(("i", int(tok, 0)))
            except ValueError:
                ops.append(("s", tok))
    if mn in ("c.slli64", "c.srli64", "c.srai64"):    # llvm's name for the shamt=0 HINT
        mn, ops = mn[:-2], ops + [("i", 0)]
    if mn in ("lui", "auipc", "c.lui"):               # llvm prints c.lui x0 hints signed
        ops[-1] = ("i", ops[-1][1] & 0xFFFFF)
    if mn == "fence":
        ops = [("i", 0) if o == ("s", "unknown") else o for o in ops]
    if mn in ("c.unimp", "<unknown>"):
        mn, ops = "illegal", []
    if mn.startswith("csrr") and ops[1][0] == "s":    # named CSR: compare the rest
        ops[1] = None
    return mn, ops


def llvm_disasm(blob, tmp, tag):
    """{offset: (length, mnemonic, opstr)} for a raw RV32 byte blob."""
    raw, elf = os.path.join(tmp, tag + ".bin"), os.path.join(tmp, tag + ".elf")
    with open(raw, "wb") as f:
        f.write(blob)
    r = run([OBJCOPY, "-I", "binary", "-O", "elf32-littleriscv", raw, elf])
    if r.returncode:
        raise RuntimeError("objcopy: " + r.stderr)
    with open(os.path.join(tmp, tag + ".txt"), "w+") as f:
        r = subprocess.run([OBJDUMP, "-D", "-j", ".data", "-z", "--triple=riscv32", "--mattr=+c,+m",
                            "-M", "no-aliases", elf], stdout=f, stderr=subprocess.PIPE, timeout=300)
        if r.returncode:
            raise RuntimeError("objdump: " + r.stderr.decode())
        f.seek(0)
        out = {}
        for line in f:          # "     1c: 13 05 f0 ff  \taddi\ta0, zero, -1"
            parts = line.rstrip("\n").split("\t")
            addr, colon, raw_bytes = parts[0].partition(":")
            if colon and len(parts) >= 2 and raw_bytes.strip():
                out[int(addr, 16)] = (len(raw_bytes.split()), parts[1], parts[2] if len(parts) > 2 else "")
    return out


def compare_one(raw_bytes, pc, ref, stats, fails, where):
    length, mn, opstr = ref
    insn = decode(raw_bytes, pc)
    want = norm(mn, opstr)
    got = norm(*(disasm(insn) + " ").split(" ", 1))
    if insn.ext == "Zicsr" and want[1] and want[1][1] is None:
        got[1][1] = None
    if want[0] == "fence.tso" and insn.raw == 0x8330000F:
        want = got                                    # fm=1000 encoding of fence
    if got == want and (insn.length == length or insn.is_illegal):
        stats["illegal" if insn.is_illegal else "legal"] += 1
        if not insn.is_illegal:
            stats["mn"].add(insn.mnemonic)
        return insn
    raw = insn.raw
    div = None
    if insn.is_illegal and want[0] in ("slli", "srli", "srai", "c.slli", "c.srli", "c.srai") \
            and want[1][-1][1] >= 32:
        div = "rv32-shamt5"
    elif insn.is_illegal and want[0] == "c.lui" and want[1][1:] == [("i", 0)]:
        div = "c.lui-nzimm0"
    elif insn.is_illegal and want[0] in PRIVILEGED:
        div = "outside-rv32imc"
    elif want[0] == "illegal" and insn.mnemonic in ("fence", "fence.i") and \
            (insn.rd or insn.rs1 or (insn.imm >> 8 if insn.mnemonic == "fence" else insn.imm)):
        div = "fence-reserved-fields"
    if div:
        stats["div"][div] = stats["div"].get(div, 0) + 1
    else:
        fails.append("%s: raw=%0*x llvm=%r emu=%r" % (where, insn.length * 2, raw,
                                                      (mn + " " + opstr).strip(), disasm(insn)))
    return insn


def gen_words(rng, n):
    majors = [0x37, 0x17, 0x6F, 0x67, 0x63, 0x03, 0x23, 0x13, 0x33, 0x0F, 0x73]
    out = []
    for i in range(n):
        w = rng.getrandbits(32) | 3
        if i & 1:
            opc = rng.choice(majors)
            w = (w & ~0x7F) | opc
            if opc == 0x33 and rng.random() < 0.8:
                w = (w & 0x01FFFFFF) | rng.choice((0, 0x20, 1)) << 25
            elif opc == 0x13 and (w >> 12) & 7 in (1, 5) and rng.random() < 0.8:
                w = (w & 0x01FFFFFF) | rng.choice((0, 0x20)) << 25
            elif opc == 0x0F and rng.random() < 0.7:
                w &= 0x0FF0107F
            elif opc == 0x73 and rng.random() < 0.3:
                w = rng.choice((0x73, 0x100073, 0x30200073, 0x10500073))
            elif opc == 0x67 and rng.random() < 0.8:
                w &= ~0x7000
        out.append(w & M32)
    return out


def test_decoder(rng, n, tmp, rep):
    stats = {"legal": 0, "illegal": 0, "div": {}, "mn": set()}
    fails = []
    # llvm consumes exactly 2 resp. 4 bytes per pattern whether or not it knows
    # it, so the patterns are simply concatenated (a missing line is a failure).
    for ln, vals in ((2, [h for h in range(1 << 16) if h & 3 != 3]), (4, gen_words(rng, n))):
        blob = b"".join(v.to_bytes(ln, "little") for v in vals)
        ref = llvm_disasm(blob, tmp, "pat%d" % ln)
        for i, v in enumerate(vals):
            if ln * i not in ref:
                fails.append("no llvm line at offset %#x (pattern %0*x)" % (ln * i, 2 * ln, v))
                continue
            compare_one(blob[ln * i:ln * i + ln], ln * i, ref[ln * i], stats, fails, "pattern")
    rep["decoder"] = {"patterns16": 49152, "patterns32": n, "legal": stats["legal"],
                      "illegal": stats["illegal"], "divergences": stats["div"],
                      "mnemonics": len(stats["mn"]), "failures": len(fails)}
    return fails


# ------------------------------------------------------------- (ii) directed
def R(f7, rs2, rs1, f3, rd, opc=0x33):
    return f7 << 25 | rs2 << 20 | rs1 << 15 | f3 << 12 | rd << 7 | opc


def I(imm, rs1, f3, rd, opc):
    return (imm & 0xFFF) << 20 | rs1 << 15 | f3 << 12 | rd << 7 | opc


def S(imm, rs2, rs1, f3):
    return (imm >> 5 & 0x7F) << 25 | rs2 << 20 | rs1 << 15 | f3 << 12 | (imm & 31) << 7 | 0x23


def one(word, regs=None, mem=None, pc=0x1000):
    m = Machine(regions=[(0x1000, 0x100, False), (0x8000, 0x100, True)])
    m.load_image(pc, word.to_bytes(4 if word & 3 == 3 else 2, "little"))
    for k, v in (regs or {}).items():
        m.x[k] = v & M32
    if mem:
        m.load_image(0x8000, mem)
    m.pc = pc
    return m


def test_directed(rep):
    fails, nchk = [], [0]

    def chk(name, got, want):
        nchk[0] += 1
        if got != want:
            fails.append("directed %s: got %r want %r" % (name, got, want))

    mi, mo = 0x80000000, M32
    mvec = [  # f3, a, b, result   (RISC-V spec, M chapter incl. the div-by-zero/overflow table)
        (0, 7, mo, (-7) & mo), (0, 0x10000, 0x10000, 0), (0, mo, mo, 1),
        (1, mi, mi, 0x40000000), (1, mo, mo, 0), (1, mo, 1, mo), (1, 0x7FFFFFFF, 0x7FFFFFFF, 0x3FFFFFFF),
        (2, mo, mo, mo), (2, mi, mo, mi), (2, 2, mo, 1), (2, mo, 0, 0),
        (3, mo, mo, 0xFFFFFFFE), (3, mi, 2, 1),
        (4, 7, 0, mo), (4, mi, mo, mi), (4, (-7) & mo, 2, (-3) & mo), (4, 7, (-2) & mo, (-3) & mo),
        (4, (-7) & mo, (-2) & mo, 3), (4, 0, 0, mo),
        (5, 7, 0, mo), (5, mi, mo, 0), (5, mo, 2, 0x7FFFFFFF),
        (6, 7, 0, 7), (6, (-7) & mo, 0, (-7) & mo), (6, mi, mo, 0), (6, (-7) & mo, 2, mo),
        (6, 7, (-2) & mo, 1), (6, (-7) & mo, (-2) & mo, mo),
        (7, 7, 0, 7), (7, mi, mo, mi), (7, mo, 16, 15),
    ]
    for f3, a, b, want in mvec:
        m = one(R(1, 12, 11, f3, 10), {11: a, 12: b})
        name = m.step().mnemonic
        chk("%s(%#x,%#x)" % (name, a, b), m.x[10], want)
    ivec = [  # word, regs, rd, result
        (R(0x20, 12, 11, 5, 10), {11: mi, 12: 35}, 10, 0xF0000000),        # sra uses rs2[4:0]
        (R(0, 12, 11, 5, 10), {11: mi, 12: 35}, 10, 0x10000000),           # srl
        (R(0, 12, 11, 1, 10), {11: 1, 12: 63}, 10, mi),                    # sll
        (R(0, 12, 11, 2, 10), {11: mo, 12: 1}, 10, 1),                     # slt -1 < 1
        (R(0, 12, 11, 3, 10), {11: mo, 12: 1}, 10, 0),                     # sltu
        (I(-1, 11, 3, 10, 0x13), {11: 5}, 10, 1),                          # sltiu x,-1 : 5 < 0xffffffff
        (I(-1, 11, 2, 10, 0x13), {11: 5}, 10, 0),                          # slti 5 < -1
        (I(-1, 11, 4, 10, 0x13), {11: 0xF0}, 10, 0xFFFFFF0F),              # xori -1 = not
        (I(0x41F, 11, 5, 10, 0x13), {11: mi}, 10, mo),                     # srai 31
        (I(5, 0, 0, 0, 0x13), {}, 0, 0),                                   # addi x0,x0,5
        (0xFFFFF537, {}, 10, 0xFFFFF000),                                  # lui a0,0xfffff
        (0xFFFFF517, {}, 10, 0x00000000),                                  # auipc a0,0xfffff @0x1000
        (I(5, 0, 0, 0, 0x13), {}, 0, 0),                                   # addi x0,x0,5 (kept last)
    ]
    for w, regs, rd, want in ivec:
        m = one(w, regs)
        name = disasm(m.step())
        chk(name, m.x[rd], want)
    chk("x0 write discarded", (m.x[0], m.last_reads, m.last_writes), (0, {0}, set()))
    # loads / stores: extension, truncation, logs
    data = bytes([0x80, 0xFF, 0x7F, 0x01, 0xEF, 0xBE, 0xAD, 0xDE])
    for f3, off, want in ((0, 0, 0xFFFFFF80), (4, 0, 0x80), (1, 0, 0xFFFFFF80), (5, 0, 0xFF80),
                          (0, 2, 0x7F), (1, 2, 0x17F), (2, 4, 0xDEADBEEF)):
        m = one(I(off, 11, f3, 10, 0x03), {11: 0x8000}, data)
        name = m.step().mnemonic
        chk("%s+%d" % (name, off), m.x[10], want)
        chk(name + " logs", (m.last_reads, m.last_writes, m.last_mem_writes, [r[:2] for r in m.last_mem_reads]),
            ({11}, {10}, [], [(0x8000 + off, (1, 2, 4)[f3 & 3])]))
    for f3, want in ((0, b"\x78\xFF\x7F\x01"), (1, b"\x78\x56\x7F\x01"), (2, b"\x78\x56\x34\x12")):
        m = one(S(0, 12, 11, f3), {11: 0x8000, 12: 0x12345678}, data)
        m.step()
        chk("store f3=%d" % f3, m.read_mem(0x8000, 4), want)
        chk("store logs", (m.last_reads, m.last_writes, m.last_mem_reads, m.last_mem_writes),
            ({11, 12}, set(), [], [(0x8000, 1 << f3, 0x12345678 & ((1 << (8 << f3)) - 1))]))
    m = one(R(0, 12, 11, 0, 10), {11: 1, 12: 2})
    m.step()
    chk("add logs", (m.last_reads, m.last_writes, m.instret, m.hist), ({11, 12}, {10}, 1, {"add": 1}))
    m = one(0x852E)                                                        # c.mv a0, a1
    m.step()
    chk("c.mv logs", (m.last_reads, m.last_writes, m.pc), ({0, 11}, {10}, 0x1002))
    m = one(I(3, 10, 0, 10, 0x67), {10: 0x2000})                           # jalr a0, 3(a0)
    m.step()
    chk("jalr", (m.pc, m.x[10], m.last_reads, m.last_writes), (0x2002, 0x1004, {10}, {10}))
    m = one(0x9502, {10: 0x2001})                                          # c.jalr a0
    m.step()
    chk("c.jalr", (m.pc, m.x[1]), (0x2000, 0x1002))
    m = one(0xFE000EE3, pc=0x1010)                                         # beq x0,x0,-4
    m.step()
    chk("beq back", m.pc, 0x100C)
    m = one(R(0, 12, 11, 1, 0, 0x63) | 8 << 8, {11: 1, 12: 1})             # bne not taken (+16)
    m.step()
    chk("bne not taken", m.pc, 0x1004)
    for w, want in ((0x2021, (0x1008, 0x1002, set(), {1})),                # c.jal +8
                    (0xBFFD, (0x0FFE, 0, set(), set())),                   # c.j -2
                    (0x0001, (0x1002, 0, {0}, set())),                     # c.nop = addi x0,x0,0
                    (0x0FF0000F, (0x1004, 0, set(), set())),               # fence iorw,iorw
                    (0x0000100F, (0x1004, 0, set(), set()))):              # fence.i
        m = one(w)
        m.step()
        chk("%#x" % w, (m.pc, m.x[1], m.last_reads, m.last_writes), want)
    # faults leave the state unchanged
    fvec = [
        (0x00000073, {}, "ecall"), (0x00100073, {}, "ebreak"), (0x9002, {}, "ebreak"),
        (0x0000, {}, "illegal"), (0xFFFFFFFF, {}, "illegal"), (0x30200073, {}, "illegal"),
        (0x30529073, {}, "csr"), (R(2, 12, 11, 0, 10), {}, "illegal"),
        (I(1, 11, 2, 10, 0x03), {11: 0x8000}, "misaligned-load"),
        (I(1, 11, 1, 10, 0x03), {11: 0x8000}, "misaligned-load"),
        (S(2, 12, 11, 2), {11: 0x8000}, "misaligned-store"),
        (I(0, 11, 2, 10, 0x03), {11: 0x9000}, "unmapped-load"),
        (I(0x100, 11, 2, 10, 0x03), {11: 0x8000}, "unmapped-load"),        # first byte past the end
        (S(0, 12, 11, 2), {11: 0x7FFC}, "unmapped-store"),
        (S(0, 12, 11, 0), {11: 0x1000}, "readonly-store"),
        (I(0, 11, 0, 0, 0x67), {11: 0x4000}, None),                        # jalr into the void
    ]
    for w, regs, kind in fvec:
        m = one(w, {**regs, 10: 0x55})
        before = (list(m.x), m.pc, m.instret, dict(m.hist), m.read_mem(0x8000, 0x100))
        st = m.run(5)
        if kind is None:
            chk("fetch fault", (st, m.pc, m.instret), ("fault:unmapped-fetch", 0x4000, 1))
            continue
        chk("fault %s %#x" % (kind, w), st, "fault:" + kind)
        chk("fault atomic %s" % kind, (list(m.x), m.pc, m.instret, dict(m.hist),
                                       m.read_mem(0x8000, 0x100)), before)
    m = one(0x0001, pc=0x10FE)                     # c.nop in the last 2 bytes of a region
    chk("last parcel", (m.run(1), m.pc), ("steps", 0x1100))
    m = one(0x0001)
    m.pc = 0x1001
    chk("odd pc", m.run(1), "fault:misaligned-fetch")
    m = one(I(1, 11, 2, 10, 0x03), {11: 0x8000}, data)
    m.allow_misaligned = True
    m.step()
    chk("misaligned allowed", m.x[10], 0xEF017FFF)
    # call(): ten arguments (two on the stack), 64-bit result view, sentinel return
    code = [0x4282,          # c.lwsp t0, 0(sp)
            0x4312,          # c.lwsp t1, 4(sp)
            R(0, 6, 5, 0, 5),        # add t0,t0,t1
            R(0, 17, 5, 0, 10),      # add a0,t0,a7
            0x85AA,          # c.mv a1, a0
            0x8082]          # c.jr ra
    m = Machine(mem_size=0x10000)
    pc = 0x100
    for w in code:
        n = 4 if w & 3 == 3 else 2
        m.load_image(pc, w.to_bytes(n, "little"))
        pc += n
    r = m.call(0x100, [1, 2, 3, 4, 5, 6, 7, 8, 0x100, -1])
    chk("call", (r.status, r.a0, r.a1, r.steps, r.u64, r.i32, r.sp, m.x[2], m.pc),
        ("ret", 0x107, 0x107, 6, 0x10700000107, 0x107, 0xFFF0, 0xFFF0, Machine.SENTINEL))
    U64 = rv32emu.U64      # a7 | stack split, then 8-byte alignment of the next long long
    r = m.call(0x100, [U64(1 << 32 | 2), 3, 4, 5, 6, 7, U64(0x100 << 32 | 8), 0x20, 0x30, U64(7 << 32 | 9)],
               sp=0x8000)
    chk("call u64", (r.a0, r.sp, m.x[11:18], m.read_mem(0x7FE0, 24).hex()),
        (0x128, 0x7FE0, [0x128, 3, 4, 5, 6, 7, 8],
         "00010000" "20000000" "30000000" "00000000" "09000000" "07000000"))
    chk("call budget", m.call(0x100, [0] * 10, max_steps=3).status, "steps")
    m = Machine(regions=[(0, b"\x03\x25\x00\x01" + bytes(12) + b"\x11\x22\x33\x44", True)],
                little_endian=False)             # lw a0,16(x0), big-endian data
    m.step()
    chk("big endian data", m.x[10], 0x11223344)
    d = decode(bytes.fromhex("6f008000"), 0x100)
    chk("decode api", (d.mnemonic, d.length, d.rd, d.imm, d.target, decode(0x4505).expanded.mnemonic,
                       decode(0x4505).expanded.rs1, decode(0).is_illegal, decode(0xA001, 8).target),
        ("jal", 4, 0, 8, 0x108, "addi", 0, True, 8))
    rep["directed"] = {"vectors": nchk[0], "failures": len(fails)}
    return fails


# ------------------------------------------------------- (iii) C generator
PRELUDE = """\
typedef unsigned int u32; typedef int i32; typedef unsigned long long u64; typedef long long i64;
typedef unsigned char u8; typedef signed char i8; typedef unsigned short u16; typedef short i16;
static u32 udiv(u32 a, u32 b) { return b ? a / b : 0xdeadu; }
static u32 urem(u32 a, u32 b) { return b ? a % b : a ^ 5u; }
static u32 sdiv(u32 a, u32 b) { i32 x = (i32)a, y = (i32)b;
  if (y == 0 || (x == (-2147483647 - 1) && y == -1)) return a + 1u; return (u32)(x / y); }
static u32 srem(u32 a, u32 b) { i32 x = (i32)a, y = (i32)b;
  if (y == 0 || (x == (-2147483647 - 1) && y == -1)) return a - 3u; return (u32)(x % y); }
static u32 (*const FP[4])(u32, u32) = {udiv, urem, sdiv, srem};
"""
CONSTS = [0, 1, 2, 3, 5, 7, 8, 15, 16, 31, 32, 33, 63, 100, 255, 256, 2047, 2048, 2049, 4095, 4096,
          0xFFFF, 0x10000, 0x7FFFFFFF, 0x80000000, 0x80000001, 0xFFFFFFFF, 0xFFFFFFFE, 0xFFFFF800,
          0xFFFFF7FF, 0x12345678, 0xDEADBEEF, 0x55555555, 0xAAAAAAAA]
# global arrays: name, C element type, length, initialised?, const?
GLOBALS = [("T0", "u32", 16, True, True), ("T1", "i16", 8, True, True), ("G0", "u32", 8, True, False),
           ("Z0", "u32", 8, False, False), ("B0", "i8", 16, True, False), ("B1", "u8", 16, False, False),
           ("H0", "i16", 8, False, False), ("H1", "u16", 8, True, False), ("S0", "u32", 1, True, False),
           ("S1", "u32", 1, False, False)]
ESIZE = {"u32": 4, "i16": 2, "u16": 2, "i8": 1, "u8": 1}


class CGen:
    """One translation unit with `nfuncs` functions f0..; fK may call fJ, J < K."""

    def __init__(self, rng, nfuncs, budget=400):
        self.rng, self.budget = rng, budget
        self.funcs = []       # (name, ret type, [param types], cost)
        self.src = [PRELUDE]
        for name, ty, n, init, const in GLOBALS:
            ini = " = {%s}" % ", ".join(str(rng.choice(CONSTS + [rng.getrandbits(32)]) %
                                            (1 << 8 * ESIZE[ty] - (ty[0] == "i")))
                                        for _ in range(n)) if init else ""
            self.src.append("%s%s %s[%d]%s;" % ("const " if const else "", ty, name, n, ini))
        for k in range(nfuncs):
            self.func(k)

    def const(self):
        r = self.rng
        v = r.choice(CONSTS) if r.random() < 0.6 else r.getrandbits(r.choice((4, 11, 12, 16, 32)))
        return "%uu" % v

    def leaf(self):
        r = self.rng
        return r.choice(self.vars) if r.random() < 0.7 else self.const()

    def expr(self, d):
        r = self.rng
        self.cost += self.mult
        if d <= 0 or r.random() < 0.2:
            return self.leaf()
        k = r.randrange(20)
        a = self.expr(d - 1)
        if k < 5:
            return "(%s %s %s)" % (a, r.choice("+-*&|^"), self.expr(d - 1))
        if k == 5:
            b = self.expr(d - 1) if r.random() < 0.5 else self.const()
            return r.choice(("(%s << (%s & 31u))", "(%s >> (%s & 31u))",
                             "(u32)((i32)%s >> (%s & 31u))")) % (a, b)
        if k == 6:
            f = r.choice(("udiv", "urem", "sdiv", "srem", "FP[%s & 3u]" % self.leaf()))
            return "%s(%s, %s)" % (f, a, self.expr(d - 1))
        if k == 7:
            c = r.choice((3, 7, 10, 13, 255, 1000, 65537, 0x7FFFFFFF))
            return r.choice(("(%s / %du)", "(%s %% %du)", "(u32)((i32)%s / %d)", "(u32)((i32)%s %% %d)",
                             "(u32)((i32)%s / -%d)")) % (a, c)
        if k in (8, 9):
            op = r.choice(("<", "<=", ">", ">=", "==", "!="))
            b = self.expr(d - 1)
            return ("(u32)(%s %s %s)" if r.random() < 0.5 else "(u32)((i32)%s %s (i32)%s)") % (a, op, b)
        if k == 10:
            return "(%s ? %s : %s)" % (a, self.expr(d - 1), self.expr(d - 1))
        if k == 11:
            return r.choice(("(~%s)", "(0u - %s)", "(u32)!%s")) % a
        if k == 12:
            return "(u32)(%s %s %s)" % (a, r.choice(("&&", "||")), self.expr(d - 1))
        if k == 13:
            b = self.expr(d - 1)
            return r.choice(("(u32)(((u64)%s * (u64)%s) >> 32)",
                             "(u32)(u64)(((i64)(i32)%s * (i64)(i32)%s) >> 32)",
                             "(u32)(u64)(((i64)(i32)%s * (i64)(u64)%s) >> 32)",
                             "(u32)(((u64)%s + (u64)%s) >> 32)",
                             "(u32)((((u64)%s << 32) - (u64)%s) >> 29)",
                             "(u32)((((u64)%s << 17) >> (%s & 63u)))",
                             "(u32)(((i64)((u64)(i64)(i32)%s << 20) >> (%s & 63u)) >> 11)")) % (a, b)
        if k in (14, 15):
            name, ty, n, _, _ = r.choice(GLOBALS)
            return "(u32)%s[%s & %du]" % (name, a, n - 1)
        if k == 16 and self.larr:
            return "L[%s & 7u]" % a
        if k == 17:
            return "(u32)(%s)%s" % (r.choice(("i8", "u8", "i16", "u16")), a)
        return "(%s %s %s)" % (a, r.choice("+-^"), self.const())

    def lhs(self):
        return self.rng.choice(self.locals)

    def stmt(self, d, ind):
        r = self.rng
        k = r.randrange(14)
        pad = "  " * ind
        self.cost += self.mult
        if d <= 0 or k < 4:
            return "%s%s %s= %s;" % (pad, self.lhs(), r.choice(("", "", "+", "^", "-", "*", "|", "&")),
                                     self.expr(3))
        if k == 4:
            name, ty, n, _, const = r.choice([g for g in GLOBALS if not g[4]])
            return "%s%s[%s & %du] = (%s)%s;" % (pad, name, self.expr(2), n - 1, ty, self.expr(3))
        if k == 5 and self.larr:
            return "%sL[%s & 7u] = %s;" % (pad, self.expr(2), self.expr(3))
        if k in (6, 7):
            s = "%sif (%s) {\n%s\n%s}" % (pad, self.expr(3), self.block(d - 1, ind + 1), pad)
            if r.random() < 0.5:
                s += " else {\n%s\n%s}" % (self.block(d - 1, ind + 1), pad)
            return s
        if k in (8, 9) and self.mult < 40:
            i = "i%d" % self.nloop
            self.nloop += 1
            trips = r.choice((2, 3, 4, 7, 8, 15))
            bound = "%du" % trips if r.random() < 0.5 else "(%s & %du)" % (self.expr(1), trips)
            self.mult *= trips
            self.vars.append(i)
            if k == 8:
                s = "%sfor (u32 %s = 0; %s < %s; %s++) {\n%s\n%s}" % (
                    pad, i, i, bound, i, self.block(d - 1, ind + 1), pad)
            else:
                s = "%s{ u32 %s = %s; while (%s) {\n%s\n%s  %s--; } }" % (
                    pad, i, bound, i, self.block(d - 1, ind + 1), pad, i)
            self.vars.remove(i)
            self.mult //= trips
            return s
        if k == 10:
            n = r.choice((3, 5, 8))
            sel = r.choice(("(%s & 7u)", "(%s %% 11u)", "((%s >> 3) & 15u)")) % self.expr(2)
            labels = r.sample(range(10), n) if r.random() < 0.7 else \
                r.sample([0, 1, 5, 100, 1000, 0x7FFFFFFF, 0x80000000, 12, 13], n)
            s = "%sswitch (%s) {\n" % (pad, sel)
            for lab in labels:
                s += "%s  case %du:\n%s\n" % (pad, lab, self.block(0, ind + 2, 1))
                if r.random() < 0.8:
                    s += "%s    break;\n" % pad
            return s + "%s  default:\n%s\n%s}" % (pad, self.block(0, ind + 2, 1), pad)
        callees = [f for f in self.funcs if f[3] * self.mult + self.cost <= self.budget]
        if k in (11, 12) and callees:
            name, ret, ptypes, cost = r.choice(callees)
            self.cost += cost * self.mult
            args = ", ".join("(((u64)%s << 32) | %s)" % (self.expr(1), self.expr(1)) if t == "u64"
                             else "(%s)%s" % (t, self.expr(2)) for t in ptypes)
            if ret == "u64":
                return "%s{ u64 t = %s(%s); %s ^= (u32)t + (u32)(t >> 32); }" % (pad, name, args, self.lhs())
            return "%s%s += (u32)%s(%s);" % (pad, self.lhs(), name, args)
        return "%s%s = %s;" % (pad, self.lhs(), self.expr(4))

    def block(self, d, ind, n=None):
        return "\n".join(self.stmt(d, ind) for _ in range(n or self.rng.randint(1, 3)))

    def func(self, k):
        r = self.rng
        nparams = r.choice((0, 1, 2, 2, 3, 3, 4, 5, 6, 8, 9, 10))
        ptypes = [r.choice(("u32", "u32", "i32", "u64")) for _ in range(nparams)]
        ret = r.choice(("u32", "u32", "i32", "u64"))
        self.cost, self.mult, self.nloop = 0, 1, 0
        self.larr = False
        body, self.vars = [], []
        for i, t in enumerate(ptypes):
            if t == "u64":
                body.append("  u32 p%d = (u32)q%d + (u32)(q%d >> 32);" % (i, i, i))
            else:
                body.append("  u32 p%d = (u32)q%d;" % (i, i))
            self.vars.append("p%d" % i)
        self.locals = ["v%d" % i for i in range(r.randint(1, 4))]
        for v in self.locals:
            body.append("  u32 %s = %s;" % (v, self.expr(2) if self.vars else self.const()))
            self.vars.append(v)
        if r.random() < 0.4:
            self.larr = True
            self.cost += 16
            body.append("  u32 L[8]; for (u32 i = 0; i < 8u; i++) L[i] = %s %s (i * %s);" %
                        (self.leaf(), r.choice("+^*"), self.const()))
        body.append(self.block(2, 1, r.randint(2, 6)))
        if ret == "u64":
            body.append("  return ((u64)%s << 32) | (u64)%s;" % (self.expr(2), self.expr(2)))
        else:
            body.append("  return (%s)%s;" % (ret, self.expr(3)))
        name = "f%d" % k
        self.src.append("%s %s(%s) {\n%s\n}" % (
            ret, name, ", ".join("%s q%d" % (t, i) for i, t in enumerate(ptypes)) or "void",
            "\n".join(body)))
        self.funcs.append((name, ret, ptypes, max(self.cost, 1)))

    def calls(self, per_func):
        r = self.rng
        out = []
        for name, ret, ptypes, _ in self.funcs:
            for _ in range(per_func):
                out.append((name, ret, ptypes,
                            [r.choice(CONSTS) if r.random() < 0.5 else r.getrandbits(r.choice((3, 8, 32)))
                             | (r.getrandbits(32) << 32 if t == "u64" else 0) for t in ptypes]))
        return out

    def source(self, calls):
        main = ["#ifdef HOST", "#include <stdio.h>", "int main(void) {"]
        for name, ret, ptypes, args in calls:
            a = ", ".join("(%s)%s" % (t, "%uu" % v if t != "u64" else "%uull" % v)
                          for t, v in zip(ptypes, args))
            main.append('  printf("%%llu\\n", (unsigned long long)(%s)%s(%s));' %
                        ("u64" if ret == "u64" else "u32", name, a))
        for name, ty, n, _, _ in GLOBALS:
            main.append('  for (int i = 0; i < %d; i++) printf("%%u\\n", (u32)(u%s)%s[i]);' %
                        (n, ty[1:], name))
        main += ["  return 0;", "}", "#endif"]
        return "\n".join(self.src + main) + "\n"


# ----------------------------------------------------- minimal ELF32 "linker"
class Obj:
    def __init__(self, data):
        self.data = data
        if data[:6] != b"\x7fELF\x01\x01" or struct.unpack_from("<HH", data, 16) != (1, 243):
            raise ValueError("not an ELF32 little-endian RISC-V relocatable file")
        shoff, = struct.unpack_from("<I", data, 0x20)
        shentsize, shnum, shstrndx = struct.unpack_from("<HHH", data, 0x2E)
        self.sh = [dict(zip(("name", "type", "flags", "addr", "offset", "size", "link", "info",
                             "align", "entsize"), struct.unpack_from("<10I", data, shoff + i * shentsize)))
                   for i in range(shnum)]
        strtab = self.sh[shstrndx]
        for s in self.sh:
            s["name"] = self.cstr(strtab["offset"] + s["name"])
        self.syms = []
        for s in self.sh:
            if s["type"] == 2:                         # SHT_SYMTAB
                stro = self.sh[s["link"]]["offset"]
                for i in range(s["size"] // 16):
                    name, value, size, info, other, shndx = struct.unpack_from(
                        "<IIIBBH", data, s["offset"] + 16 * i)
                    self.syms.append({"name": self.cstr(stro + name), "value": value, "shndx": shndx,
                                      "type": info & 15})

    def cstr(self, off):
        return self.data[off:self.data.index(b"\0", off)].decode()


def _put(img, off, mask, val):
    n = 4 if mask > 0xFFFF else 2
    w = int.from_bytes(img[off:off + n], "little")
    img[off:off + n] = ((w & ~mask) | (val & mask)).to_bytes(n, "little")


def _b(v, hi, lo):
    return (v >> lo) & ((1 << (hi - lo + 1)) - 1)


def link(obj, bases):
    """Place every SHF_ALLOC section, apply relocations.  Returns
    ({section index: (addr, bytearray, flags, name)}, {symbol: addr}, reloc type counts)."""
    cur = dict(bases)
    secs = {}
    for i, s in enumerate(obj.sh):
        if not s["flags"] & 2 or not s["size"]:
            continue
        kind = "x" if s["flags"] & 4 else "w" if s["flags"] & 1 else "r"
        al = max(s["align"], 1)
        addr = (cur[kind] + al - 1) // al * al
        cur[kind] = addr + s["size"] + 48               # gap: stray accesses fault
        img = bytearray(s["size"]) if s["type"] == 8 else \
            bytearray(obj.data[s["offset"]:s["offset"] + s["size"]])
        secs[i] = (addr, img, s["flags"], s["name"])

    def symaddr(k):
        sym = obj.syms[k]
        if sym["shndx"] not in secs:
            raise ValueError("reference to undefined/unplaced symbol %r" % sym["name"])
        return secs[sym["shndx"]][0] + sym["value"]
    symtab = {s["name"]: secs[s["shndx"]][0] + s["value"]
              for s in obj.syms if s["name"] and s["shndx"] in secs}
    counts, pcrel_hi, later = {}, {}, []
    for s in obj.sh:
        if s["type"] != 4 or s["info"] not in secs:     # SHT_RELA for a placed section
            continue
        base, img = secs[s["info"]][:2]
        for j in range(s["size"] // 12):
            off, info, add = struct.unpack_from("<IIi", obj.data, s["offset"] + 12 * j)
            ty, P = info & 0xFF, base + off
            counts[ty] = counts.get(ty, 0) + 1
            if ty in (51, 43):                          # RELAX / ALIGN: nothing is relaxed
                continue
            if ty in (24, 25):                          # PCREL_LO12: needs its HI20 first
                later.append((ty, img, off, symaddr(info >> 8) + add))
                continue
            V = (symaddr(info >> 8) + add) & M32
            D = (V - P) & M32
            if ty == 1:                                 # R_RISCV_32
                _put(img, off, M32, V)
            elif ty == 16:                              # BRANCH
                _put(img, off, 0xFE000F80, _b(D, 12, 12) << 31 | _b(D, 10, 5) << 25 |
                     _b(D, 4, 1) << 8 | _b(D, 11, 11) << 7)
            elif ty == 17:                              # JAL
                _put(img, off, 0xFFFFF000, _b(D, 20, 20) << 31 | _b(D, 10, 1) << 21 |
                     _b(D, 11, 11) << 20 | _b(D, 19, 12) << 12)
            elif ty in (18, 19):                        # CALL / CALL_PLT: auipc + jalr
                _put(img, off, 0xFFFFF000, (D + 0x800) & 0xFFFFF000)
                _put(img, off + 4, 0xFFF00000, D << 20)
            elif ty == 23:                              # PCREL_HI20
                pcrel_hi[P] = D
                _put(img, off, 0xFFFFF000, (D + 0x800) & 0xFFFFF000)
            elif ty == 26:                              # HI20
                _put(img, off, 0xFFFFF000, (V + 0x800) & 0xFFFFF000)
            elif ty == 27:                              # LO12_I
                _put(img, off, 0xFFF00000, V << 20)
            elif ty == 28:                              # LO12_S
                _put(img, off, 0xFE000F80, _b(V, 11, 5) << 25 | _b(V, 4, 0) << 7)
            elif ty == 44:                              # RVC_BRANCH
                _put(img, off, 0x1C7C, _b(D, 8, 8) << 12 | _b(D, 4, 3) << 10 | _b(D, 7, 6) << 5 |
                     _b(D, 2, 1) << 3 | _b(D, 5, 5) << 2)
            elif ty == 45:                              # RVC_JUMP
                _put(img, off, 0x1FFC, _b(D, 11, 11) << 12 | _b(D, 4, 4) << 11 | _b(D, 9, 8) << 9 |
                     _b(D, 10, 10) << 8 | _b(D, 6, 6) << 7 | _b(D, 7, 7) << 6 |
                     _b(D, 3, 1) << 3 | _b(D, 5, 5) << 2)
            else:
                raise ValueError("unhandled relocation type %d" % ty)
    for ty, img, off, hi_addr in later:
        D = pcrel_hi[hi_addr]
        if ty == 24:
            _put(img, off, 0xFFF00000, D << 20)
        else:
            _put(img, off, 0xFE000F80, _b(D, 11, 5) << 25 | _b(D, 4, 0) << 7)
    return secs, symtab, counts


CLANG = ["clang", "--target=riscv32", "-march=rv32imc", "-mabi=ilp32", "-c", "-ffreestanding",
         "-fno-builtin", "-nostdlib", "-fno-asynchronous-unwind-tables", "-w"]
VARIANTS = [["-mno-relax"], ["-mrelax"], ["-mno-relax", "-mcmodel=medany"]]
CALLEE_SAVED = [8, 9] + list(range(18, 28))


def compile_host(src):
    """gcc-native reference: the numbers printed by the HOST driver."""
    exe = src[:-2] + ".host"
    r = run(["gcc", "-m64", "-O0", "-w", "-DHOST", src, "-o", exe])
    if r.returncode:
        raise RuntimeError("gcc failed: " + r.stderr[:2000])
    r = run([exe])
    if r.returncode:
        raise RuntimeError("host run failed rc=%d" % r.returncode)
    return [int(x) for x in r.stdout.split()]


def compile_target(src, opt, variant):
    o = src[:-2] + opt + ".o"
    steps = [CLANG + variant + [opt, src, "-o", o]]
    if "-mrelax" in variant:
        # clang 14 only emits R_RISCV_RELAX/BRANCH/JAL/RVC_* relocations when it
        # assembles a .s file, so go through assembly for this variant
        asm = src[:-2] + opt + ".s"
        steps = [[a if a != "-c" else "-S" for a in CLANG] + variant + [opt, src, "-o", asm],
                 CLANG[:5] + variant + [asm, "-o", o]]
    for cmd in steps:
        r = run(cmd)
        if r.returncode:
            raise RuntimeError("clang failed: " + r.stderr[:2000])
    with open(o, "rb") as f:
        return f.read()


def start_builds(ex, seed, nfiles, nfuncs, per_func, tmp):
    """Generate the C files and queue their 3 compilations each on executor ex."""
    jobs = []
    for idx in range(nfiles):
        gen = CGen(random.Random("%s/rv32emu-selftest/%d" % (seed, idx)), nfuncs)
        calls = gen.calls(per_func)
        src = os.path.join(tmp, "t%d.c" % idx)
        with open(src, "w") as f:
            f.write(gen.source(calls))
        jobs.append((idx, calls, ex.submit(compile_host, src),
                     {opt: ex.submit(compile_target, src, opt, VARIANTS[idx % 3])
                      for opt in ("-O0", "-O2")}))
    return jobs


def run_object(idx, opt, data, calls, expect, rng, texts, rep, fails, verbose):
    obj = Obj(data)
    und = [s["name"] for s in obj.syms if s["shndx"] == 0 and s["name"]]
    if und:
        fails.append("t%d%s: undefined symbols %s (generator must avoid libcalls)" % (idx, opt, und))
        return
    # vary placement so that %hi/%lo carry (bit 11 set) and high addresses occur
    bases = {"x": rng.choice((0x10000, 0x7FF000, 0x80000000 - 0x800)) + 4 * rng.randrange(64),
             "r": rng.choice((0x20000800 - 64, 0x00FFF7C0)) + 16 * rng.randrange(8),
             "w": rng.choice((0x3003F7C0, 0xC0000000 - 0x100)) + 16 * rng.randrange(8)}
    secs, syms, counts = link(obj, bases)
    for ty, n in counts.items():
        rep["reloc_types"][str(ty)] = rep["reloc_types"].get(str(ty), 0) + n
    m = Machine()
    for addr, img, flags, name in secs.values():
        m.add_region(addr, img, bool(flags & 1), name)
        if flags & 4:
            texts.append(bytes(img))
    m.add_region(0x6FFE0000, 0x20000, True, "stack")
    where = "t%d%s" % (idx, opt)
    for n, (name, ret, ptypes, args) in enumerate(calls):
        flat = [rv32emu.U64(v) if t == "u64" else v for t, v in zip(ptypes, args)]
        for k in CALLEE_SAVED + [3, 4]:
            m.x[k] = 0xC0DE0000 + k
        for k in (5, 6, 7, 28, 29, 30, 31):
            m.x[k] = rng.getrandbits(32)                 # temporaries hold garbage
        sp = m.default_sp - 16 * rng.randrange(4)
        r = m.call(syms[name], flat, sp=sp, max_steps=3000000)
        got = r.u64 if ret == "u64" else r.a0
        rep["calls" + opt] += 1
        rep["max_steps_per_call"] = max(rep["max_steps_per_call"], r.steps)
        if r.status != "ret":
            fails.append("%s %s%r: status %s (%s) after %d steps" % (where, name, args, r.status,
                                                                     m.fault, r.steps))
            return
        bad = [k for k in CALLEE_SAVED + [3, 4] if m.x[k] != 0xC0DE0000 + k]
        if got != expect[n] or bad or m.x[2] != r.sp or r.sp > sp or r.sp % 16:
            fails.append("%s %s%r: got %#x want %#x; clobbered %s; sp %#x/%#x" % (
                where, name, args, got, expect[n], bad, m.x[2], r.sp))
            return
    pos = len(calls)
    for name, ty, cnt, _, _ in GLOBALS:
        raw = m.read_mem(syms[name], cnt * ESIZE[ty])
        got = [int.from_bytes(raw[i * ESIZE[ty]:(i + 1) * ESIZE[ty]], "little") for i in range(cnt)]
        if got != expect[pos:pos + cnt]:
            fails.append("%s: final contents of %s differ: %s / %s" % (where, name, got,
                                                                       expect[pos:pos + cnt]))
        pos += cnt
    rep["functions" + opt] += len(set(c[0] for c in calls))
    rep["instret" + opt] += m.instret
    for k, v in m.hist.items():
        rep["hist"][k] = rep["hist"].get(k, 0) + v
    if verbose:
        print("  %s: %d calls, %d instructions" % (where, len(calls), m.instret))


def test_end_to_end(seed, jobs, tmp, rep, verbose):
    fails, texts = [], []
    rep.update({"functions-O0": 0, "functions-O2": 0, "calls-O0": 0, "calls-O2": 0, "instret-O0": 0,
                "instret-O2": 0, "hist": {}, "reloc_types": {}, "max_steps_per_call": 0})
    dt = 0
    for idx, calls, host, objs in jobs:
        for opt in ("-O0", "-O2"):
            rng = random.Random("%s/place/%d%s" % (seed, idx, opt))
            try:
                expect, data = host.result(), objs[opt].result()     # waits for the compilers
                t0 = time.time()
                run_object(idx, opt, data, calls, expect, rng, texts, rep, fails, verbose)
                dt += time.time() - t0
            except Exception as e:  # noqa: a selftest/toolchain problem, reported as failure
                fails.append("t%d%s: %s: %s" % (idx, opt, type(e).__name__, e))
    total = rep["instret-O0"] + rep["instret-O2"]
    rep["emu_seconds"] = round(dt, 2)
    rep["minstr_per_s"] = round(total / dt / 1e6, 3) if dt else 0
    rep["executed_mnemonics"] = len(rep["hist"])
    # (iv) every instruction of every linked text image
    blob = bytearray()
    for t in texts:
        blob += t + b"\x01\x00" * ((-len(t) % 8) // 2)
    ref = llvm_disasm(bytes(blob), tmp, "text")
    stats = {"legal": 0, "illegal": 0, "div": {}, "mn": set()}
    pc = 0
    while pc < len(blob):
        if pc not in ref:
            fails.append("text: llvm has no instruction at %#x" % pc)
            break
        insn = compare_one(bytes(blob[pc:pc + 4]), pc, ref[pc], stats, fails, "text@%#x" % pc)
        pc += insn.length
    rep["text_instructions_compared"] = stats["legal"] + stats["illegal"]
    rep["text_illegal"] = stats["illegal"]
    rep["text_mnemonics"] = len(stats["mn"])
    if stats["illegal"] or stats["div"]:
        fails.append("text: %d illegal / %r divergent instructions in compiler output" %
                     (stats["illegal"], stats["div"]))
    return fails


def main(argv=None):
    ap = argparse.ArgumentParser(description=__doc__.split("\n")[0])
    ap.add_argument("--n", type=int, default=30000, help="random 32-bit patterns (default 30000)")
    ap.add_argument("--seed", default="0")
    ap.add_argument("--files", type=int, default=10, help="C translation units (default 10)")
    ap.add_argument("--funcs", type=int, default=20, help="functions per unit (default 20)")
    ap.add_argument("--vectors", type=int, default=8, help="argument vectors per function")
    ap.add_argument("--json", help="also write the counts to this file")
    ap.add_argument("-v", "--verbose", action="store_true")
    a = ap.parse_args(argv)
    missing = [t for t in TOOLS if not shutil.which(t)]
    if missing:
        print("rv32emu selftest: FAILED (tools missing: %s)" % ", ".join(missing))
        return 1
    t0 = time.time()
    tmp = tempfile.mkdtemp(prefix="rv32emu_selftest_")
    rep = {"seed": a.seed}
    ex = concurrent.futures.ThreadPoolExecutor(JOBS)
    try:
        # the compilers run in the background while the decoder comparison runs
        jobs = start_builds(ex, a.seed, a.files, a.funcs, a.vectors, tmp)
        fails = test_directed(rep)
        fails += test_decoder(random.Random("%s/rv32emu-selftest/patterns" % a.seed), a.n, tmp, rep)
        rep["decoder"]["seconds"] = round(time.time() - t0, 1)
        e2e = {}
        fails += test_end_to_end(a.seed, jobs, tmp, e2e, a.verbose)
        rep["end_to_end"] = e2e
    finally:
        ex.shutdown(wait=True, cancel_futures=True)
        shutil.rmtree(tmp, ignore_errors=True)
    rep["seconds"] = round(time.time() - t0, 1)
    rep["ok"] = not fails
    d = rep["decoder"]
    print("directed checks  : %d, failures %d" % (rep["directed"]["vectors"], rep["directed"]["failures"]))
    print("decoder vs llvm  : %d 16-bit (exhaustive) + %d 32-bit patterns; legal %d, illegal %d, "
          "%d mnemonics; accepted divergences %s; failures %d" % (
              d["patterns16"], d["patterns32"], d["legal"], d["illegal"], d["mnemonics"],
              d["divergences"], d["failures"]))
    print("end to end       : functions -O0 %d / -O2 %d; calls %d / %d; instructions retired %d / %d; "
          "%d mnemonics executed; %.2f M instr/s; relocation types %s" % (
              e2e["functions-O0"], e2e["functions-O2"], e2e["calls-O0"], e2e["calls-O2"],
              e2e["instret-O0"], e2e["instret-O2"], e2e["executed_mnemonics"], e2e["minstr_per_s"],
              e2e["reloc_types"]))
    print("program text     : %d instructions decoded identically by llvm (%d mnemonics)" % (
        e2e["text_instructions_compared"], e2e["text_mnemonics"]))
    if a.verbose:
        print("executed histogram:", dict(sorted(e2e["hist"].items(), key=lambda kv: -kv[1])))
    for f in fails[:40]:
        print("FAIL:", f)
    if len(fails) > 40:
        print("... %d more failures" % (len(fails) - 40))
    print("rv32emu selftest: %s (%.1f s; decoder phase %.1f s, emulation %.1f s, rest = waiting "
          "for gcc/clang)" % ("OK" if not fails else "FAILED", rep["seconds"], d["seconds"],
                              e2e["emu_seconds"]))
    if a.json:
        with open(a.json, "w") as f:
            json.dump(rep, f, indent=1, sort_keys=True)
    return 0 if not fails else 1


if __name__ == "__main__":
    sys.exit(main())
