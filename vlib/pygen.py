"""pygen: seeded generator of type-annotated Python programs in the subset of
ppci.lang.python.python2ir (DESIGN 2.4 / C36).

One abstract program (nested tuples) is rendered twice:

* ``render(prog)``              the source handed to python_to_ir *and* executed
                                natively by CPython (the oracle);
* ``render(prog, True)``        the same program with every integer operation
                                wrapped in ``_c(...)`` (64-bit range check) and a
                                ``_t()`` tick in front of every statement (step
                                bound).  It only decides whether a run is inside
                                the property's quantifier; the verdict uses the
                                plain source.

Subset (what python2ir accepts): functions with ``int``/``float`` parameters
and ``-> int | float | None``; ``+ - *`` and ``//`` on ints, ``+ - * /`` on
floats; single comparisons combined with ``and``/``or``; ``if/elif/else``,
``while``, ``for v in range(a[, b])`` with ``break``/``continue``; assignment,
augmented assignment, tuple assignment; calls of generated functions
(recursion is bounded by the fuel parameter ``n``, which every function has
first) and of the imported procedures ``put(int)`` / ``putf(float)``, whose
call sequence is observable.  Negative literals are written ``(0 - k)``.

Termination: every ``while`` has its own decreasing fuel variable; ``for``
ranges are built from literals, ``n`` and loop variables; recursion passes
``n - 1`` and starts with ``if n <= 0: return``.

avoid switches (keys of open C36 findings), each as narrow as possible:

  floor-division-truncates        ``//`` only with a non-negative literal (or the variable of an
                                  enclosing ``for`` over a non-negative range) on the left and a
                                  positive literal on the right
  for-body-control-flow-internal-error   ``for`` bodies are straight-line
  for-continue-skips-increment    no ``continue`` whose innermost loop is a ``for``
  for-loop-variable-not-a-variable   the loop variable is a fresh name, never assigned, never read
                                  after the loop
  variable-first-assigned-in-branch   a variable whose first textual assignment is nested gets an
                                  initialisation at the top of the function
  call-before-definition-keyerror   calls only go to functions defined earlier in the file (or self)
"""

IMIN, IMAX = -(1 << 63), (1 << 63) - 1

IMPORTS = {"put": (None, (int,)), "putf": (None, (float,))}

FVALS = [0.0, 1.0, 0.5, 1.5, 2.25, 3.0, 0.1, 10.0, 100.5, 1e10, 1e-3, 7.0, 0.75, 1e300, 123456.789]


class Ovf(Exception):
    pass


class Bound(Exception):
    pass


class Fn:
    def __init__(self, name, params, ret, recursive):
        self.name = name
        self.params = params      # [(name, ty)], first is ("n", "int")
        self.ret = ret            # "int" | "float" | None
        self.recursive = recursive
        self.body = []


class Gen:
    def __init__(self, r, avoid=(), size=None):
        self.r = r
        self.avoid = set(avoid)
        self.size = size or r.choice([6, 10, 14, 20])
        self.funcs = []
        self.tags = {}

    # ---- helpers
    def tag(self, t, n=1):
        self.tags[t] = self.tags.get(t, 0) + n

    def fresh(self, ty):
        self.nvar += 1
        return ("a%d" if ty == "int" else "x%d") % self.nvar

    # ---- program
    def program(self):
        r = self.r
        nf = r.choice([1, 2, 2, 3, 3, 4])
        sigs = []
        for i in range(nf):
            ret = r.choice(["int", "int", "int", "float", None])
            if i == nf - 1 and ret is None and r.random() < 0.7:
                ret = "int"
            params = [("n", "int")]
            for k in range(r.randrange(0, 4)):
                ty = "float" if r.random() < 0.3 else "int"
                params.append((("p%d" if ty == "int" else "q%d") % k, ty))
            sigs.append(Fn("f%d" % i, params, ret, r.random() < 0.35))
        self.sigs = sigs
        # mutual mode: functions may call functions defined later in the file; then every call
        # passes a smaller fuel and every function starts with the base case
        self.mutual = ("call-before-definition-keyerror" not in self.avoid) and nf > 1 and r.random() < 0.35
        if self.mutual:
            for fn in sigs:
                fn.recursive = True
        for i, fn in enumerate(sigs):
            self.cur = fn
            self.index = i
            self.function(fn)
            self.funcs.append(fn)
        return self.funcs

    def callable_fns(self):
        if self.mutual:
            if self.loop_depth or self.rec_sites >= 2:
                return []
            return [f for j, f in enumerate(self.sigs) if j != self.index]
        return self.sigs[: self.index]

    def function(self, fn):
        r = self.r
        self.nvar = 0
        self.nfuel = 0
        self.first_depth = {}        # name -> depth of first textual assignment
        self.types = {}              # name -> ty of every variable of the function
        self.budget = self.size
        self.rec_sites = 0
        self.loop_depth = 0
        self.nonneg_loopvars = []
        self.loopvars = []           # enclosing for-loop variables
        env = {}
        for name, ty in fn.params:
            env[name] = ty
            self.types[name] = ty
            self.first_depth[name] = 0
        body = []
        if fn.recursive:
            # base case first
            if fn.ret is None:
                base = [("return", None)]
            else:
                base = [("return", self.leaf(fn.ret, env))]
            body.append(("if", [(("cmp", "<=", ("var", "n"), ("const", "int", 0)), base)], None))
        stmts, env, div = self.block(env, 0, None, False)
        body += stmts
        if not div and fn.ret is not None:
            body.append(("return", self.expr(fn.ret, env, 2)))
            self.tag("stmt.return")
        if "variable-first-assigned-in-branch" in self.avoid:
            pre = []
            for name, d in sorted(self.first_depth.items()):
                if d > 0:
                    ty = self.types[name]
                    pre.append(("assign", name, ("const", ty, 0 if ty == "int" else 0.0)))
            body = pre + body
        else:
            if any(d > 0 for d in self.first_depth.values()):
                self.tag("shape.first-assignment-nested")
        fn.body = body

    # ---- statements
    def block(self, env, depth, loop, flat):
        """-> (stmts, env_after, diverged)"""
        r = self.r
        env = dict(env)
        out = []
        n = r.randrange(1, 4 if depth else 6)
        for _ in range(n):
            if self.budget <= 0 and out:
                break
            self.budget -= 1
            st, env, div = self.statement(env, depth, loop, flat)
            out += st
            if div:
                return out, env, True
        if not out:
            out.append(("pass",))
        return out, env, False

    def statement(self, env, depth, loop, flat):
        r = self.r
        kinds = [("assign", 30), ("aug", 12), ("tuple", 4), ("put", 10), ("pcall", 3)]
        if not flat and depth < 4:
            kinds += [("if", 18), ("while", 8), ("for", 11)]
        if not flat and depth > 0:
            kinds += [("return", 3)]
        if not flat and loop:
            kinds += [("break", 4)]
            if not (loop == "for" and "for-continue-skips-increment" in self.avoid):
                kinds += [("continue", 5)]
        tot = sum(w for _, w in kinds)
        x = r.randrange(tot)
        for kind, w in kinds:
            if x < w:
                break
            x -= w
        m = getattr(self, "s_" + kind)
        res = m(env, depth, loop, flat)
        if res is None:      # not applicable here: fall back to an assignment
            kind = "assign"
            res = self.s_assign(env, depth, loop, flat)
        self.tag("stmt." + kind)
        self.tag("depth.%d" % depth)
        return res

    def assignable(self, env, ty):
        fuel = {"n"}
        return [v for v, t in env.items() if t == ty and v not in fuel and not v.startswith("w")
                and v not in self.protected()]

    def protected(self):
        """enclosing for-loop variables may not be assigned while the loop-variable finding is open"""
        if "for-loop-variable-not-a-variable" in self.avoid:
            return set(self.loopvars)
        return set()

    def define(self, name, ty, depth):
        if name not in self.first_depth:
            self.first_depth[name] = depth
            self.types[name] = ty

    def s_assign(self, env, depth, loop, flat):
        r = self.r
        ty = "float" if r.random() < 0.25 else "int"
        cands = self.assignable(env, ty)
        if cands and r.random() < 0.55:
            name = r.choice(cands)
        else:
            name = self.fresh(ty)
        e = self.expr(ty, env, 3)
        self.define(name, ty, depth)
        env = dict(env)
        env[name] = ty
        return [("assign", name, e)], env, False

    def s_aug(self, env, depth, loop, flat):
        r = self.r
        ty = "float" if r.random() < 0.25 else "int"
        cands = self.assignable(env, ty)
        if not cands:
            return None
        name = r.choice(cands)
        op = self.pick_op(ty)
        rhs = self.expr(ty, env, 2)
        if op == "//":
            lhs, rhs = self.floordiv_operands(("var", name), rhs, env)
            if lhs != ("var", name):
                op = "+"
        self.tag("op.aug" + op)
        return [("aug", name, op, rhs)], env, False

    def s_tuple(self, env, depth, loop, flat):
        r = self.r
        k = r.choice([2, 2, 3])
        names, exprs = [], []
        env2 = dict(env)
        for _ in range(k):
            ty = "float" if r.random() < 0.2 else "int"
            cands = [c for c in self.assignable(env, ty) if c not in names]
            if cands and r.random() < 0.7:
                name = r.choice(cands)
            else:
                name = self.fresh(ty)
            names.append(name)
            exprs.append(self.expr(ty, env, 2))
            self.define(name, ty, depth)
            env2[name] = ty
        return [("tuple", names, exprs)], env2, False

    def s_put(self, env, depth, loop, flat):
        ty = "float" if self.r.random() < 0.25 else "int"
        return [("put", ty, self.expr(ty, env, 2))], env, False

    def s_pcall(self, env, depth, loop, flat):
        procs = [f for f in self.callable_fns() if f.ret is None]
        if self.cur.ret is None and self.cur.recursive and not self.loop_depth and self.rec_sites < 2:
            procs.append(self.cur)
        if not procs:
            return None
        f = self.r.choice(procs)
        return [("pcall", f.name, self.call_args(f, env, loop))], env, False

    def s_return(self, env, depth, loop, flat):
        if self.cur.ret is None:
            return [("return", None)], env, True
        return [("return", self.expr(self.cur.ret, env, 2))], env, True

    def s_break(self, env, depth, loop, flat):
        self.tag("shape.break-in-" + loop)
        return [("break",)], env, True

    def s_continue(self, env, depth, loop, flat):
        self.tag("shape.continue-in-" + loop)
        return [("continue",)], env, True

    def s_if(self, env, depth, loop, flat):
        r = self.r
        narms = r.choice([1, 1, 1, 2, 3])
        arms = []
        outs = []
        for _ in range(narms):
            c = self.cond(env, 2)
            b, e2, div = self.block(env, depth + 1, loop, flat)
            arms.append((c, b))
            if not div:
                outs.append(e2)
        els = None
        if r.random() < 0.55:
            els, e2, div = self.block(env, depth + 1, loop, flat)
            if not div:
                outs.append(e2)
        else:
            outs.append(env)
        if narms > 1:
            self.tag("shape.elif")
        if not outs:
            return [("if", arms, els)], env, True
        new = dict(env)
        for name in outs[0]:
            if all(name in o for o in outs):
                new[name] = outs[0][name]
        return [("if", arms, els)], new, False

    def s_while(self, env, depth, loop, flat):
        r = self.r
        self.nfuel += 1
        w = "w%d" % self.nfuel
        self.define(w, "int", depth)
        env = dict(env)
        env[w] = "int"
        fuelc = ("cmp", ">", ("var", w), ("const", "int", 0))
        if r.random() < 0.6:
            cond = ("and", [fuelc, self.cond(env, 2)])
        else:
            cond = fuelc
        dec = ("aug", w, "-", ("const", "int", 1)) if r.random() < 0.5 else \
              ("assign", w, ("bin", "-", ("var", w), ("const", "int", 1)))
        self.loop_depth += 1
        body, _, _ = self.block(env, depth + 1, "while", False)
        self.loop_depth -= 1
        init = ("assign", w, ("const", "int", r.randrange(1, 7)))
        return [init, ("while", cond, [dec] + body)], env, False

    def small(self, env):
        """an int expression that is small by construction: a range bound"""
        r = self.r
        c = r.random()
        if c < 0.45:
            return ("const", "int", r.choice([0, 1, 2, 3, 3, 4, 5, 6, 8]))
        if c < 0.75 or not self.loopvars:
            e = ("var", "n")
        else:
            e = ("var", r.choice(self.loopvars))
        if r.random() < 0.4:
            e = ("bin", r.choice("+-"), e, ("const", "int", r.randrange(0, 4)))
        return e

    def s_for(self, env, depth, loop, flat):
        r = self.r
        open_var = "for-loop-variable-not-a-variable" in self.avoid
        env = dict(env)
        pre = []
        cands = [c for c in self.assignable(env, "int") if c not in self.loopvars]
        if not open_var and cands and r.random() < 0.4:
            v = r.choice(cands)         # an existing variable becomes the loop variable
            self.tag("shape.for-over-existing-variable")
        else:
            v = self.fresh("int")
            if not open_var and r.random() < 0.45:
                pre.append(("assign", v, ("const", "int", r.randrange(-3, 9))))
                self.define(v, "int", depth)
                env[v] = "int"
        if r.random() < 0.55:
            args = [self.small(env)]
        else:
            lo = r.randrange(-3, 4)
            args = [("const", "int", lo) if r.random() < 0.7 else self.small(env), self.small(env)]
        nonneg = (len(args) == 1) or (args[0][0] == "const" and args[0][2] >= 0)
        benv = dict(env)
        benv[v] = "int"
        self.define(v, "int", depth + 1 if v not in env else depth)
        saved = self.loopvars
        self.loopvars = saved + [v]
        saved_nn = self.nonneg_loopvars
        self.nonneg_loopvars = saved_nn + ([v] if nonneg else [])
        flat_body = flat or "for-body-control-flow-internal-error" in self.avoid
        self.loop_depth += 1
        body, _, _ = self.block(benv, depth + 1, "for", flat_body)
        self.loop_depth -= 1
        self.loopvars = saved
        self.nonneg_loopvars = saved_nn
        if not flat_body and any(s[0] in ("if", "while", "for", "break", "continue", "return") for s in body):
            self.tag("shape.for-body-with-control-flow")
        if len(args) == 2:
            self.tag("shape.range2")
        if v in env:
            self.tag("shape.loop-variable-live-after-loop")
        return pre + [("for", v, args, body)], env, False

    # ---- conditions and expressions
    def cond(self, env, depth):
        r = self.r
        if depth > 0 and r.random() < 0.35:
            k = r.choice([2, 2, 3])
            op = r.choice(["and", "or"])
            self.tag("op." + op)
            return (op, [self.cond(env, depth - 1) for _ in range(k)])
        ty = "float" if r.random() < 0.2 and any(t == "float" for t in env.values()) else "int"
        op = r.choice(["<", "<=", ">", ">=", "==", "!="])
        self.tag("op.cmp" + op)
        self.tag("op.cmp-" + ty)
        return ("cmp", op, self.expr(ty, env, 1), self.expr(ty, env, 1))

    def const(self, ty):
        r = self.r
        if ty == "int":
            c = r.random()
            if c < 0.75:
                v = r.randrange(-9, 13)
            elif c < 0.93:
                v = r.choice([100, 255, 1000, -1000, 65536, 99999, -77777, 1 << 20])
            else:
                v = r.choice([(1 << 31) - 1, 1 << 31, -(1 << 31), 1 << 32, (1 << 40) + 3, (1 << 62) - 1, -(1 << 62)])
            return ("const", "int", v)
        v = r.choice(FVALS)
        if r.random() < 0.25:
            v = -v
        return ("const", "float", v)

    def leaf(self, ty, env):
        r = self.r
        vs = [v for v, t in env.items() if t == ty]
        if vs and r.random() < 0.62:
            return ("var", r.choice(vs))
        return self.const(ty)

    def pick_op(self, ty):
        r = self.r
        if ty == "int":
            return r.choice(["+", "+", "+", "-", "-", "*", "*", "//", "//"])
        return r.choice(["+", "+", "-", "-", "*", "*", "/", "/"])

    def floordiv_operands(self, a, b, env):
        r = self.r
        if "floor-division-truncates" in self.avoid:
            # a loop variable is known to be non-negative only while it cannot be assigned
            nn = [v for v in self.nonneg_loopvars if v in env and v in self.protected()]
            if nn and r.random() < 0.6:
                a = ("var", r.choice(nn))
            else:
                a = ("const", "int", r.choice([0, 1, 7, 9, 100, 255, 1000, 99999]))
            b = ("const", "int", r.choice([1, 2, 3, 4, 7, 10, 16]))
            return a, b
        if r.random() < 0.6:
            # a literal divisor of either sign keeps the discard rate down
            b = ("const", "int", r.choice([1, 2, 3, 4, 5, 7, 10, 16, -1, -2, -3, -7, -16]))
        return a, b

    def expr(self, ty, env, depth):
        r = self.r
        if depth <= 0 or r.random() < 0.3:
            return self.leaf(ty, env)
        c = r.random()
        if c < 0.12:
            e = self.call(ty, env)
            if e is not None:
                return e
        op = self.pick_op(ty)
        a = self.expr(ty, env, depth - 1)
        b = self.expr(ty, env, depth - 1)
        if op == "//":
            a, b = self.floordiv_operands(a, b, env)
        self.tag("op.%s%s" % (ty[0], op))
        return ("bin", op, a, b)

    def call(self, ty, env):
        fs = [f for f in self.callable_fns() if f.ret == ty]
        if self.cur.ret == ty and self.cur.recursive and not self.loop_depth and self.rec_sites < 2:
            fs.append(self.cur)
        if not fs:
            return None
        f = self.r.choice(fs)
        return ("call", f.name, self.call_args(f, env, None))

    def call_args(self, f, env, loop):
        r = self.r
        args = []
        if f is self.cur or self.mutual:
            self.rec_sites += 1
            self.tag("shape.recursion" if f is self.cur else "shape.call")
            if f is not self.cur and self.sigs.index(f) > self.index:
                self.tag("shape.call-of-later-function")
            args.append(("bin", "-", ("var", "n"), ("const", "int", r.choice([1, 1, 2]))))
        else:
            if r.random() < 0.5:
                args.append(("const", "int", r.randrange(0, 4)))
            else:
                args.append(("bin", "-", ("var", "n"), ("const", "int", 1)))
            self.tag("shape.call")
        for _, ty in f.params[1:]:
            args.append(self.expr(ty, env, 1))
        return args


def gen_program(r, avoid=(), size=None):
    """-> (funcs, tags)"""
    g = Gen(r, avoid, size)
    funcs = g.program()
    return funcs, g.tags


# --------------------------------------------------------------------------
# rendering

def r_const(ty, v):
    if ty == "int":
        return str(v) if v >= 0 else "(0 - %d)" % -v
    s = repr(float(abs(v)))
    return s if (v >= 0 and str(v)[0] != "-") else "(0.0 - %s)" % s


def r_expr(e, instr, types):
    k = e[0]
    if k == "const":
        return r_const(e[1], e[2])
    if k == "var":
        return e[1]
    if k == "call":
        return "%s(%s)" % (e[1], ", ".join(r_expr(a, instr, types) for a in e[2]))
    if k == "bin":
        s = "(%s %s %s)" % (r_expr(e[2], instr, types), e[1], r_expr(e[3], instr, types))
        if instr and expr_type(e, types) == "int":
            return "_c" + s
        return s
    raise ValueError(k)


def expr_type(e, types):
    k = e[0]
    if k == "const":
        return e[1]
    if k == "var":
        return types[e[1]]
    if k == "call":
        return types["()" + e[1]]
    return expr_type(e[2], types)


def r_cond(c, instr, types, top=True):
    if c[0] == "cmp":
        return "%s %s %s" % (r_expr(c[2], instr, types), c[1], r_expr(c[3], instr, types))
    s = (" %s " % c[0]).join(r_cond(x, instr, types, False) for x in c[1])
    return s if top else "(%s)" % s


def r_block(stmts, ind, instr, types, out):
    pad = "    " * ind
    for s in stmts:
        k = s[0]
        if instr:
            out.append(pad + "_t()")
        if k == "assign":
            out.append("%s%s = %s" % (pad, s[1], r_expr(s[2], instr, types)))
        elif k == "aug":
            if instr and types[s[1]] == "int":
                out.append("%s%s = _c(%s %s %s)" % (pad, s[1], s[1], s[2], r_expr(s[3], instr, types)))
            else:
                out.append("%s%s %s= %s" % (pad, s[1], s[2], r_expr(s[3], instr, types)))
        elif k == "tuple":
            out.append("%s%s = %s" % (pad, ", ".join(s[1]), ", ".join(r_expr(e, instr, types) for e in s[2])))
        elif k == "put":
            out.append("%s%s(%s)" % (pad, "put" if s[1] == "int" else "putf", r_expr(s[2], instr, types)))
        elif k == "pcall":
            out.append("%s%s(%s)" % (pad, s[1], ", ".join(r_expr(a, instr, types) for a in s[2])))
        elif k == "return":
            out.append(pad + ("return" if s[1] is None else "return " + r_expr(s[1], instr, types)))
        elif k in ("break", "continue", "pass"):
            out.append(pad + k)
        elif k == "if":
            for i, (c, b) in enumerate(s[1]):
                out.append("%s%s %s:" % (pad, "if" if i == 0 else "elif", r_cond(c, instr, types)))
                r_block(b, ind + 1, instr, types, out)
            if s[2] is not None:
                out.append(pad + "else:")
                r_block(s[2], ind + 1, instr, types, out)
        elif k == "while":
            out.append("%swhile %s:" % (pad, r_cond(s[1], instr, types)))
            r_block(s[2], ind + 1, instr, types, out)
        elif k == "for":
            out.append("%sfor %s in range(%s):" % (pad, s[1], ", ".join(r_expr(a, instr, types) for a in s[2])))
            r_block(s[3], ind + 1, instr, types, out)
        else:
            raise ValueError(k)


def collect_types(fn, funcs):
    types = {}
    for f in funcs:
        types["()" + f.name] = f.ret
    for name, ty in fn.params:
        types[name] = ty

    def walk(stmts):
        for s in stmts:
            if s[0] == "assign":
                types.setdefault(s[1], expr_type_loose(s[2], types))
            elif s[0] == "tuple":
                for n, e in zip(s[1], s[2]):
                    types.setdefault(n, expr_type_loose(e, types))
            elif s[0] == "if":
                for _, b in s[1]:
                    walk(b)
                if s[2]:
                    walk(s[2])
            elif s[0] == "while":
                walk(s[2])
            elif s[0] == "for":
                types.setdefault(s[1], "int")
                walk(s[3])
    walk(fn.body)
    return types


def expr_type_loose(e, types):
    # variables are named a*/w*/p*/n (int) and x*/q* (float)
    k = e[0]
    if k == "const":
        return e[1]
    if k == "var":
        return "float" if e[1][0] in "xq" else "int"
    if k == "call":
        return types["()" + e[1]]
    return expr_type_loose(e[2], types)


def render(funcs, instr=False):
    out = []
    for fn in funcs:
        types = collect_types(fn, funcs)
        ps = ", ".join("%s: %s" % p for p in fn.params)
        out.append("def %s(%s) -> %s:" % (fn.name, ps, fn.ret if fn.ret else "None"))
        if instr:
            out.append("    _t()")
        r_block(fn.body, 1, instr, types, out)
        out.append("")
    return "\n".join(out) + "\n"


# --------------------------------------------------------------------------
# argument vectors

def gen_args(r, fn, count):
    vecs = []
    for k in range(count):
        vec = [r.choice([0, 1, 2, 3, 4, 5, 6]) if r.random() < 0.9 else r.choice([-1, -5, 8])]
        for _, ty in fn.params[1:]:
            if ty == "int":
                c = r.random()
                if c < 0.6:
                    vec.append(r.randrange(-20, 21))
                elif c < 0.85:
                    vec.append(r.randrange(-10 ** 6, 10 ** 6))
                else:
                    vec.append(r.choice([IMAX, IMIN, IMIN + 1, 1 << 31, -(1 << 31), (1 << 32) + 5, r.getrandbits(62)]))
            else:
                v = r.choice(FVALS + [2.0, 4.0, -0.0])
                vec.append(-v if r.random() < 0.3 else v)
        vecs.append(vec)
    return vecs


# --------------------------------------------------------------------------
# CPython side

def run_cpython(src, isrc, fname, args, max_ticks=4000):
    """-> dict(status ok|ovf|bound|raised, ret, trace, ticks).  The instrumented run decides
    membership in the quantifier; the plain run (same CPython) is the oracle value."""
    ticks = [0]

    def _t():
        ticks[0] += 1
        if ticks[0] > max_ticks:
            raise Bound()

    def _c(v):
        if not (IMIN <= v <= IMAX):
            raise Ovf()
        return v

    def run(code, instrumented):
        trace = []
        ns = {"put": lambda v: trace.append(["put", [v]]), "putf": lambda v: trace.append(["putf", [v]])}
        if instrumented:
            ns["_t"] = _t
            ns["_c"] = _c
        exec(compile(code, "<pygen>", "exec"), ns)
        return ns[fname](*args), trace

    try:
        iret, itrace = run(isrc, True)
    except Ovf:
        return {"status": "ovf", "ticks": ticks[0]}
    except Bound:
        return {"status": "bound", "ticks": ticks[0]}
    except RecursionError:
        return {"status": "bound", "ticks": ticks[0]}
    except ZeroDivisionError:
        return {"status": "zerodiv", "ticks": ticks[0]}
    except (NameError, TypeError) as e:   # UnboundLocalError is a NameError: generator left the subset
        return {"status": "generator-error", "reason": "%s: %s" % (type(e).__name__, e), "ticks": ticks[0]}
    ret, trace = run(src, False)
    same = (repr(ret) == repr(iret)) and repr(trace) == repr(itrace)
    return {"status": "ok" if same else "generator-error", "reason": None if same else "instrumented run differs",
            "ret": ret, "trace": trace, "ticks": ticks[0]}
