"""Shared runner for every property check.

A check module ``checks/cNN.py`` provides

    PROPERTY      "C39"
    RULE          str   how cases are generated and what makes one non-trivial
    ASSUMPTIONS   [str] trusted base
    EXHAUSTIVE    bool  (optional) the quick/thorough space is enumerated fully
    plan(tier, seed, avoid) -> [spec, ...]   json-able shard specs
    run_shard(spec) -> result dict            executed in a fresh worker process
    floors(tier) -> {"dotted.path": minimum}  (optional) below => inconclusive
    PROBES        {finding_key: callable() -> None | "what fails"}  (optional)

result dict keys (all optional but ``evaluations``):
    evaluations         int    executions in which the monitor compared something
    nontrivial_hashes   [str]  hashes of distinct non-trivial cases (deduplicated
                               across shards by the parent)
    nontrivial_count    int    alternative when shards partition the space and
                               cases are distinct by construction
    observed            nested dict of integer counters (summed)
    discarded           {reason: count}
    samples             [json]
    violations          [{"summary": str, "case": json}]
    inconclusive        [str]

Verdict lines are printed by the parent only.  Exit 0 held / 1 violation /
2 inconclusive.
"""
import hashlib
import importlib
import json
import os
import random
import shutil
import subprocess
import sys
import tempfile
import time
from concurrent.futures import ThreadPoolExecutor

VERIF = os.path.dirname(os.path.dirname(os.path.abspath(__file__)))
PYTHON = os.environ.get("VERIF_PYTHON", "/venv/bin/python")
REPO = os.path.abspath(os.environ.get("VERIF_REPO", "/repo"))
GUARD = "PPCI_VERIF"


def rng(seed, prop, idx):
    return random.Random("%s/%s/%s" % (seed, prop, idx))


def h(obj):
    if not isinstance(obj, (bytes, str)):
        obj = json.dumps(obj, sort_keys=True, default=repr)
    if isinstance(obj, str):
        obj = obj.encode("utf-8", "replace")
    return hashlib.sha256(obj).hexdigest()[:16]


def jobs():
    try:
        return max(1, int(os.environ.get("VERIF_JOBS", "") or os.cpu_count() or 4))
    except ValueError:
        return 8


# --------------------------------------------------------------------------
# known findings


def load_findings(prop=None):
    path = os.path.join(VERIF, "known_findings.json")
    if not os.path.exists(path):
        return []
    with open(path) as f:
        data = json.load(f)
    ents = list(data.get("findings", []))
    ddir = os.path.join(VERIF, "known_findings.d")
    if os.path.isdir(ddir):
        for name in sorted(os.listdir(ddir)):
            if name.endswith(".json"):
                with open(os.path.join(ddir, name)) as f:
                    ents.extend(json.load(f).get("findings", []))
    if prop:
        ents = [e for e in ents if e["property"] == prop]
    return ents


def open_keys(prop):
    """Keys of open findings of a property: the generators' avoid switches."""
    return sorted(e["key"] for e in load_findings(prop) if e["status"] == "open")


# --------------------------------------------------------------------------
# worker side


def worker_env(tmpdir, hashseed="0"):
    env = dict(os.environ)
    pp = [REPO, VERIF, os.path.join(VERIF, ".deps")]
    env["PYTHONPATH"] = os.pathsep.join(pp)
    env["PYTHONHASHSEED"] = str(hashseed)
    env["PYTHONPYCACHEPREFIX"] = os.path.join(tmpdir, "pyc")
    env["VERIF_REPO"] = REPO
    env["VERIF_TMP"] = tmpdir
    env[GUARD] = "1"
    env.pop("PYTHONSTARTUP", None)
    return env


def assert_repo():
    """Called in workers: the ppci observed must be the one under VERIF_REPO."""
    import ppci

    where = os.path.abspath(ppci.__file__)
    if not where.startswith(REPO + os.sep):
        raise RuntimeError("ppci imported from %s, expected under %s" % (where, REPO))
    return where


def worker_main(argv):
    modname, specfile, outfile = argv
    sys.setrecursionlimit(10000)
    res = {}
    try:
        with open(specfile) as f:
            spec = json.load(f)
        assert_repo()
        mod = importlib.import_module("checks." + modname)
        if spec.get("__probe__"):
            res = run_probes(mod, spec["__probe__"])
        else:
            res = mod.run_shard(spec) or {}
    except BaseException:  # noqa
        import traceback

        res = {"harness_error": traceback.format_exc()}
    tmp = outfile + ".tmp"
    with open(tmp, "w") as f:
        json.dump(res, f, default=repr)
    os.replace(tmp, outfile)


def run_probes(mod, keys):
    out = {"probes": {}}
    probes = getattr(mod, "PROBES", {})
    for key in keys:
        fn = probes.get(key)
        if fn is None:
            out["probes"][key] = {"missing": True}
            continue
        try:
            what = fn()
        except BaseException as e:  # a probe must judge, not crash
            import traceback

            out["probes"][key] = {"error": traceback.format_exc()[-1500:]}
            continue
        out["probes"][key] = {"fails": what}
    return out


# --------------------------------------------------------------------------
# parent side


def merge_counts(dst, src):
    for k, v in src.items():
        if isinstance(v, dict):
            merge_counts(dst.setdefault(k, {}), v)
        elif isinstance(v, bool):
            dst[k] = bool(dst.get(k, False)) or v
        elif isinstance(v, (int, float)):
            dst[k] = dst.get(k, 0) + v
        elif isinstance(v, list):
            cur = dst.setdefault(k, [])
            for x in v:
                if x not in cur and len(cur) < 200:
                    cur.append(x)
        else:
            dst.setdefault(k, v)


def dig(d, path):
    cur = d
    for part in path.split("."):
        if not isinstance(cur, dict) or part not in cur:
            return 0
        cur = cur[part]
    if isinstance(cur, dict):
        return len(cur)
    if isinstance(cur, list):
        return len(cur)
    return cur


def repo_state():
    st = {"path": REPO}
    try:
        st["head"] = subprocess.run(
            ["git", "-C", REPO, "rev-parse", "HEAD"], capture_output=True, text=True, timeout=20
        ).stdout.strip()
        dirty = subprocess.run(
            ["git", "-C", REPO, "status", "--porcelain", "--untracked-files=no"],
            capture_output=True, text=True, timeout=20,
        ).stdout.strip()
        st["dirty"] = bool(dirty)
    except Exception as e:  # not a git tree (scratch copy)
        st["head"] = "n/a (%s)" % type(e).__name__
    return st


def run_one(modname, spec, idx, tmpdir, timeout, hashseed="0"):
    specfile = os.path.join(tmpdir, "spec-%s.json" % idx)
    outfile = os.path.join(tmpdir, "out-%s.json" % idx)
    logfile = os.path.join(tmpdir, "log-%s.txt" % idx)
    with open(specfile, "w") as f:
        json.dump(spec, f)
    wtmp = os.path.join(tmpdir, "w%s" % idx)
    os.makedirs(wtmp, exist_ok=True)
    env = worker_env(tmpdir, spec.get("__hashseed__", hashseed))
    env["VERIF_TMP"] = wtmp
    env["TMPDIR"] = wtmp
    t0 = time.time()
    try:
        with open(logfile, "wb") as log:
            p = subprocess.run(
                [PYTHON, "-m", "vlib.worker", modname, specfile, outfile],
                stdout=log, stderr=log, stdin=subprocess.DEVNULL, env=env, cwd=wtmp,
                timeout=timeout,
            )
        rc = p.returncode
    except subprocess.TimeoutExpired:
        return {"harness_error": "watchdog: shard %s exceeded %ss" % (idx, timeout), "watchdog": True}
    if not os.path.exists(outfile):
        tail = ""
        try:
            with open(logfile, "rb") as f:
                tail = f.read()[-2000:].decode("utf-8", "replace")
        except OSError:
            pass
        return {"harness_error": "worker for shard %s died rc=%s: %s" % (idx, rc, tail)}
    with open(outfile) as f:
        res = json.load(f)
    res["_wall"] = time.time() - t0
    return res


def write_replay(prop, viol):
    d = os.environ.get("VERIF_REPLAY_DIR") or os.path.join(VERIF, "replays")
    os.makedirs(d, exist_ok=True)
    path = os.path.join(d, "%s-%s.json" % (prop, h(viol)))
    with open(path, "w") as f:
        json.dump(viol, f, indent=1, default=repr)
    return path


def main(argv=None):
    import argparse

    ap = argparse.ArgumentParser()
    ap.add_argument("property")
    ap.add_argument("--tier", default=os.environ.get("VERIF_TIER") or "quick")
    ap.add_argument("--replay")
    ap.add_argument("--keep", action="store_true", help="keep the run's temp dir")
    args = ap.parse_args(argv)
    prop = args.property.upper()
    tier = args.tier if args.tier in ("quick", "thorough") else "quick"
    try:
        seed = int(os.environ.get("VERIF_SEED", "0") or 0)
    except ValueError:
        seed = 0
    modname = prop.lower()
    sys.path.insert(0, VERIF)
    mod = importlib.import_module("checks." + modname)
    t0 = time.time()
    work = os.path.join(VERIF, ".work")
    os.makedirs(work, exist_ok=True)
    tmpdir = tempfile.mkdtemp(prefix="%s-" % modname, dir=work)
    try:
        rc = _run(mod, modname, prop, tier, seed, args, tmpdir, t0)
    finally:
        if not args.keep:
            shutil.rmtree(tmpdir, ignore_errors=True)
    return rc


def _run(mod, modname, prop, tier, seed, args, tmpdir, t0):
    findings = load_findings(prop)
    avoid = sorted(e["key"] for e in findings if e["status"] == "open")
    timeout = getattr(mod, "SHARD_TIMEOUT", {}).get(tier, 1500 if tier == "quick" else 6 * 3600)

    if args.replay:
        with open(args.replay) as f:
            viol = json.load(f)
        spec = viol.get("replay_spec") or viol.get("case", {}).get("replay_spec")
        if spec is None:
            print("INCONCLUSIVE property=%s reason=replay file carries no replay_spec" % prop)
            return 2
        if spec.get("__probe__"):
            specs, probe_keys = [], list(spec["__probe__"])
        else:
            specs, probe_keys = [spec], []
    else:
        specs = list(mod.plan(tier, seed, avoid))
        probe_keys = [e["key"] for e in findings if e["status"] in ("open", "fixed")]

    tasks = []
    if probe_keys:
        tasks.append(("probe", {"__probe__": probe_keys}))
    for i, s in enumerate(specs):
        s = dict(s)
        s.setdefault("tier", tier)
        s.setdefault("seed", seed)
        s.setdefault("avoid", avoid)
        tasks.append((i, s))

    with ThreadPoolExecutor(max_workers=jobs()) as ex:
        futs = [ex.submit(run_one, modname, s, i, tmpdir, timeout) for i, s in tasks]
        results = [f.result() for f in futs]

    agg = {"evaluations": 0, "observed": {}, "discarded": {}, "samples": [], "violations": [],
           "inconclusive": [], "nontrivial": set(), "nontrivial_count": 0}
    probe_res = {}
    for (idx, spec), res in zip(tasks, results):
        if "harness_error" in res:
            agg["inconclusive"].append("shard %s: %s" % (idx, res["harness_error"][-600:]))
            continue
        if idx == "probe":
            probe_res = res.get("probes", {})
            continue
        agg["evaluations"] += int(res.get("evaluations", 0))
        agg["nontrivial"].update(res.get("nontrivial_hashes", []))
        agg["nontrivial_count"] += int(res.get("nontrivial_count", 0))
        merge_counts(agg["observed"], res.get("observed", {}))
        merge_counts(agg["discarded"], res.get("discarded", {}))
        for s in res.get("samples", []):
            if len(agg["samples"]) < 6:
                agg["samples"].append(s)
        for v in res.get("violations", []):
            v = dict(v)
            v.setdefault("replay_spec", spec)
            agg["violations"].append(v)
        agg["inconclusive"].extend(res.get("inconclusive", []))

    # known findings: witness probes
    known_lines, known_repro, notes = [], [], []
    for e in (findings if (not args.replay or probe_keys) else []):
        if args.replay and e["key"] not in probe_keys:
            continue
        pr = probe_res.get(e["key"])
        if e["status"] == "open":
            if pr is None or pr.get("missing"):
                agg["inconclusive"].append("no probe for open finding %s" % e["key"])
            elif "error" in pr:
                agg["inconclusive"].append("probe %s crashed: %s" % (e["key"], pr["error"][-300:]))
            elif pr.get("fails"):
                known_lines.append("KNOWN-FINDING: property=%s %s: %s" % (prop, e["key"], pr["fails"]))
                known_repro.append(e["key"])
            else:
                notes.append("open finding %s no longer reproduces (turn it into fixed)" % e["key"])
        elif e["status"] == "fixed":
            if pr is None or pr.get("missing"):
                continue
            if "error" in pr:
                agg["inconclusive"].append("probe %s crashed: %s" % (e["key"], pr["error"][-300:]))
            elif pr.get("fails"):
                agg["violations"].append({
                    "summary": "regression of fixed finding %s: %s" % (e["key"], pr["fails"]),
                    "case": {"finding": e["key"], "witness": e.get("witness")},
                    "replay_spec": {"__probe__": [e["key"]]},
                })

    # floors
    if not args.replay and hasattr(mod, "floors"):
        view = {"evaluations": agg["evaluations"], "observed": agg["observed"],
                "discarded": agg["discarded"],
                "distinct_nontrivial": len(agg["nontrivial"]) + agg["nontrivial_count"]}
        for path, minimum in mod.floors(tier).items():
            got = dig(view, path)
            if got < minimum:
                agg["inconclusive"].append("floor %s: %s < %s" % (path, got, minimum))

    distinct = len(agg["nontrivial"]) + agg["nontrivial_count"]
    wall = time.time() - t0
    samples = agg["samples"] or [{"note": "no sample recorded"}]
    cov = {
        "evaluations": agg["evaluations"],
        "distinct_nontrivial": distinct,
        "rule": getattr(mod, "RULE", ""),
        "samples": samples,
        "observed": agg["observed"],
        "discarded": agg["discarded"],
        "known_findings_reproduced": known_repro,
        "avoid_switches_on": avoid,
        "inconclusive_reasons": agg["inconclusive"][:20],
        "notes": notes,
        "shards": len(specs),
        "repo": repo_state(),
    }
    if getattr(mod, "EXHAUSTIVE", False):
        cov["exhaustive"] = True if not callable(mod.EXHAUSTIVE) else bool(mod.EXHAUSTIVE(tier))
    ev = {
        "property_id": prop, "tier": tier, "seed": seed,
        "level": getattr(mod, "LEVEL", "exploration"),
        "coverage": cov,
        "assumptions": list(getattr(mod, "ASSUMPTIONS", [])),
        "wall_s": round(wall, 2),
        "violations": len(agg["violations"]),
    }
    if not args.replay:
        evdir = os.environ.get("VERIF_EVIDENCE_DIR") or os.path.join(VERIF, "evidence")
        os.makedirs(evdir, exist_ok=True)
        evpath = os.path.join(evdir, "%s.json" % prop)
        with open(evpath + ".tmp", "w") as f:
            json.dump(ev, f, indent=1, default=repr)
        os.replace(evpath + ".tmp", evpath)

    for line in known_lines:
        print(line)
    if agg["violations"]:
        seen = set()
        for v in agg["violations"][:25]:
            path = write_replay(prop, v)
            if path in seen:
                continue
            seen.add(path)
            print("VIOLATION property=%s replay=%s" % (prop, path))
            print("  " + str(v.get("summary", ""))[:300].replace("\n", " "))
        print("%s: violated: %d refuting events, %d evaluations, %.1fs" % (
            prop, len(agg["violations"]), agg["evaluations"], wall))
        return 1
    if agg["inconclusive"]:
        print("INCONCLUSIVE property=%s reason=%s" % (prop, agg["inconclusive"][0][:400].replace("\n", " ")))
        return 2
    print("%s: held on what was observed: %d evaluations, %d distinct non-trivial, %d known findings reproduced, %.1fs" % (
        prop, agg["evaluations"], distinct, len(known_repro), wall))
    return 0
