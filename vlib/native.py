"""Native x86-64 execution of ppci-compiled C (DESIGN 2.5).

Two link paths:
  A  ppci only: crt0 (asm) + program + syscall BSP, all compiled by ppci,
     linked by ppci with a layout, ELF written by ppci.api.objcopy, started
     by the kernel.
  B  ppci relocatable ELF + gcc-compiled driver (main, report), linked by
     ``gcc -no-pie``; calls go in both directions.

The program under test defines ``long run_all(void)`` (see with_run_all) which
calls entry() once per argument vector and report()s each return value.
"""
import io
import os
import subprocess

CRT0 = """
section code
global bsp_syscall
global run_all
global bsp_exit
global start

start:
    call run_all
    mov rdi, rax
    call bsp_exit

bsp_syscall:
    mov rax, rdi
    mov rdi, rsi
    mov rsi, rdx
    mov rdx, rcx
    syscall
    ret
"""

BSP_C = """
long bsp_syscall(long nr, long a, long b, long c);

void bsp_exit(long code)
{
  bsp_syscall(60, code & 127, 0, 0);
}

void report(long v)
{
  char buf[24];
  int pos = 23;
  unsigned long u;
  int neg = 0;
  buf[pos] = 10;
  if (v < 0) { neg = 1; u = 0ul - (unsigned long)v; } else { u = (unsigned long)v; }
  do {
    pos = pos - 1;
    buf[pos] = (char)(48 + (int)(u % 10ul));
    u = u / 10ul;
  } while (u != 0ul);
  if (neg) { pos = pos - 1; buf[pos] = 45; }
  bsp_syscall(1, 1, (long)&buf[pos], 24 - pos);
}
"""

LAYOUT = """
ENTRY(start)
MEMORY code LOCATION=0x400000 SIZE=0x80000 {
    SECTION(code)
}
MEMORY ram LOCATION=0x20000000 SIZE=0x80000 {
    SECTION(data)
}
"""

GCC_DRIVER = r'''
#include <stdio.h>
void report(long v) { printf("%ld\n", v); }
long run_all(void);
int main(void) { long r = run_all(); fflush(stdout); return (int)(r & 127); }
'''


def with_run_all(src, argvecs):
    """Append run_all(): one entry() call per vector, each result reported."""
    lines = [src, "long run_all(void) {", "  long acc = 0;"]
    for vec in argvecs:
        args = ", ".join(c_long(v) for v in vec)
        lines.append("  { long r = entry(%s); report(r); acc = acc ^ r; }" % args)
    lines.append("  return acc & 127;")
    lines.append("}")
    return "\n".join(lines) + "\n"


def c_long(v):
    if v == -(2 ** 63):
        return "(-9223372036854775807l - 1)"
    return "(%dl)" % v if v < 0 else "%dl" % v


def gcc_reference(full_src, workdir, tag, sanitize=True):
    """-> ("ok", stdout, exit status) | ("discard", reason, None)"""
    c = os.path.join(workdir, "g_%s.c" % tag)
    d = os.path.join(workdir, "gdriver.c")
    exe = os.path.join(workdir, "g_%s" % tag)
    with open(c, "w") as f:
        f.write(full_src)
    with open(d, "w") as f:
        f.write(GCC_DRIVER)
    flags = ["-fsanitize=undefined", "-fno-sanitize-recover=all"] if sanitize else []
    p = subprocess.run(["gcc", "-std=c99", "-w", "-O0"] + flags + ["-o", exe, c, d],
                       capture_output=True, text=True, timeout=180)
    try:
        if p.returncode:
            return "discard", "gcc rejects", None
        try:
            q = subprocess.run([exe], capture_output=True, text=True, timeout=20)
        except subprocess.TimeoutExpired:
            return "discard", "gcc executable timeout", None
        if q.returncode < 0 or q.stderr:
            return "discard", "UBSan/crash under gcc", None
        return "ok", q.stdout, q.returncode
    finally:
        for pth in (c, exe):
            try:
                os.unlink(pth)
            except OSError:
                pass


_cache = {}


def _support(opt):
    """crt0 and BSP objects, compiled once per worker (BSP at -O0: it is not under test)."""
    from ppci import api
    if "crt0" not in _cache:
        _cache["crt0"] = api.asm(io.StringIO(CRT0), "x86_64")
        _cache["bsp"] = api.cc(io.StringIO(BSP_C), "x86_64", opt_level=0)
    return _cache["crt0"], _cache["bsp"]


def build_path_a(full_src, opt, workdir, tag):
    """ppci only. -> path of the executable. Raises what ppci raises."""
    from ppci import api
    crt0, bsp = _support(opt)
    obj = api.cc(io.StringIO(full_src), "x86_64", opt_level=opt)
    exe_obj = api.link([crt0, obj, bsp], layout=io.StringIO(LAYOUT), use_runtime=True)
    exe = os.path.join(workdir, "a_%s.elf" % tag)
    api.objcopy(exe_obj, "code", "elf", exe)
    os.chmod(exe, 0o755)
    return exe


def build_path_b(full_src, opt, workdir, tag):
    """ppci relocatable ELF + gcc driver. -> path of the executable."""
    from ppci import api
    from ppci.format.elf import write_elf
    obj = api.cc(io.StringIO(full_src), "x86_64", opt_level=opt)
    o = os.path.join(workdir, "b_%s.o" % tag)
    with open(o, "wb") as f:
        write_elf(obj, f, type="relocatable")
    d = os.path.join(workdir, "gdriver.c")
    if not os.path.exists(d):
        with open(d, "w") as f:
            f.write(GCC_DRIVER)
    exe = os.path.join(workdir, "b_%s" % tag)
    p = subprocess.run(["gcc", "-no-pie", "-w", "-O0", "-o", exe, d, o], capture_output=True, text=True, timeout=180)
    os.unlink(o)
    if p.returncode:
        raise LinkFailure(p.stderr[-400:])
    return exe


class LinkFailure(Exception):
    pass


def run_exe(exe, timeout=20):
    """-> (kind, stdout, status) kind in ok / signal / timeout"""
    try:
        q = subprocess.run([exe], capture_output=True, timeout=timeout)
    except subprocess.TimeoutExpired:
        return "timeout", "", None
    finally:
        pass
    out = q.stdout.decode("ascii", "replace")
    if q.returncode < 0:
        return "signal", out, q.returncode
    return "ok", out, q.returncode
