"""Run batches of wasm modules in V8 (node) through vlib/v8driver.js.

``run_v8(modules, tmpdir)`` takes a list of job dicts (see v8driver.js) where
``wasm`` may be raw ``bytes`` (converted to base64 here) and returns
``{id: result}`` plus the engine versions.  A node failure (missing binary,
crash, timeout) raises ``V8Error``: the caller turns that into *inconclusive*,
never into a verdict about ppci.
"""
import base64
import json
import os
import subprocess

NODE = os.environ.get("VERIF_NODE", "/usr/bin/node")
DRIVER = os.path.join(os.path.dirname(os.path.abspath(__file__)), "v8driver.js")


class V8Error(Exception):
    pass


_counter = [0]


def run_v8(modules, tmpdir, timeout=300):
    _counter[0] += 1
    job = os.path.join(tmpdir, "v8job-%d-%d.json" % (os.getpid(), _counter[0]))
    out = job + ".out"
    mods = []
    for m in modules:
        m = dict(m)
        if isinstance(m["wasm"], (bytes, bytearray)):
            m["wasm"] = base64.b64encode(bytes(m["wasm"])).decode("ascii")
        mods.append(m)
    with open(job, "w") as f:
        json.dump({"modules": mods}, f)
    try:
        p = subprocess.run([NODE, "--no-warnings", DRIVER, job, out], stdout=subprocess.PIPE, stderr=subprocess.STDOUT,
                           stdin=subprocess.DEVNULL, timeout=timeout)
    except FileNotFoundError:
        raise V8Error("node not found at %s" % NODE)
    except subprocess.TimeoutExpired:
        raise V8Error("node timed out after %ss on %d modules" % (timeout, len(mods)))
    finally:
        try:
            os.unlink(job)
        except OSError:
            pass
    if p.returncode != 0 or not os.path.exists(out):
        raise V8Error("node rc=%s: %s" % (p.returncode, p.stdout[-500:].decode("utf-8", "replace")))
    with open(out) as f:
        data = json.load(f)
    os.unlink(out)
    res = {}
    for r in data["results"]:
        if "driver_error" in r:
            raise V8Error("driver error on %s: %s" % (r.get("id"), r["driver_error"]))
        res[r["id"]] = r
    return res, {"node": data.get("node"), "v8": data.get("v8")}
