"""Tiny line-based reducer for C01/C04 witnesses.

usage: python -m vlib.creduce <replay.json | file.c> [a0 a1 a2]
Removes lines while (gcc+UBSan runs clean) and (ppci IR result != gcc result).
"""
import io
import json
import os
import subprocess
import sys
import tempfile


def gcc_out(src, vec, d):
    from vlib import cgen
    c = os.path.join(d, "r.c")
    open(c, "w").write(src)
    open(os.path.join(d, "driver.c"), "w").write(cgen.DRIVER)
    p = subprocess.run(["gcc", "-std=c99", "-w", "-O0", "-fsanitize=undefined", "-fno-sanitize-recover=all", "-o",
                        os.path.join(d, "r"), c, os.path.join(d, "driver.c")], capture_output=True, text=True)
    if p.returncode:
        return None
    try:
        q = subprocess.run([os.path.join(d, "r")] + [str(a) for a in vec], capture_output=True, text=True, timeout=5)
    except subprocess.TimeoutExpired:
        return None
    if q.returncode:
        return None
    return q.stdout


def ppci_out(src, vec):
    from ppci import api
    from vlib.refinterp import Interp
    try:
        m = api.c_to_ir(io.StringIO(src), "x86_64")
    except Exception as e:
        return "EXC %s" % type(e).__name__
    res = Interp(m, ptr_size=8).run("entry", vec, max_steps=400000)
    if res.status != "ok":
        return "STATUS %s %s" % (res.status, res.reason)
    out = []
    for t in res.trace:
        v = t[1][0]
        if isinstance(v, int):
            v &= (1 << 64) - 1
            v = v - (1 << 64) if v >> 63 else v
        out.append(str(v))
    out.append("ret %s" % res.retval)
    return "\n".join(out) + "\n"


NATIVE = None   # optimisation level: compare the ppci native executable instead of the IR


def native_differs(src, d):
    from vlib import native
    st, out, rc = native.gcc_reference(src, d, "red")
    if st != "ok":
        return False
    try:
        exe = native.build_path_a(src, NATIVE, d, "red")
    except Exception:
        return False
    kind, pout, prc = native.run_exe(exe, timeout=10)
    return kind != "ok" or pout != out or prc != rc


def differs(src, vec, d):
    if NATIVE is not None:
        return native_differs(src, d)
    g = gcc_out(src, vec, d)
    if g is None:
        return False
    p = ppci_out(src, vec)
    if p.startswith("EXC CompilerError") or p.startswith("STATUS timeout"):
        return False
    return p != g


def reduce(src, vec):
    d = tempfile.mkdtemp(prefix="creduce", dir=os.environ.get("VERIF_TMP"))
    lines = src.split("\n")
    assert differs(src, vec, d), "does not differ to begin with"
    changed = True
    while changed:
        changed = False
        i = len(lines) - 1
        while i >= 0:
            ln = lines[i].strip()
            if ln and not ln.startswith("return") and not ln.startswith("long entry") and not ln.startswith("long run_all") and not ln.startswith("long acc") and ln not in ("}",) and "void report" not in ln:
                # try removing a single line, or a balanced brace block starting here
                cand = None
                if ln.endswith("{"):
                    depth, j = 0, i
                    while j < len(lines):
                        depth += lines[j].count("{") - lines[j].count("}")
                        if depth == 0:
                            break
                        j += 1
                    if j < len(lines) and not lines[j].strip().startswith("} else") and not lines[j].strip().startswith("} while"):
                        cand = lines[:i] + lines[j + 1:]
                elif ln.endswith(";") or ln.endswith(":"):
                    cand = lines[:i] + lines[i + 1:]
                if cand is not None and differs("\n".join(cand), vec, d):
                    lines = cand
                    changed = True
            i -= 1
    import shutil
    shutil.rmtree(d, ignore_errors=True)
    return "\n".join(lines)


if __name__ == "__main__":
    path = sys.argv[1]
    if path.endswith(".json"):
        v = json.load(open(path))
        src = v["case"]["source"]
        vec = v["case"].get("args") or [0, 1, 2]
        if "level" in v["case"]:
            NATIVE = v["case"]["level"]
    else:
        src = open(path).read()
        vec = [int(x) for x in sys.argv[2:5]] or [0, 1, 2]
    out = reduce(src, vec)
    print(out)
    if NATIVE is not None:
        sys.exit(0)
    d = tempfile.mkdtemp()
    print("/* gcc:\n%s\nppci:\n%s*/" % (gcc_out(out, vec, d), ppci_out(out, vec)))
