"""c3gen: one abstract program rendered as C3 source and as C source (DESIGN 2.4 / C37).

The abstract program is a tree of tuples carrying explicit types.  Rules that
keep the comparison inside "the language ppci defines":

* every binary operation has two operands of the *same* C3 type and yields
  that type; conversions are explicit ``cast<T>(e)``; every binary expression
  is fully parenthesised (precedence is not judged);
* the C rendering uses <stdint.h> types and computes ``+ - * & | ^ <<`` and
  unary minus in ``uint64_t`` followed by a cast to the C3 result type (no C
  promotion, no signed overflow); ``/ % << >>`` go through helper functions
  that set a flag instead of executing undefined behaviour (zero divisor,
  MIN / -1, shift count out of range) -- a flagged case is discarded;
* function calls only occur as a whole right-hand side / return value / call
  statement with call-free arguments, or as a leaf of an ``and/or/not``
  condition, so C's unspecified evaluation order never matters;
* array sizes are powers of two and every index is ``(e & (size - 1))``;
  loops carry fuel; recursion passes ``n - 1`` and starts with a base case;
* every variable is assigned before it can be read; pointers only point to
  live objects of exactly the pointed-to type; no pointer arithmetic, no
  sizeof of aggregates (C3 structs are packed, C structs are not).

C3 ``int`` is 32 bit on x86_64 and arm (arch.info), ``bool`` is an ``int``
holding 0/1, ``byte`` is ``uint8_t``.

avoid switches (keys of open C37 findings) are listed in ``AVOID_DOC``.
"""

AVOID_DOC = {
    "const-eval-operator-table": "global/const initialisers use only literals, (0 - literal) and + - * on small literals "
                                 "(no / % << >> & | ^ in constant expressions)",
    "const-eval-cast-only-int-byte": "only int, byte and arrays/structs of them get an initial value; globals of other "
                                     "fixed-width types start at zero (no initialiser)",
    "global-bool-initial-value-dropped": "bool globals (and bool leaves of aggregates) carry no initialiser",
    "struct-type-used-twice-reported-recursive": "a struct type has at most one member of any other struct type",
}


class Ty:
    def __init__(self, name, kind, bits=0, signed=False, c=None, target=None, fields=None, elem=None, size=0):
        self.name = name      # C3 spelling
        self.kind = kind      # int | bool | ptr | struct | array | void
        self.bits = bits
        self.signed = signed
        self.c = c or name    # C spelling
        self.target = target
        self.fields = fields  # [(name, Ty)]
        self.elem = elem
        self.size = size

    def __repr__(self):
        return self.name

    @property
    def scalar(self):
        return self.kind in ("int", "bool")

    @property
    def lo(self):
        return -(1 << (self.bits - 1)) if self.signed else 0

    @property
    def hi(self):
        return (1 << (self.bits - 1)) - 1 if self.signed else (1 << self.bits) - 1


INT = Ty("int", "int", 32, True, "int32_t")
BYTE = Ty("byte", "int", 8, False, "uint8_t")
BOOL = Ty("bool", "bool", 32, True, "int32_t")
VOID = Ty("void", "void", c="void")
FIXED = [Ty("int8_t", "int", 8, True), Ty("int16_t", "int", 16, True), Ty("int32_t", "int", 32, True),
         Ty("int64_t", "int", 64, True), Ty("uint8_t", "int", 8, False), Ty("uint16_t", "int", 16, False),
         Ty("uint32_t", "int", 32, False), Ty("uint64_t", "int", 64, False)]
INT_TYPES = [INT, BYTE] + FIXED
def ptr_to(t):
    # cached on the type object itself: struct names repeat across programs
    if getattr(t, "_ptr", None) is None:
        t._ptr = Ty(t.name + "*", "ptr", c=t.c + " *", target=t)
    return t._ptr


def array_of(t, n):
    return Ty("%s[%d]" % (t.name, n), "array", elem=t, size=n)


def cval(e):
    return e[1] if e[0] == "cx" else e[4]


def wrap(v, t):
    v &= (1 << t.bits) - 1
    if t.signed and v >> (t.bits - 1):
        v -= 1 << t.bits
    return v


class Fn:
    def __init__(self, name, params, ret, recursive):
        self.name = name
        self.params = params   # [(name, Ty)]
        self.ret = ret
        self.recursive = recursive
        self.body = []
        self.effects = False   # writes globals / calls put (directly or not)

    @property
    def entry(self):
        return all(t.scalar for _, t in self.params)


class Program:
    def __init__(self):
        self.structs = []     # Ty kind struct
        self.consts = []      # (name, value)  all int
        self.globals = []     # (name, Ty, init or None)  init: nested python lists / ints mirroring the type
        self.funcs = []
        self.tags = {}


# --------------------------------------------------------------------------
# generation

class Gen:
    def __init__(self, r, avoid=(), size=None):
        self.r = r
        self.avoid = set(avoid)
        self.size = size or r.choice([8, 12, 18, 24])
        self.p = Program()

    def tag(self, t, n=1):
        self.p.tags[t] = self.p.tags.get(t, 0) + n

    # ---- types
    def pick_int(self):
        r = self.r
        c = r.random()
        if c < 0.4:
            return INT
        if c < 0.5:
            return BYTE
        return r.choice(FIXED)

    def pick_scalar(self):
        return BOOL if self.r.random() < 0.12 else self.pick_int()

    def program(self):
        r = self.r
        p = self.p
        for i in range(r.choice([0, 1, 1, 2])):
            fields = []
            for k in range(r.randrange(2, 5)):
                c = r.random()
                if c < 0.65 or (not p.structs and c >= 0.85):
                    t = self.pick_scalar()
                elif c < 0.85:
                    t = array_of(self.pick_int(), r.choice([2, 4]))
                else:
                    t = r.choice(p.structs)
                    if "struct-type-used-twice-reported-recursive" in self.avoid and any(ft is t for _, ft in fields):
                        t = self.pick_scalar()
                    elif any(ft is t for _, ft in fields):
                        self.tag("struct:same-member-type-twice")
                fields.append(("m%d" % k, t))
            p.structs.append(Ty("S%d" % i, "struct", fields=fields))
        for i in range(r.choice([0, 1, 2])):
            p.consts.append(("K%d" % i, r.choice([0, 1, 2, 3, 7, 12, 100, 255, 1000, 65535, 123456])))
        for i in range(r.randrange(1, 5)):
            c = r.random()
            if c < 0.55:
                t = self.pick_scalar()
            elif c < 0.8:
                t = array_of(self.pick_scalar() if r.random() < 0.85 else (r.choice(p.structs) if p.structs else INT),
                             r.choice([2, 4, 8]))
            elif p.structs:
                t = r.choice(p.structs)
            else:
                t = self.pick_int()
            init = self.gen_init(t) if r.random() < 0.7 else None
            p.globals.append(("g%d" % i, t, init))
            if init is not None:
                self.tag("global:initialised")
        nf = r.choice([1, 2, 2, 3, 3, 4])
        self.sigs = []
        for i in range(nf):
            ret = r.choice([INT, INT, self.pick_int(), self.pick_int(), BOOL, BOOL, VOID])
            if i == nf - 1 and ret is VOID and r.random() < 0.6:
                ret = INT
            params = [("n", INT)]
            for k in range(r.randrange(0, 4)):
                c = r.random()
                if c < 0.75 or i == nf - 1:
                    t = self.pick_scalar()
                elif c < 0.9 or not p.structs:
                    t = ptr_to(self.pick_scalar())
                else:
                    t = ptr_to(r.choice(p.structs))
                params.append(("p%d" % k, t))
            self.sigs.append(Fn("f%d" % i, params, ret, r.random() < 0.3))
        self.mutual = nf > 1 and r.random() < 0.25
        if self.mutual:
            for f in self.sigs:
                f.recursive = True
                f.effects = True      # conservatively
        for i, f in enumerate(self.sigs):
            self.index = i
            self.cur = f
            self.function(f)
            p.funcs.append(f)
        return p

    def initialisable(self, t):
        if t.kind == "bool":
            return "global-bool-initial-value-dropped" not in self.avoid
        if t.kind == "int":
            if "const-eval-cast-only-int-byte" in self.avoid:
                return t is INT or t is BYTE
            return True
        if t.kind == "array":
            return self.initialisable(t.elem)
        if t.kind == "struct":
            return all(self.initialisable(ft) for _, ft in t.fields)
        return False

    def gen_init(self, t):
        """nested structure of constant-expression trees, or None when the type cannot be initialised here"""
        if not self.initialisable(t):
            return None
        r = self.r
        if t.kind == "bool":
            return ("blit", r.random() < 0.5)
        if t.kind == "int":
            return self.const_expr(t, 2)
        if t.kind == "array":
            return [self.gen_init(t.elem) for _ in range(t.size)]
        return [self.gen_init(ft) for _, ft in t.fields]

    def const_expr(self, t, depth):
        """constant expression tree of C3 type int whose value fits both int and t:
        ('cx', value) | ('cxbin', op, a, b, value)"""
        r = self.r
        lim = min(t.hi, (1 << 31) - 1)
        if depth <= 0 or r.random() < 0.5:
            v = min(r.choice([0, 1, 2, 5, 9, 77, 127, 128, 200, 255, 256, 1000, 40000, 65535, 100000, lim]), lim)
            if t.signed and r.random() < 0.3:
                v = -min(v, -t.lo)
            return ("cx", v)
        ops = ["+", "-", "*"]
        if "const-eval-operator-table" not in self.avoid:
            ops += ["/", "%", "<<", ">>", "&", "|", "^"]
        op = r.choice(ops)
        a = cval(self.const_expr(t, depth - 1))
        b = cval(self.const_expr(t, depth - 1))
        if op in "+-*":
            a, b = a % 1000, b % 1000          # the exact result stays inside int
            v = {"+": a + b, "-": a - b, "*": a * b}[op]
        else:
            # operators with C semantics, on non-negative operands (signs are the witnesses' business)
            a, b = abs(a), abs(b)
            if op in ("/", "%"):
                b = b % 100 + 1
                v = a // b if op == "/" else a % b
            elif op in ("<<", ">>"):
                a, b = a % 4096, b % 8
                v = a << b if op == "<<" else a >> b
            else:
                v = {"&": a & b, "|": a | b, "^": a ^ b}[op]
        if not (t.lo <= v <= lim) or a > lim or b > lim:
            return ("cx", a if 0 <= a <= lim else 1)
        self.tag("constexpr:" + op)
        return ("cxbin", op, ("cx", a), ("cx", b), v)

    # ---- functions
    def callable_fns(self):
        if self.mutual:
            if self.loop_depth or self.call_sites >= 2:
                return []
            return [f for j, f in enumerate(self.sigs) if j != self.index]
        if self.loop_depth > 1:
            return []
        return self.sigs[: self.index]

    def function(self, fn):
        self.nvar = 0
        self.budget = self.size
        self.loop_depth = 0
        self.call_sites = 0
        self.readonly = {"n"}
        env = {}      # name -> Ty (locals and params that are readable now)
        for name, t in fn.params:
            env[name] = t
        body = []
        if fn.recursive:
            base = [("return", None if fn.ret is VOID else self.leaf_or_cond(fn.ret, env))]
            body.append(("if", ("cmp", "<=", INT, ("var", "n", INT), ("lit", INT, 0)), base, None))
        stmts, env, div = self.block(env, 0)
        body += stmts
        if not div and fn.ret is not VOID:
            body.append(("return", self.rhs(fn.ret, env, 2)))
        fn.body = body

    def fresh(self):
        self.nvar += 1
        return "v%d" % self.nvar

    def block(self, env, depth):
        r = self.r
        env = dict(env)
        out = []
        n = r.randrange(1, 4 if depth else 6)
        for _ in range(n):
            if self.budget <= 0 and out:
                break
            self.budget -= 1
            st, env, div = self.statement(env, depth)
            out += st
            if div:
                return out, env, True
        return out, env, False

    def statement(self, env, depth):
        r = self.r
        kinds = [("decl", 18), ("assign", 26), ("compound", 10), ("put", 9), ("vcall", 4), ("agg", 5), ("ptr", 6)]
        if depth < 3:
            kinds += [("if", 16), ("while", 7), ("for", 8), ("switch", 5)]
        if depth > 0:
            kinds += [("return", 3)]
        x = r.randrange(sum(w for _, w in kinds))
        for kind, w in kinds:
            if x < w:
                break
            x -= w
        res = getattr(self, "s_" + kind)(env, depth)
        if res is None:
            kind = "decl"
            res = self.s_decl(env, depth)
        self.tag("stmt:" + kind)
        return res

    # lvalues ---------------------------------------------------------------
    def roots(self, env):
        """[(expr, Ty, writable)] of every named object readable now: locals, params, globals"""
        out = [(("var", n, t), t, n not in self.readonly) for n, t in env.items()]
        out += [(("gvar", n, t), t, True) for n, t, _ in self.p.globals]
        return out

    def paths(self, e, t, env, want, out, depth=0):
        """collect lvalue expressions of scalar type `want` (or any scalar when want is None) below e"""
        if t.scalar:
            if want is None or t is want:
                out.append((e, t))
        elif t.kind == "array":
            self.paths(("index", e, self.index_expr(env, t.size), t.elem), t.elem, env, want, out, depth + 1)
        elif t.kind == "struct":
            for fname, ft in t.fields:
                self.paths(("member", e, fname, ft), ft, env, want, out, depth + 1)
        elif t.kind == "ptr" and depth == 0:
            tt = t.target
            if tt.kind == "struct":
                for fname, ft in tt.fields:
                    self.paths(("pmember", e, fname, ft), ft, env, want, out, depth + 1)
            else:
                self.paths(("deref", e, tt), tt, env, want, out, depth + 1)

    def index_expr(self, env, size):
        r = self.r
        ints = [n for n, t in env.items() if t is INT]
        if ints and r.random() < 0.7:
            e = ("var", r.choice(ints), INT)
            if r.random() < 0.3:
                e = ("bin", "+", INT, e, ("lit", INT, r.randrange(0, 5)))
        else:
            e = ("lit", INT, r.randrange(0, 9))
        return ("bin", "&", INT, e, ("lit", INT, size - 1))

    def lvalues(self, env, want=None, write=False):
        out = []
        for e, t, w in self.roots(env):
            if write and not w and t.scalar:
                continue
            self.paths(e, t, env, want, out)
        return out

    # expressions -----------------------------------------------------------
    def lit(self, t):
        r = self.r
        if t.kind == "bool":
            return ("blit", r.random() < 0.5)
        c = r.random()
        if c < 0.6:
            v = r.randrange(-3, 10) if t.signed else r.randrange(0, 12)
        elif c < 0.85:
            v = r.choice([t.lo, t.hi, t.hi - 1, t.lo + 1, 1 << (t.bits // 2), (1 << (t.bits - 1)) - 1, 1 << (t.bits - 1)])
        else:
            v = r.getrandbits(t.bits)
        return ("lit", t, wrap(v, t))

    def leaf(self, t, env):
        r = self.r
        if r.random() < 0.65:
            lv = self.lvalues(env, t)
            if lv:
                e, _ = r.choice(lv)
                self.tag("leaf:" + e[0])
                return e
        if t is INT and self.p.consts and r.random() < 0.2:
            name, v = r.choice(self.p.consts)
            return ("const", name, INT, v)
        return self.lit(t)

    def leaf_or_cond(self, t, env):
        return self.leaf(t, env)

    def expr(self, t, env, depth):
        """call-free expression of scalar type t"""
        r = self.r
        if t.kind == "bool":
            return self.cond(env, depth, calls=False)
        if depth <= 0 or r.random() < 0.3:
            return self.leaf(t, env)
        c = r.random()
        if c < 0.15:
            src = self.pick_int()
            if src is not t:
                self.tag("cast:%s->%s" % (src.name, t.name))
                return ("cast", t, self.expr(src, env, depth - 1), src)
        if c < 0.22:
            self.tag("op:neg")
            return ("neg", t, self.expr(t, env, depth - 1))
        op = r.choice(["+", "+", "-", "-", "*", "*", "/", "%", "<<", ">>", "&", "|", "^"])
        a = self.expr(t, env, depth - 1)
        b = self.expr(t, env, depth - 1)
        if op in ("/", "%"):
            b = ("bin", "|", t, b, ("lit", t, 1))
        elif op in ("<<", ">>"):
            b = ("bin", "&", t, b, ("lit", t, t.bits - 1))
        self.tag("op:" + op)
        self.tag("optype:%s" % t.name)
        return ("bin", op, t, a, b)

    def cond(self, env, depth, calls=True):
        r = self.r
        c = r.random()
        if depth > 0 and c < 0.3:
            op = r.choice(["and", "or"])
            self.tag("op:" + op)
            return (op, self.cond(env, depth - 1, calls), self.cond(env, depth - 1, calls))
        if depth > 0 and c < 0.4:
            self.tag("op:not")
            return ("not", self.cond(env, depth - 1, calls))
        if c < 0.5:
            lv = self.lvalues(env, BOOL)
            if lv:
                self.tag("cond:bool-variable")
                return r.choice(lv)[0]
        if calls and c < 0.72:
            fs = [f for f in self.callable_fns() if f.ret is BOOL]
            if fs:
                f = r.choice(fs)
                self.tag("cond:call")
                cl = self.call(f, env)
                if cl is not None:
                    if f.effects:
                        self.tag("cond:call-with-effects")
                    return cl
        if c < 0.75:
            return ("blit", r.random() < 0.5)
        if c < 0.79:
            lv = self.lvalues(env, BOOL)
            if len(lv) >= 1:
                return ("cmp", r.choice(["==", "!="]), BOOL, r.choice(lv)[0],
                        r.choice(lv)[0] if r.random() < 0.5 else ("blit", r.random() < 0.5))
        t = self.pick_int()
        op = r.choice(["<", "<=", ">", ">=", "==", "!="])
        self.tag("op:cmp" + op)
        self.tag("cmptype:" + t.name)
        return ("cmp", op, t, self.expr(t, env, 1), self.expr(t, env, 1))

    def call(self, f, env):
        r = self.r
        args = []
        if f is self.cur or self.mutual:
            self.call_sites += 1
            args.append(("bin", "-", INT, ("var", "n", INT), ("lit", INT, r.choice([1, 1, 2]))))
            self.tag("shape:recursion" if f is self.cur else "shape:call")
        else:
            args.append(("lit", INT, r.randrange(0, 4)) if r.random() < 0.5 else
                        ("bin", "-", INT, ("var", "n", INT), ("lit", INT, 1)))
            self.tag("shape:call")
        for _, t in f.params[1:]:
            if t.kind == "ptr":
                cands = self.addressable(env, t.target)
                if not cands:
                    return None
                args.append(("addr", r.choice(cands), t))
                self.tag("shape:pointer-argument")
            else:
                args.append(self.expr(t, env, 1))
        if f.effects:
            self.cur.effects = True
        return ("call", f.name, f.ret, args)

    def addressable(self, env, target):
        """lvalues of exactly type `target` (scalar or struct)"""
        out = []
        if target.scalar:
            return [e for e, _ in self.lvalues(env, target, write=True)]
        for e, t, _ in self.roots(env):
            if t is target:
                out.append(e)
            elif t.kind == "array" and t.elem is target:
                out.append(("index", e, self.index_expr(env, t.size), target))
            elif t.kind == "struct":
                for fname, ft in t.fields:
                    if ft is target:
                        out.append(("member", e, fname, ft))
        return out

    def rhs(self, t, env, depth):
        """right-hand side: an expression, or a whole call"""
        r = self.r
        if r.random() < 0.18:
            fs = [f for f in self.callable_fns() if f.ret is t]
            if self.cur.ret is t and self.cur.recursive and not self.loop_depth and self.call_sites < 2:
                fs.append(self.cur)
            if fs:
                c = self.call(r.choice(fs), env)
                if c is not None:
                    return c
        if t.kind == "bool":
            return self.cond(env, depth, calls=False)
        return self.expr(t, env, depth)

    # statements ------------------------------------------------------------
    def s_decl(self, env, depth):
        t = self.pick_scalar()
        name = self.fresh()
        e = self.rhs(t, env, 3)
        env = dict(env)
        env[name] = t
        self.tag("decltype:" + t.name)
        return [("decl", name, t, e)], env, False

    def s_assign(self, env, depth):
        r = self.r
        lv = self.lvalues(env, None, write=True)
        if not lv:
            return None
        e, t = r.choice(lv)
        val = self.rhs(t, env, 3)
        if val[0] == "call" and e[0] not in ("var", "gvar"):
            val = self.expr(t, env, 2)     # calls only into plain variables (evaluation order)
        self.tag("store:" + e[0])
        self.note_store(e)
        return [("assign", e, val)], env, False

    def s_compound(self, env, depth):
        r = self.r
        lv = [(e, t) for e, t in self.lvalues(env, None, write=True) if t.kind == "int"]
        if not lv:
            return None
        e, t = r.choice(lv)
        op = r.choice(["+", "-", "*", "|", "&"])
        self.tag("op:" + op + "=")
        self.note_store(e)
        return [("compound", e, op, t, self.expr(t, env, 2))], env, False

    def note_store(self, e):
        while e[0] in ("index", "member"):
            e = e[1]
        if e[0] in ("gvar", "deref", "pmember"):
            self.cur.effects = True

    def s_put(self, env, depth):
        self.cur.effects = True
        return [("put", self.expr(INT, env, 2))], env, False

    def s_vcall(self, env, depth):
        fs = [f for f in self.callable_fns() if f.ret is VOID]
        if self.cur.ret is VOID and self.cur.recursive and not self.loop_depth and self.call_sites < 2:
            fs.append(self.cur)
        if not fs:
            return None
        c = self.call(self.r.choice(fs), env)
        if c is None:
            return None
        return [("vcall", c)], env, False

    def s_agg(self, env, depth):
        """a local array or struct, every leaf assigned right after the declaration"""
        r = self.r
        if self.p.structs and r.random() < 0.5:
            t = r.choice(self.p.structs)
        else:
            t = array_of(self.pick_scalar(), r.choice([2, 4]))
        name = self.fresh()
        out = [("adecl", name, t)]
        leaves = []

        def walk(e, t):
            if t.scalar:
                leaves.append((e, t))
            elif t.kind == "array":
                for i in range(t.size):
                    walk(("index", e, ("lit", INT, i), t.elem), t.elem)
            else:
                for fname, ft in t.fields:
                    walk(("member", e, fname, ft), ft)
        walk(("var", name, t), t)
        for e, lt in leaves:
            out.append(("assign", e, self.expr(lt, env, 1)))
        env = dict(env)
        env[name] = t
        self.tag("decl:local-" + t.kind)
        return out, env, False

    def s_ptr(self, env, depth):
        r = self.r
        if self.p.structs and r.random() < 0.3:
            target = r.choice(self.p.structs)
        else:
            target = self.pick_scalar()
        cands = self.addressable(env, target)
        if not cands:
            return None
        name = self.fresh()
        t = ptr_to(target)
        env = dict(env)
        env[name] = t
        self.readonly = self.readonly | {name}
        self.tag("decl:pointer-to-" + target.kind)
        return [("decl", name, t, ("addr", r.choice(cands), t))], env, False

    def s_return(self, env, depth):
        if self.cur.ret is VOID:
            return [("return", None)], env, True
        return [("return", self.rhs(self.cur.ret, env, 2))], env, True

    def s_if(self, env, depth):
        r = self.r
        c = self.cond(env, 2)
        a, _, d1 = self.block(env, depth + 1)
        b = None
        d2 = False
        if r.random() < 0.55:
            b, _, d2 = self.block(env, depth + 1)
        return [("if", c, a, b)], env, (d1 and d2 and b is not None)

    def s_while(self, env, depth):
        r = self.r
        w = self.fresh()
        env = dict(env)
        env[w] = INT
        fuel = ("cmp", ">", INT, ("var", w, INT), ("lit", INT, 0))
        cond = ("and", fuel, self.cond(env, 1, calls=not self.mutual)) if r.random() < 0.6 else fuel
        saved = self.readonly
        self.readonly = saved | {w}
        self.loop_depth += 1
        body, _, _ = self.block(env, depth + 1)
        self.loop_depth -= 1
        self.readonly = saved | {w}
        dec = ("compound", ("var", w, INT), "-", INT, ("lit", INT, 1)) if r.random() < 0.5 else \
              ("assign", ("var", w, INT), ("bin", "-", INT, ("var", w, INT), ("lit", INT, 1)))
        return [("decl", w, INT, ("lit", INT, r.randrange(1, 6))), ("while", cond, [dec] + body)], env, False

    def s_for(self, env, depth):
        r = self.r
        i = self.fresh()
        env = dict(env)
        env[i] = INT
        bound = ("lit", INT, r.randrange(0, 6)) if r.random() < 0.6 else \
                ("bin", "&", INT, ("var", "n", INT), ("lit", INT, r.choice([1, 3, 7])))
        start = r.randrange(0, 3)
        saved = self.readonly
        self.readonly = saved | {i}
        self.loop_depth += 1
        body, _, _ = self.block(env, depth + 1)
        self.loop_depth -= 1
        # the counter stays read-only afterwards as well: its final value is observable
        step = r.choice([1, 1, 2])
        return [("decl", i, INT, ("lit", INT, 0)),
                ("for", i, ("lit", INT, start), "<", bound, step, body)], env, False

    def s_switch(self, env, depth):
        r = self.r
        e = self.expr(INT, env, 2)
        if r.random() < 0.7:
            e = ("bin", "&", INT, e, ("lit", INT, r.choice([3, 7])))
        vals = r.sample([0, 1, 2, 3, 4, 5, 7, 100, 255], r.randrange(1, 4))
        cases = []
        for v in vals:
            b, _, _ = self.block(env, depth + 1)
            cases.append((v, b))
        d, _, _ = self.block(env, depth + 1)
        pos = r.randrange(0, len(cases) + 1)     # the default may stand anywhere
        return [("switch", e, cases, d, pos)], env, False


def gen_program(r, avoid=(), size=None):
    g = Gen(r, avoid, size)
    return g.program()


# --------------------------------------------------------------------------
# rendering: lang "c3" | "c"

def big_lit(t, v, lang):
    """integer literal of type t; C3 literals are ints below 2**31, larger ones are built with shifts"""
    if lang == "c":
        if t.bits == 64:
            u = v & ((1 << 64) - 1)
            return "((%s)%dULL)" % (t.c, u)
        return "((%s)%dLL)" % (t.c, v)
    if t is INT:
        if v >= 0:
            return str(v)
        if v == -(1 << 31):
            return "((-2147483647) - 1)"
        return "(-%d)" % -v
    if -(1 << 31) < v < (1 << 31):
        return "cast<%s>(%s)" % (t.name, str(v) if v >= 0 else "(-%d)" % -v)
    u = v & ((1 << t.bits) - 1)
    # build from 16-bit chunks in t: ((hi << 16) | lo)
    hi, lo = u >> 16, u & 0xFFFF
    return "((%s << cast<%s>(16)) | cast<%s>(%d))" % (big_lit(t, wrap(hi, t), lang), t.name, t.name, lo)


def r_expr(e, lang, pre):
    k = e[0]
    c = lang == "c"
    if k == "lit":
        return big_lit(e[1], e[2], lang)
    if k == "blit":
        return ("1" if e[1] else "0") if c else ("true" if e[1] else "false")
    if k == "var":
        return e[1]
    if k == "gvar":
        return (pre + e[1]) if c else e[1]
    if k == "const":
        return (pre + e[1]) if c else e[1]
    if k == "index":
        return "%s[%s]" % (r_expr(e[1], lang, pre), r_expr(e[2], lang, pre))
    if k == "member":
        return "%s.%s" % (r_expr(e[1], lang, pre), e[2])
    if k == "pmember":
        return "%s->%s" % (r_expr(e[1], lang, pre), e[2])
    if k == "deref":
        return "(*%s)" % r_expr(e[1], lang, pre)
    if k == "addr":
        return "&%s" % r_expr(e[1], lang, pre)
    if k == "cast":
        if c:
            return "((%s)%s)" % (e[1].c, r_expr(e[2], lang, pre))
        return "cast<%s>(%s)" % (e[1].name, r_expr(e[2], lang, pre))
    if k == "neg":
        if c:
            return "((%s)(0 - (uint64_t)%s))" % (e[1].c, r_expr(e[2], lang, pre))
        return "(-%s)" % r_expr(e[2], lang, pre)
    if k == "bin":
        op, t = e[1], e[2]
        a, b = r_expr(e[3], lang, pre), r_expr(e[4], lang, pre)
        if not c:
            return "(%s %s %s)" % (a, op, b)
        if op in ("/", "%", "<<", ">>"):
            return "%s_%s(%s, %s)" % ({"/": "div", "%": "rem", "<<": "shl", ">>": "shr"}[op], t.c, a, b)
        return "((%s)((uint64_t)%s %s (uint64_t)%s))" % (t.c, a, op, b)
    if k == "cmp":
        return "(%s %s %s)" % (r_expr(e[3], lang, pre), e[1], r_expr(e[4], lang, pre))
    if k in ("and", "or"):
        op = k if not c else {"and": "&&", "or": "||"}[k]
        return "(%s %s %s)" % (r_expr(e[1], lang, pre), op, r_expr(e[2], lang, pre))
    if k == "not":
        if c:
            return "(!%s)" % r_expr(e[1], lang, pre)
        return "(not %s)" % r_expr(e[1], lang, pre)
    if k == "call":
        return "%s(%s)" % ((pre + e[1]) if c else e[1], ", ".join(r_expr(a, lang, pre) for a in e[3]))
    raise ValueError(k)


def decl_text(name, t, lang, pre):
    if lang == "c":
        return cdecl(name, t, pre)
    return "var %s %s" % (t.name, name)


def r_block(stmts, ind, lang, pre, out):
    pad = "  " * ind
    c = lang == "c"
    for s in stmts:
        k = s[0]
        if k == "decl":
            out.append("%s%s = %s;" % (pad, decl_text(s[1], s[2], lang, pre), r_expr(s[3], lang, pre)))
        elif k == "adecl":
            out.append("%s%s;" % (pad, decl_text(s[1], s[2], lang, pre)))
        elif k == "assign":
            out.append("%s%s = %s;" % (pad, r_expr(s[1], lang, pre), r_expr(s[2], lang, pre)))
        elif k == "compound":
            lv = r_expr(s[1], lang, pre)
            rv = r_expr(s[4], lang, pre)
            if c:
                out.append("%s%s = (%s)((uint64_t)%s %s (uint64_t)%s);" % (pad, lv, s[3].c, lv, s[2], rv))
            else:
                out.append("%s%s %s= %s;" % (pad, lv, s[2], rv))
        elif k == "put":
            out.append("%s%s(%s);" % (pad, "put" if not c else "put", r_expr(s[1], lang, pre)))
        elif k == "vcall":
            out.append("%s%s;" % (pad, r_expr(s[1], lang, pre)))
        elif k == "return":
            out.append(pad + ("return;" if s[1] is None else "return %s;" % r_expr(s[1], lang, pre)))
        elif k == "if":
            out.append("%sif (%s) {" % (pad, r_expr(s[1], lang, pre)))
            r_block(s[2], ind + 1, lang, pre, out)
            if s[3] is not None:
                out.append(pad + "} else {")
                r_block(s[3], ind + 1, lang, pre, out)
            out.append(pad + "}")
        elif k == "while":
            out.append("%swhile (%s) {%s" % (pad, r_expr(s[1], lang, pre), " TICK" if c else ""))
            r_block(s[2], ind + 1, lang, pre, out)
            out.append(pad + "}")
        elif k == "for":
            _, i, start, op, bound, step, body = s
            out.append("%sfor (%s = %s; (%s %s %s); %s += %d) {%s" % (
                pad, i, r_expr(start, lang, pre), i, op, r_expr(bound, lang, pre), i, step, " TICK" if c else ""))
            r_block(body, ind + 1, lang, pre, out)
            out.append(pad + "}")
        elif k == "switch":
            _, e, cases, dflt, pos = s
            out.append("%sswitch (%s) {" % (pad, r_expr(e, lang, pre)))
            items = [("case %d:" % v, b) for v, b in cases]
            items.insert(pos, ("default:", dflt))
            for head, b in items:
                out.append("%s  %s {" % (pad, head))
                r_block(b, ind + 2, lang, pre, out)
                out.append("%s  }%s" % (pad, " break;" if c else ""))
            out.append(pad + "}")
        else:
            raise ValueError(k)


def r_cx(e, lang):
    if e[0] == "blit":
        return ("1" if e[1] else "0") if lang == "c" else ("true" if e[1] else "false")
    if e[0] == "cx":
        v = e[1]
        return str(v) if v >= 0 else "(0 - %d)" % -v
    return "(%s %s %s)" % (r_cx(e[2], lang), e[1], r_cx(e[3], lang))


def r_init(t, init, lang):
    if t.scalar:
        if lang == "c3" and t.kind == "int" and t.signed and t.bits < 32:
            return "cast<%s>(%s)" % (t.name, r_cx(init, lang))   # int does not narrow implicitly
        return r_cx(init, lang)
    if t.kind == "array":
        return "{%s}" % ", ".join(r_init(t.elem, x, lang) for x in init)
    return "{%s}" % ", ".join(".%s = %s" % (fn, r_init(ft, x, lang)) for (fn, ft), x in zip(t.fields, init))


def render_c3(p):
    out = ["module m;"]
    for s in p.structs:
        out.append("type struct { %s } %s;" % (" ".join("%s %s;" % (ft.name, fn) for fn, ft in s.fields), s.name))
    for name, v in p.consts:
        out.append("const int %s = %d;" % (name, v))
    for name, t, init in p.globals:
        out.append("var %s %s%s;" % (t.name, name, "" if init is None else " = " + r_init(t, init, "c3")))
    out.append("function void put(int v);")
    for f in p.funcs:
        out.append("function %s %s(%s)" % (f.ret.name, f.name, ", ".join("%s %s" % (t.name, n) for n, t in f.params)))
        out.append("{")
        r_block(f.body, 1, "c3", "", out)
        out.append("}")
    return "\n".join(out) + "\n"


def leaves(t, path=""):
    """[(C access suffix, scalar Ty)] in C3 memory order"""
    if t.scalar:
        return [(path, t)]
    if t.kind == "array":
        out = []
        for i in range(t.size):
            out += leaves(t.elem, "%s[%d]" % (path, i))
        return out
    out = []
    for fn, ft in t.fields:
        out += leaves(ft, "%s.%s" % (path, fn))
    return out


C_PRELUDE = r"""
#include <stdint.h>
#include <stdio.h>
#include <stdlib.h>
#include <string.h>
static int ub;
static long tk;
#define TICK if (++tk > 100000) { printf("X toolong\n"); fflush(stdout); exit(7); }
static void put(int32_t v) { printf("T %lld\n", (long long)v); }
#define DEFOPS(T, SIGNED, MINV, BITS) \
static T div_##T(T a, T b) { if (b == 0 || (SIGNED && a == (T)(MINV) && b == (T)-1)) { ub = 1; return 0; } return (T)(a / b); } \
static T rem_##T(T a, T b) { if (b == 0 || (SIGNED && a == (T)(MINV) && b == (T)-1)) { ub = 1; return 0; } return (T)(a % b); } \
static T shl_##T(T a, T b) { if (b < 0 || (uint64_t)b >= BITS) { ub = 1; return 0; } return (T)((uint64_t)a << b); } \
static T shr_##T(T a, T b) { if (b < 0 || (uint64_t)b >= BITS) { ub = 1; return 0; } return (T)(a >> b); }
DEFOPS(int8_t, 1, INT8_MIN, 8) DEFOPS(int16_t, 1, INT16_MIN, 16) DEFOPS(int32_t, 1, INT32_MIN, 32) DEFOPS(int64_t, 1, INT64_MIN, 64)
DEFOPS(uint8_t, 0, 0, 8) DEFOPS(uint16_t, 0, 0, 16) DEFOPS(uint32_t, 0, 0, 32) DEFOPS(uint64_t, 0, 0, 64)
static void dump(const char *name, const void *p, int n) { const unsigned char *b = p; int i; for (i = 0; i < n; i++) printf("%02x", b[i]); }
"""


def render_c(p, pre):
    """C text of one program; every global name is prefixed with `pre`; plus reset/dump helpers"""
    out = []
    for s in p.structs:
        fs = []
        for fn, ft in s.fields:
            if ft.kind == "array":
                fs.append("%s %s[%d];" % (ft.elem.c, fn, ft.size))
            else:
                fs.append("%s %s;" % (ctype(ft, pre), fn))
        out.append("typedef struct { %s } %s;" % (" ".join(fs), pre + s.name))
    for name, v in p.consts:
        out.append("static const int32_t %s = %d;" % (pre + name, v))
    for name, t, init in p.globals:
        out.append("static %s;" % cdecl(pre + name, t, pre))
    for f in p.funcs:
        out.append("static %s;" % c_proto(f, pre))
    for f in p.funcs:
        out.append(c_proto(f, pre))
        out.append("{ TICK")
        body = []
        r_block(f.body, 1, "c", pre, body)
        out += body
        out.append("}")
    # reset: initial values, leaf by leaf
    out.append("static void %sreset(void)" % pre)
    out.append("{")
    for name, t, init in p.globals:
        out.append("  memset(&%s, 0, sizeof %s);" % (pre + name, pre + name))
        if init is not None:
            for (suffix, lt), val in zip(leaves(t), flat_init(t, init)):
                out.append("  %s%s = (%s)%s;" % (pre + name, suffix, lt.c, r_cx(val, "c")))
    out.append("}")
    out.append("static void %sdump(void)" % pre)
    out.append("{")
    for name, t, init in p.globals:
        out.append('  printf("G %s ");' % name)
        for suffix, lt in leaves(t):
            out.append('  dump("", &%s%s, %d);' % (pre + name, suffix, lt.bits // 8))
        out.append('  printf("\\n");')
    out.append("}")
    return "\n".join(out) + "\n"


def cdecl(name, t, pre):
    if t.kind == "array":
        return "%s %s[%d]" % (ctype(t.elem, pre), name, t.size)
    return "%s %s" % (ctype(t, pre), name)


def ctype(t, pre):
    if t.kind == "struct":
        return pre + t.name
    if t.kind == "ptr":
        return ctype(t.target, pre) + " *"
    return t.c


def c_proto(f, pre):
    return "%s %s(%s)" % (ctype(f.ret, pre), pre + f.name, ", ".join(cdecl(n, t, pre) for n, t in f.params))


def flat_init(t, init):
    if t.scalar:
        return [init]
    out = []
    if t.kind == "array":
        for x in init:
            out += flat_init(t.elem, x)
    else:
        for (fn, ft), x in zip(t.fields, init):
            out += flat_init(ft, x)
    return out


def c_arg(t, v):
    if t.bits == 64 and not t.signed:
        return "((%s)%dULL)" % (t.c, v & ((1 << 64) - 1))
    if v == -(1 << 63):
        return "((%s)(-9223372036854775807LL - 1))" % t.c
    return "((%s)%dLL)" % (t.c, v)


def c_case(p, pre, f, vec, case_id):
    """C statements running one case and printing its observables"""
    args = ", ".join(c_arg(t, v) for (_, t), v in zip(f.params, vec))
    out = ['  if (k == %d) { printf("C %d\\n"); ub = 0; tk = 0; %sreset();' % (case_id, case_id, pre)]
    if f.ret is VOID:
        out.append('    %s(%s); printf("R void\\n");' % (pre + f.name, args))
    elif f.ret.signed:
        out.append('    { long long rv = (long long)%s(%s); printf("R %%lld\\n", rv); }' % (pre + f.name, args))
    else:
        out.append('    { unsigned long long rv = (unsigned long long)%s(%s); printf("R %%llu\\n", rv); }' % (pre + f.name, args))
    out.append('    %sdump(); printf("U %%d\\nK %%ld\\n", ub, tk); fflush(stdout); }' % pre)
    return "\n".join(out)


def c_main(case_lines, ncases):
    return ("int main(int argc, char **argv)\n{\n  int k, start = argc > 1 ? atoi(argv[1]) : 0;\n"
            "  for (k = start; k < %d; k++) {\n%s\n  }\n  return 0;\n}\n" % (ncases, "\n".join(case_lines)))


# --------------------------------------------------------------------------
# argument vectors

def gen_args(r, f, count):
    vecs = []
    for _ in range(count):
        vec = [r.choice([0, 1, 2, 3, 4, 5]) if r.random() < 0.9 else r.choice([-1, 7])]
        for _, t in f.params[1:]:
            if t.kind == "bool":
                vec.append(r.randrange(2))
                continue
            c = r.random()
            if c < 0.5:
                v = r.randrange(-6, 20)
            elif c < 0.8:
                v = r.choice([t.lo, t.hi, t.lo + 1, t.hi - 1, 1 << (t.bits - 1), (1 << (t.bits // 2)) + 1, 255, 256, -1])
            else:
                v = r.getrandbits(t.bits)
            vec.append(wrap(v, t))
        vecs.append(vec)
    return vecs
