"""objgen -- seeded generators of ppci object files, archives and linker layouts.

Shared by C11, C12, C13, C14 and C17 (DESIGN 2.4).  Everything is generated as
a plain json-able *spec* first and turned into ppci objects by the ``build_*``
functions, so a failing case can be written verbatim into a replay file and
rebuilt without the random generator.  Generation functions take a
``random.Random`` (use ``vlib.core.rng(seed, PROPERTY, index)``); nothing here
uses global randomness, time or hash order.  ppci is imported inside the
functions only.

Spec formats
------------
object spec (``ObjSpec``)::

    {"arch": "arm",
     "sections":    [{"name": str, "alignment": int, "data": hexstr, "address": int}],
     "symbols":     [{"id": int, "name": str, "binding": "global"|"local",
                      "value": int|None, "section": str|None, "typ": str, "size": int}],
     "relocations": [{"type": str, "symbol_id": int, "section": str,
                      "offset": int, "addend": int}],
     "images":      [{"name": str, "address": int, "sections": [str]}],
     "entry":       symbol id | None,
     "debug":       DebugSpec | None}

    value None            undefined symbol (binding global)
    value int, section None   absolute symbol

object-set spec (``gen_object_set``)::

    {"arch", "objects": [ObjSpec], "section_names": [str], "addr_hi": int,
     "defined": {global name: index of defining object},
     "undefined": [names referenced but defined nowhere],
     "duplicate": name defined twice | None}

layout spec (``gen_layout``)::

    {"memories": [{"name", "location", "size",
                   "inputs": [["section", n] | ["sectiondata", n] |
                              ["align", k] | ["symbol", n]]}],
     "entry": name | None,
     "fit": True | False,          # what the generator guarantees
     "overfull": memory name | None}

Typical use::

    from vlib import objgen
    r = rng(seed, "C12", i)
    oset = objgen.gen_object_set(r, "arm", relocs=True)       # closed: links
    lay = objgen.gen_layout(r, oset["objects"], fit=True)      # certainly fits
    objs = [objgen.build_object(s) for s in oset["objects"]]
    out = ppci.api.link(objs, layout=objgen.build_layout(lay))

    bad = objgen.gen_layout(r, oset["objects"], fit=False)     # certainly overfull
    oset = objgen.gen_object_set(r, "arm", undefined=1)        # certainly undefined
    oset = objgen.gen_object_set(r, "arm", duplicate=True)     # duplicate global

What the generators guarantee
-----------------------------
* ``gen_object_set`` without ``undefined``/``duplicate``: every global name is
  defined exactly once in the set and every reference is defined in the set,
  so linking all of them (in any order, any subset being archive members) is a
  valid link.
* relocations (``relocs=True``) use the real relocation types of the target
  (``arch.isa.relocation_map``).  A candidate (type, site, target, addend) is
  kept only if applying it succeeds for a spread of hypothetical placements
  below ``addr_hi`` (see ``RelocFilter``), so that a link whose addresses stay
  below ``addr_hi`` does not fail for range/alignment reasons (that is C10/C11
  territory).  Sites never overlap.  Pass ``relocs="data"`` to restrict to the
  generic absolute data relocations (absaddr16/32/64).
* ``gen_layout(fit=True)``: each memory is at least as large as an upper bound
  of what can be put in it (sum of sizes + worst-case padding); memories are
  disjoint and lie below ``addr_hi``.  ``fit=False``: one memory is smaller
  than the sum of the sizes of the sections certainly placed in it.
"""
import binascii

STYLE_NAMES = {
    # accepted by the layout *text* syntax (ID token)
    "id": ["code", "data", "text", "rodata", "bss", "vectors", "init", "sec_a", "A1", "_x9", "ram_data", "Z"],
    "dotted": [".text", ".data", ".rodata", ".text.startup", ".data.rel.ro", ".bss", "code", "data", ".init_array"],
    # anything a python string can hold (object format is json)
    "odd": ["sec tion", "päge", 'a"b', "{x}", "名前", "back\\slash", "tab\there", "0", "-", "code", "data",
            "a" * 70, "nl\nx", "'q'", "_$x_"],
}
# names that can be written into an ELF string table (ascii) and shown by tools
STYLE_NAMES["elf"] = ["code", "data", ".text", ".rodata", ".data.rel", "vectors", "sec_a", "init", "bss2"]

LOCAL_NAMES = ["L0", "L1", "loop", "tmp", "done", "main_x", "a", "_l"]
SIXTEEN_BIT = ("msp430", "avr")
ELF_ARCHES = ("x86_64", "arm", "riscv", "xtensa", "microblaze")


# --------------------------------------------------------------------------
# target facts


def get_arch(arch_name):
    from ppci.api import get_arch as ga

    return ga(arch_name)


def reloc_sizes(arch_name):
    """{relocation type name: number of bytes patched} of the target."""
    out = {}
    for name, cls in sorted(get_arch(arch_name).isa.relocation_map.items()):
        try:
            out[name] = int(cls.size())
        except Exception:  # a type without a token cannot be generated
            continue
    return out


def default_addr_hi(arch_name):
    """Exclusive upper bound of the addresses the generators use."""
    return 0xF000 if arch_name.split(":")[0] in SIXTEEN_BIT else 0x40000000


DATA_RELOCS = ("absaddr16", "absaddr32", "absaddr64")


class RelocFilter:
    """Generation-time validity filter for relocation candidates.

    ``ok(type, data, site_offset, sec_align, sec_size, target, addend)`` applies
    the relocation class of ppci to the site bytes for a spread of hypothetical
    placements (section chunk base = multiple of its alignment anywhere in
    [0, addr_hi), target anywhere in [0, addr_hi) with every low-bit pattern, or
    for a target in the same chunk at the fixed distance) and accepts the
    candidate only if none of them raises.  This only *filters generation*; no
    verdict depends on it.
    """

    def __init__(self, arch_name, addr_hi):
        self.arch = get_arch(arch_name)
        self.map = self.arch.isa.relocation_map
        self.hi = addr_hi
        self.trials = 0

    def _apply(self, typ, data, sym_value, reloc_value, offset, addend):
        self.trials += 1
        try:
            rel = self.map[typ](None, offset=offset, addend=addend)
            # the linker resolves a relocation against S + A
            res = rel.apply(sym_value + addend, bytes(data), reloc_value)
            return res is not None and len(res) == len(data)
        except Exception:
            return False

    def ok(self, typ, site, offset, sec_align, sec_size, target_offset, addend):
        """target_offset: int (same chunk, at that offset) or None (anywhere)."""
        hi = self.hi
        al = max(1, sec_align)
        top = max(0, (hi - sec_size - 1) // al * al)
        bases = [top, 0, al, 5 * al if 5 * al < top else 0]
        if target_offset is not None:
            for b in bases:
                if not self._apply(typ, site, b + target_offset, b + offset, offset, addend):
                    return False
            return True
        syms = [hi - 1, 0, 1, 2, hi - 2, hi - 4, 3, (hi // 2) | 1, 6]
        for b in bases[:3]:
            for s in syms:
                if not self._apply(typ, site, s, b + offset, offset, addend):
                    return False
        return True


# --------------------------------------------------------------------------
# object sets


def _hex(b):
    return binascii.hexlify(bytes(b)).decode("ascii")


def _pick_size(r, max_size, allow_empty):
    k = r.random()
    if allow_empty and k < 0.10:
        return 0
    if k < 0.35:
        return r.randrange(1, 8)
    if k < 0.55:
        return r.choice([4, 8, 12, 16, 24, 32])
    return r.randrange(1, max(2, max_size + 1))


def _pick_alignment(r):
    return r.choice([1, 1, 2, 2, 4, 4, 4, 4, 8, 8, 16, 16, 32, 64, 256])


def gen_object_set(r, arch_name, n_objects=None, relocs=True, names="id", debug=False,
                   undefined=0, duplicate=False, max_sections=4, max_size=80,
                   addr_hi=None, sparse_ids=True, allow_empty=True, odd_typs=False,
                   huge=False, reloc_filter=None, max_relocs=5):
    """Generate a consistent set of 1..4 object specs for ``arch_name``.

    r            random.Random
    n_objects    number of objects (default: 1..4)
    relocs       True: every relocation type of the target that passes the
                 validity filter; "data": absaddr16/32/64 only; False: none
    names        section-name style: "id" | "dotted" | "odd" | "elf"
    debug        attach random debug info (types, variables, functions, locations)
    undefined    number of names referenced by some object but defined nowhere
    duplicate    define one global in two objects
    huge         (needs relocs=False) symbol values/sizes beyond 2**64
    odd_typs     symbol ``typ`` strings other than func/object
    reloc_filter a RelocFilter to reuse between calls (its construction is cheap,
                 passing one only shares the trial counter)
    Returns the object-set spec described in the module docstring.
    """
    base = arch_name.split(":")[0]
    hi = addr_hi or default_addr_hi(arch_name)
    n = n_objects or r.choice([1, 2, 2, 3, 3, 4])
    pool = list(STYLE_NAMES[names])
    r.shuffle(pool)
    sec_names = pool[: r.randrange(2, 6)]
    objects = []
    defined = {}
    gcount = 0
    # 1. sections, local and global definitions
    for oi in range(n):
        k = r.randrange(1, max_sections + 1)
        mine = r.sample(sec_names, min(k, len(sec_names)))
        sections = []
        for name in mine:
            size = _pick_size(r, max_size, allow_empty)
            data = bytearray(r.randbytes(size))
            if r.random() < 0.15:  # zero runs look like padding
                for j in range(len(data)):
                    if r.random() < 0.7:
                        data[j] = 0
            sections.append({"name": name, "alignment": _pick_alignment(r), "data": _hex(data), "address": 0})
        symbols = []
        ids = list(range(40)) if not sparse_ids or r.random() < 0.6 else r.sample(range(0, 5000), 40)
        if sparse_ids and r.random() < 0.3:
            r.shuffle(ids)
        nid = iter(ids)
        for _ in range(r.choice([0, 1, 1, 2, 3, 4])):
            sec = r.choice(sections)
            symbols.append(_gen_symbol(r, next(nid), r.choice(LOCAL_NAMES), "local", sec, odd_typs, huge))
        for _ in range(r.choice([0, 1, 1, 2, 2, 3])):
            sec = r.choice(sections)
            gname = "g%d_%s" % (gcount, r.choice(["f", "v", "tab", "x"]))
            gcount += 1
            defined[gname] = oi
            symbols.append(_gen_symbol(r, next(nid), gname, "global", sec, odd_typs, huge))
        r.shuffle(symbols)
        objects.append({"arch": arch_name, "sections": sections, "symbols": symbols, "relocations": [],
                        "images": [], "entry": None, "debug": None, "_ids": [i for i in nid]})
    # 2. references between objects, undefined names, duplicate definition
    missing = ["missing%d" % i for i in range(undefined)]
    for oi, ob in enumerate(objects):
        others = [g for g, d in sorted(defined.items()) if d != oi]
        refs = r.sample(others, min(len(others), r.choice([0, 1, 1, 2, 3])))
        for g in refs:
            ob["symbols"].append({"id": ob["_ids"].pop(0), "name": g, "binding": "global", "value": None,
                                  "section": None, "typ": r.choice(["func", "object"]), "size": 0})
    for m in missing:
        ob = r.choice(objects)
        ob["symbols"].append({"id": ob["_ids"].pop(0), "name": m, "binding": "global", "value": None,
                              "section": None, "typ": r.choice(["func", "object"]), "size": 0})
    dup = None
    if duplicate:
        if not defined:  # make sure there is something to duplicate
            ob = objects[0]
            sec = ob["sections"][0]
            ob["symbols"].append(_gen_symbol(r, ob["_ids"].pop(0), "g_dup", "global", sec, False, False))
            defined["g_dup"] = 0
        dup = r.choice(sorted(defined))
        if len(objects) == 1:
            objects.append({"arch": arch_name, "sections": [dict(objects[0]["sections"][0])], "symbols": [],
                            "relocations": [], "images": [], "entry": None, "debug": None,
                            "_ids": list(range(40))})
        cands = [i for i in range(len(objects)) if i != defined[dup]]
        ob = objects[r.choice(cands)]
        ob["symbols"] = [s for s in ob["symbols"] if s["name"] != dup]  # drop its reference, if any
        ob["symbols"].append(_gen_symbol(r, ob["_ids"].pop(0), dup, "global", r.choice(ob["sections"]), False, False))
    # 3. relocations
    if relocs:
        flt = reloc_filter or RelocFilter(arch_name, hi)
        sizes = reloc_sizes(arch_name)
        if relocs == "data":
            sizes = {k: v for k, v in sizes.items() if k in DATA_RELOCS}
        for ob in objects:
            _gen_relocations(r, ob, sizes, flt, max_relocs, base)
    # 4. debug info
    for ob in objects:
        if debug:
            ob["debug"] = gen_debug(r, ob)
        del ob["_ids"]
    return {"arch": arch_name, "objects": objects, "section_names": sec_names, "addr_hi": hi,
            "defined": defined, "undefined": missing, "duplicate": dup}


def _gen_symbol(r, sid, name, binding, sec, odd_typs, huge):
    size = len(sec["data"]) // 2
    value = r.choice([0, size, r.randrange(size + 1), r.randrange(size + 1)])
    typ = r.choice(["func", "object"])
    if odd_typs and r.random() < 0.3:
        typ = r.choice(["notype", "section", "", "Func", "tls"])
    ssize = r.choice([0, 0, 1, 4, r.randrange(0, 300)])
    if huge and r.random() < 0.4:
        value = r.choice([2 ** 32, 2 ** 63, 2 ** 64 + 5, 2 ** 100 + r.randrange(1000), 0xFFFFFFFFFFFFFFFF])
        ssize = r.choice([ssize, 2 ** 40, 2 ** 70])
    return {"id": sid, "name": name, "binding": binding, "value": value, "section": sec["name"],
            "typ": typ, "size": ssize}


def _gen_relocations(r, ob, sizes, flt, max_relocs, base):
    if not sizes:
        return
    secs = [s for s in ob["sections"] if len(s["data"]) >= 2]
    if not secs or not ob["symbols"]:
        return
    types = sorted(sizes)
    taken = {}
    want = r.choice([0, 1, 2, 3, max_relocs])
    tries = 0
    while want > 0 and tries < 12 * max_relocs:
        tries += 1
        sec = r.choice(secs)
        data = binascii.unhexlify(sec["data"])
        typ = r.choice(types) if r.random() < 0.75 else r.choice([t for t in types if t in DATA_RELOCS] or types)
        n = sizes[typ]
        if n == 0 or n > len(data):
            continue
        step = r.choice([1, 2, 4, 4, 4, 8]) if n > 1 else 1
        slots = list(range(0, len(data) - n + 1, step))
        if not slots:
            continue
        off = r.choice([0, slots[-1], r.choice(slots), r.choice(slots)])
        if off not in slots:
            continue
        spans = taken.setdefault(sec["name"], [])
        if any(off < e and b < off + n for b, e in spans):
            continue
        sym = r.choice(ob["symbols"])
        addend = r.choice([0, 0, 0, 4, -4, 1, -1, r.randrange(-64, 64)])
        if sym["value"] is not None and sym["section"] == sec["name"]:
            target = sym["value"]
        else:
            target = None
        site = data[off:off + n]
        if not flt.ok(typ, site, off, sec["alignment"], len(data), target, addend):
            if addend and flt.ok(typ, site, off, sec["alignment"], len(data), target, 0):
                addend = 0
            else:
                continue
        spans.append((off, off + n))
        ob["relocations"].append({"type": typ, "symbol_id": sym["id"], "section": sec["name"],
                                  "offset": off, "addend": addend})
        want -= 1


# --------------------------------------------------------------------------
# debug info


def gen_debug(r, ob, encodings=(1,), pointer_first=0.0):
    """Random DebugSpec referring to the symbol ids of object spec ``ob``.

    Types: base, struct (possibly recursive through a pointer), pointer, array;
    every type that is referred to is listed, structs before the pointers that
    close a cycle.  Addresses: fixed (symbol id), fp-relative (offset, size),
    unknown.  ``encodings``: values used for DebugBaseType.encoding.
    ``pointer_first``: probability that the pointer closing a struct cycle is
    listed *before* its struct.
    """
    types = []
    for name, size in r.sample([("int", 4), ("char", 1), ("long", 8), ("double", 8), ("void", 0), ("short", 2)],
                               r.randrange(1, 5)):
        types.append({"kind": "base", "name": name, "size": size, "encoding": r.choice(list(encodings))})
    for _ in range(r.randrange(0, 5)):
        kind = r.choice(["struct", "pointer", "array", "struct"])
        if kind == "pointer":
            types.append({"kind": "pointer", "to": r.randrange(len(types))})
        elif kind == "array":
            types.append({"kind": "array", "of": r.randrange(len(types)), "size": r.choice([0, 1, 5, 1000])})
        else:
            me = len(types)
            fields = []
            offset = 0
            for fi in range(r.randrange(0, 4)):
                fields.append(["f%d" % fi, r.randrange(len(types)), offset])
                offset += r.choice([1, 2, 4, 8])
            if r.random() < pointer_first:  # pointer listed first, then struct S { ...; struct S *next; }
                types.append({"kind": "pointer", "to": me + 1})
                fields.append(["next", me, offset])
                types.append({"kind": "struct", "fields": fields})
                continue
            types.append({"kind": "struct", "fields": fields})
            if r.random() < 0.5:  # struct S { ...; struct S *next; }
                types.append({"kind": "pointer", "to": me})
                fields.append(["next", me + 1, offset])
    sids = [s["id"] for s in ob["symbols"]]

    def fixed():
        return ["fixed", r.choice(sids)] if sids else ["unknown"]

    def loc():
        return [r.choice(["a.c", "dir/b.c3", None, "ü.c"]), r.randrange(1, 5000), r.randrange(1, 200),
                r.randrange(0, 40)]

    def addr(allow_fp=True):
        k = r.random()
        if k < 0.45 and sids:
            return ["fixed", r.choice(sids)]
        if k < 0.8 and allow_fp:
            return ["fprel", r.randrange(-300, 300), r.choice([1, 2, 4, 8, 5, 16])]
        return ["unknown"]

    def var():
        return {"name": r.choice(["x", "y", "buf", "p", "i"]), "type": r.randrange(len(types)), "loc": loc(),
                "address": addr()}

    locations = [{"loc": loc(), "address": fixed()} for _ in range(r.randrange(0, 6))]
    variables = [var() for _ in range(r.randrange(0, 4))]
    functions = []
    for fi in range(r.randrange(0, 3)):
        functions.append({"name": "fn%d" % fi, "loc": loc(), "return_type": r.randrange(len(types)),
                          "arguments": [["a%d" % k, r.randrange(len(types))] for k in range(r.randrange(0, 4))],
                          "begin": fixed(), "end": fixed(),
                          "variables": [var() for _ in range(r.randrange(0, 3))]})
    return {"types": types, "locations": locations, "variables": variables, "functions": functions}


def build_debug(dspec):
    from ppci.binutils import debuginfo as di
    from ppci.common import SourceLocation
    from ppci.arch.stack import StackLocation

    types = [None] * len(dspec["types"])

    def get(i):
        if types[i] is not None:
            return types[i]
        t = dspec["types"][i]
        if t["kind"] == "base":
            types[i] = di.DebugBaseType(t["name"], t["size"], t["encoding"])
        elif t["kind"] == "struct":
            types[i] = st = di.DebugStructType()
            for name, ti, offset in t["fields"]:
                st.add_field(name, get(ti), offset)
        elif t["kind"] == "pointer":
            types[i] = di.DebugPointerType(get(t["to"]))
        else:
            types[i] = di.DebugArrayType(get(t["of"]), t["size"])
        return types[i]

    def loc(x):
        return SourceLocation(x[0], x[1], x[2], x[3])

    def addr(a):
        if a[0] == "fixed":
            return di.DebugAddress(a[1])
        if a[0] == "fprel":
            return di.FpOffsetAddress(StackLocation(a[1], a[2]))
        return di.UnknownAddress()

    def var(v):
        return di.DebugVariable(v["name"], get(v["type"]), loc(v["loc"]), address=addr(v["address"]))

    # structs first so that a pointer closing a cycle finds its struct under construction
    for i, t in enumerate(dspec["types"]):
        if t["kind"] == "struct":
            get(i)
    dbg = di.DebugInfo()
    for i in range(len(types)):
        dbg.add(get(i))
    for x in dspec["locations"]:
        dbg.add(di.DebugLocation(loc(x["loc"]), address=addr(x["address"])))
    for v in dspec["variables"]:
        dbg.add(var(v))
    for f in dspec["functions"]:
        args = [di.DebugParameter(n, get(t)) for n, t in f["arguments"]]
        dbg.add(di.DebugFunction(f["name"], loc(f["loc"]), get(f["return_type"]), args, begin=addr(f["begin"]),
                                 end=addr(f["end"]), variables=[var(v) for v in f["variables"]]))
    return dbg


# --------------------------------------------------------------------------
# spec <-> ppci objects


def build_object(spec):
    """ObjectFile from an object spec."""
    from ppci.binutils.objectfile import ObjectFile, Section, Image, RelocationEntry

    obj = ObjectFile(get_arch(spec["arch"]))
    for s in spec["sections"]:
        sec = Section(s["name"])
        sec.alignment = s["alignment"]
        sec.address = s.get("address", 0)
        sec.data = bytearray(binascii.unhexlify(s["data"]))
        obj.add_section(sec)
    for s in spec["symbols"]:
        obj.add_symbol(s["id"], s["name"], s["binding"], s["value"], s["section"], s["typ"], s["size"])
    for x in spec["relocations"]:
        obj.add_relocation(RelocationEntry(x["type"], x["symbol_id"], x["section"], x["offset"], x["addend"]))
    for im in spec.get("images", []):
        image = Image(im["name"], im["address"])
        for name in im["sections"]:
            image.add_section(obj.get_section(name))
        obj.add_image(image)
    obj.entry_symbol_id = spec.get("entry")
    if spec.get("debug"):
        obj.debug_info = build_debug(spec["debug"])
    return obj


def obj_to_spec(obj):
    """Object spec of an existing ObjectFile (debug info is not converted)."""
    return {
        "arch": obj.arch.make_id_str(),
        "sections": [{"name": s.name, "alignment": s.alignment, "data": _hex(s.data), "address": s.address}
                     for s in obj.sections],
        "symbols": [{"id": s.id, "name": s.name, "binding": s.binding, "value": s.value, "section": s.section,
                     "typ": s.typ, "size": s.size} for s in obj.symbols],
        "relocations": [{"type": x.reloc_type, "symbol_id": x.symbol_id, "section": x.section,
                         "offset": x.offset, "addend": x.addend} for x in obj.relocations],
        "images": [{"name": im.name, "address": im.address, "sections": [s.name for s in im.sections]}
                   for im in obj.images],
        "entry": obj.entry_symbol_id,
        "debug": None,
    }


def build_archive(specs):
    from ppci.binutils.archive import Archive

    return Archive([build_object(s) for s in specs])


# --------------------------------------------------------------------------
# layouts


def section_bounds(obj_specs):
    """{section name: (sum of sizes, upper bound of the merged size, max alignment)}.

    The upper bound allows every input to be padded up to the largest alignment
    of its name twice (merging directly, or through one level of partial links
    whose outputs carry the maximum alignment of their group).
    """
    acc = {}
    for ob in obj_specs:
        for s in ob["sections"]:
            size = len(s["data"]) // 2
            lo, n, al = acc.get(s["name"], (0, 0, 1))
            acc[s["name"]] = (lo + size, n + 1, max(al, s["alignment"]))
    return {name: (lo, lo + 2 * n * al, al) for name, (lo, n, al) in acc.items()}


def gen_layout(r, obj_specs, fit=True, certain=None, addr_hi=None, addr_lo=0, page_aligned=None,
               define_symbols=(), entry=None, sectiondata=True, aligns=True, phantom=True,
               leave_unplaced=True, max_memories=3, no_sectiondata_of=()):
    """Generate a layout spec for the objects ``obj_specs``.

    fit=True      every memory certainly holds what is put into it
    fit=False     one memory (spec["overfull"]) is certainly too small; ``certain``
                  = the object specs that are certainly part of the link (default
                  all; pass only the non-library objects when archives are used)
    addr_lo/hi    address window for the memories (default 0 .. default hi of arch)
    page_aligned  True: locations multiple of 0x1000; False: never; None: mixed
    define_symbols  names that MUST be defined through DEFINESYMBOL (e.g. names
                  the objects leave undefined); a few fresh ones are added
    entry         name for ENTRY(...) or None
    sectiondata   allow SECTIONDATA(x) inputs (x is always a section placed
                  elsewhere, each at most once); never for names in
                  ``no_sectiondata_of``
    aligns        allow ALIGN(k) inputs (k also non powers of two)
    phantom       allow SECTION(x) for a name no object has (created empty)
    leave_unplaced  allow sections that no memory mentions (they stay at 0)
    Section names are used verbatim; use layout_text() only with "id" names.
    """
    arch_name = obj_specs[0]["arch"]
    hi = addr_hi or default_addr_hi(arch_name)
    bounds = section_bounds(obj_specs)
    names = sorted(bounds)
    r.shuffle(names)
    placed = [n for n in names if not (leave_unplaced and r.random() < 0.15)]
    if not placed:
        placed = names[:1]
    nm = r.randrange(1, max_memories + 1)
    mems = [{"name": n, "inputs": []} for n in r.sample(["flash", "ram", "rom", "code", "data", "M3"], nm)]
    for n in placed:
        r.choice(mems)["inputs"].append(["section", n])
    if phantom and r.random() < 0.2:
        r.choice(mems)["inputs"].append(["section", "phantom_%d" % r.randrange(3)])
    cb = section_bounds(certain if certain is not None else obj_specs)
    if sectiondata:
        for n in placed:
            if n in no_sectiondata_of or n.startswith("_$") or n not in cb:
                continue  # the source section must certainly exist
            if r.random() < 0.2:
                r.choice(mems)["inputs"].append(["sectiondata", n])
    syms = list(define_symbols)
    for k in range(r.choice([0, 0, 1, 2])):
        syms.append("lay_sym%d" % k)
    for s in syms:
        r.choice(mems)["inputs"].append(["symbol", s])
    for m in mems:
        r.shuffle(m["inputs"])
        if aligns:
            for _ in range(r.choice([0, 0, 1, 2])):
                k = r.choice([1, 2, 4, 8, 16, 64, 256, 4096 if hi > 0x10000 else 128, 3, 6, 10, 24])
                m["inputs"].insert(r.randrange(len(m["inputs"]) + 1), ["align", k])
    # sizes: upper bound of what each memory can need
    for m in mems:
        ub = 0
        lo = 0
        for kind, arg in m["inputs"]:
            if kind == "section":  # generous: any sane padding policy fits
                _, sub, al = bounds.get(arg, (0, 0, 1))
                ub += sub + 2 * al + 16
            elif kind == "sectiondata":
                ub += bounds[arg][1]
            elif kind == "align":
                ub += arg - 1
        m["_ub"] = ub
    # certain lower bound per memory: real SECTION inputs of certain objects (cb)
    overfull = None
    if not fit:
        cands = [m for m in mems if sum(cb.get(a, (0,))[0] for k, a in m["inputs"] if k == "section") > 0]
        if not cands:  # force one: put the biggest certain section somewhere
            big = max(cb, key=lambda n: cb[n][0])
            if cb[big][0] == 0:
                raise ValueError("no non-empty section to overflow with")
            for m in mems:
                m["inputs"] = [i for i in m["inputs"] if i != ["section", big]]
            mems[0]["inputs"].append(["section", big])
            mems[0]["_ub"] += bounds[big][1] + 2 * bounds[big][2] + 16
            cands = [mems[0]]
        overfull = r.choice(cands)
    # locations: disjoint windows
    cursor = addr_lo
    room = hi - addr_lo
    total = sum(m["_ub"] + 64 for m in mems)
    for i, m in enumerate(mems):
        slack = r.choice([0, 0, 1, 7, 100, 0x1000])
        gap_room = max(0, (room - total) // (len(mems) + 1) - 0x2000)
        gap = r.choice([0, 3, 0x100, r.randrange(0, gap_room + 1), r.randrange(0, gap_room + 1)]) if gap_room else 0
        loc = cursor + gap
        pa = page_aligned if page_aligned is not None else (r.random() < 0.5)
        if pa:
            loc = (loc + 0xFFF) // 0x1000 * 0x1000
        elif page_aligned is False and loc % 0x1000 == 0:
            loc += r.choice([1, 4, 0x10, 0x234, 0x800])
        size = m["_ub"] + slack
        if m is overfull:
            lower = sum(cb.get(a, (0,))[0] for k, a in m["inputs"] if k == "section")
            size = r.choice([0, lower - 1, r.randrange(0, lower), max(0, lower // 2)])
        m["location"] = loc
        m["size"] = size
        cursor = loc + max(size, m["_ub"]) + 16
        del m["_ub"]
    if cursor > hi:
        raise ValueError("address window too small for layout: %#x > %#x" % (cursor, hi))
    mems = [m for m in mems if m["inputs"]] or mems[:1]
    for m in mems:
        if not m["inputs"]:
            m["inputs"].append(["align", 4])
    return {"memories": mems, "entry": entry, "fit": bool(fit), "overfull": overfull["name"] if overfull else None}


def build_layout(lspec):
    """ppci Layout object from a layout spec (no text parsing involved)."""
    from ppci.binutils import layout as L

    lay = L.Layout()
    for m in lspec["memories"]:
        mem = L.Memory(m["name"])
        mem.location = m["location"]
        mem.size = m["size"]
        for kind, arg in m["inputs"]:
            if kind == "section":
                mem.add_input(L.Section(arg))
            elif kind == "sectiondata":
                mem.add_input(L.SectionData(arg))
            elif kind == "align":
                mem.add_input(L.Align(arg))
            elif kind == "symbol":
                mem.add_input(L.SymbolDefinition(arg))
            else:
                raise ValueError(kind)
        lay.add_memory(mem)
    if lspec.get("entry"):
        lay.entry = L.EntrySymbol(lspec["entry"])
    return lay


def layout_text(lspec, r=None):
    """Layout file text (for Layout.load); names must be identifiers."""
    def num(v):
        return hex(v) if (r is None or r.random() < 0.7) else str(v)

    kw = {"section": "SECTION", "sectiondata": "SECTIONDATA", "align": "ALIGN", "symbol": "DEFINESYMBOL"}
    out = []
    if lspec.get("entry") and (r is None or r.random() < 0.5):
        out.append("ENTRY(%s)" % lspec["entry"])
    for m in lspec["memories"]:
        out.append("MEMORY %s LOCATION=%s SIZE=%s {" % (m["name"], num(m["location"]), num(m["size"])))
        for kind, arg in m["inputs"]:
            out.append("  %s(%s)" % (kw[kind], num(arg) if kind == "align" else arg))
        out.append("}")
    if lspec.get("entry") and not out[0].startswith("ENTRY"):
        out.append("ENTRY(%s)" % lspec["entry"])
    return "\n".join(out) + "\n"


def text_safe(lspec):
    """True if every name of the layout spec is an identifier of the layout syntax."""
    import re

    ident = re.compile(r"[_A-Za-z][_A-Za-z0-9]*\Z")
    kws = {"MEMORY", "ALIGN", "ENTRY", "LOCATION", "SECTION", "SECTIONDATA", "SIZE", "DEFINESYMBOL"}
    names = [m["name"] for m in lspec["memories"]]
    names += [a for m in lspec["memories"] for k, a in m["inputs"] if k != "align"]
    if lspec.get("entry"):
        names.append(lspec["entry"])
    return all(ident.match(n) and n not in kws for n in names)
