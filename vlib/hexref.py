"""Independent readers for Intel HEX and Motorola S-record files (C18, C19).

Written from the format definitions, not from ppci:

* Intel "Hexadecimal Object File Format Specification" rev. A (1988):
  record = ':' LL AAAA TT DD.. CC, all fields two hex digits per byte,
  LL = number of data bytes, CC = two's complement of the sum of all preceding
  bytes (so the sum of all bytes of the record is 0 mod 256).
  TT 00 data, 01 end of file (LL=0), 02 extended segment address (LL=2,
  AAAA=0, USBA = bits 4..19), 03 start segment address (LL=4, CS:IP),
  04 extended linear address (LL=2, AAAA=0, ULBA = bits 16..31),
  05 start linear address (LL=4, EIP).
  Absolute address of data byte i of a data record:
    after 04:  (LBA + AAAA + i) mod 2^32           (linear, may cross 64 KiB)
    after 02:  SBA + ((AAAA + i) mod 2^16)         (segmented, wraps in segment)
* Motorola S-record (M68000 Family Programmer's Reference / unix srec(5)):
  record = 'S' T CC AAAA[AA[AA]] DD.. KK; CC = number of bytes that follow
  (address + data + checksum), KK = one's complement of the low byte of the sum
  of count, address and data bytes.  T: 0 header (16-bit address 0), 1/2/3 data
  with 16/24/32-bit address, 4 reserved, 5/6 record count (16/24 bit),
  7/8/9 start address, terminating a block of S3/S2/S1 records.

Second oracle: GNU BFD through ``objdump -s -f -b ihex|srec`` (rejects wrong
checksums and malformed records); :func:`objdump_read` runs it on a batch of
files and parses the hex dump by column position.

Nothing here imports ppci.
"""
import os
import re
import shutil
import subprocess

M32 = 1 << 32
HEXDIGITS = set("0123456789abcdefABCDEF")


# ---------------------------------------------------------------------------
# region algebra (the "expected" side)


def merge_regions(regions):
    """[(addr, bytes)] -> (sorted list with adjacent regions merged, overlap_found)."""
    out = []
    overlap = False
    for addr, data in sorted((a, bytes(d)) for a, d in regions if len(d)):
        if out:
            end = out[-1][0] + len(out[-1][1])
            if end == addr:
                out[-1][1].extend(data)
                continue
            if end > addr:
                overlap = True
        out.append([addr, bytearray(data)])
    return [(a, bytes(d)) for a, d in out], overlap


def first_difference(want, got):
    """Describe the first difference of two merged region lists, or None."""
    if want == got:
        return None
    for i in range(max(len(want), len(got))):
        if i >= len(want):
            return "extra region at %#x (%d bytes)" % (got[i][0], len(got[i][1]))
        if i >= len(got):
            return "missing region at %#x (%d bytes)" % (want[i][0], len(want[i][1]))
        (wa, wd), (ga, gd) = want[i], got[i]
        if wa != ga:
            return "region %d starts at %#x, expected %#x" % (i, ga, wa)
        if wd != gd:
            n = min(len(wd), len(gd))
            for k in range(n):
                if wd[k] != gd[k]:
                    return "byte at %#x is %#04x, expected %#04x" % (wa + k, gd[k], wd[k])
            return "region at %#x has %d bytes, expected %d" % (wa, len(gd), len(wd))
    return "regions differ"


# ---------------------------------------------------------------------------
# Intel HEX


def ihex_record(typ, addr16, data):
    """Reference encoder of one record (upper-case hex)."""
    body = bytes([len(data), (addr16 >> 8) & 0xFF, addr16 & 0xFF, typ]) + bytes(data)
    return ":" + (body + bytes([(-sum(body)) & 0xFF])).hex().upper()


def ihex_read(text):
    """Decode an Intel HEX text.

    Returns dict: chunks [(absolute address, bytes)] in file order, start
    (linear start address or None), start_segment ((cs, ip) or None),
    problems [str] (every deviation from the specification), records
    {type: count}, straddle (data records crossing a 64 KiB boundary),
    lowercase (records using lower-case digits).
    """
    res = {"chunks": [], "start": None, "start_segment": None, "problems": [], "records": {},
           "straddle": 0, "lowercase": 0, "ext_values": []}
    prob = res["problems"]
    mode, base = "linear", 0
    eof_seen = False
    lineno = 0
    for raw in text.split("\n"):
        lineno += 1
        line = raw.rstrip("\r")
        if line == "":
            continue
        if eof_seen:
            prob.append("line %d: record after the end-of-file record" % lineno)
        if line[0] != ":":
            prob.append("line %d: does not start with ':'" % lineno)
            continue
        body = line[1:]
        if len(body) % 2 or not body or set(body) - HEXDIGITS:
            prob.append("line %d: not an even number of hex digits" % lineno)
            continue
        if body != body.upper():
            res["lowercase"] += 1
        b = bytes.fromhex(body)
        if len(b) < 5:
            prob.append("line %d: record shorter than 5 bytes" % lineno)
            continue
        ll, addr, typ, data, cc = b[0], (b[1] << 8) | b[2], b[3], b[4:-1], b[-1]
        if ll != len(data):
            prob.append("line %d: byte count field %d but %d data bytes" % (lineno, ll, len(data)))
            continue
        if sum(b) & 0xFF:
            prob.append("line %d: checksum %#04x, expected %#04x" % (lineno, cc, (-sum(b[:-1])) & 0xFF))
            continue
        res["records"][str(typ)] = res["records"].get(str(typ), 0) + 1
        if typ == 0:
            if ll == 0:
                prob.append("line %d: data record without data" % lineno)
            if addr + ll > 0x10000:
                res["straddle"] += 1
            if mode == "linear":
                res["chunks"].append(((base + addr) % M32, data))
                if (base + addr) % M32 + ll > M32:
                    prob.append("line %d: data record wraps around 4 GiB" % lineno)
            else:  # segmented: offset wraps inside the segment
                first = min(ll, 0x10000 - addr)
                res["chunks"].append((base + addr, data[:first]))
                if first < ll:
                    res["chunks"].append((base, data[first:]))
        elif typ == 1:
            if ll != 0:
                prob.append("line %d: end-of-file record carries data" % lineno)
            eof_seen = True
        elif typ == 2:
            if ll != 2 or addr != 0:
                prob.append("line %d: malformed extended segment address record" % lineno)
                continue
            mode, base = "segment", ((data[0] << 8) | data[1]) << 4
        elif typ == 4:
            if ll != 2 or addr != 0:
                prob.append("line %d: malformed extended linear address record" % lineno)
                continue
            mode, base = "linear", ((data[0] << 8) | data[1]) << 16
            res["ext_values"].append(base)
        elif typ == 3:
            if ll != 4 or addr != 0:
                prob.append("line %d: malformed start segment address record" % lineno)
                continue
            res["start_segment"] = ((data[0] << 8) | data[1], (data[2] << 8) | data[3])
        elif typ == 5:
            if ll != 4 or addr != 0:
                prob.append("line %d: malformed start linear address record" % lineno)
                continue
            if res["start"] is not None:
                prob.append("line %d: second start linear address record" % lineno)
            res["start"] = int.from_bytes(data, "big")
        else:
            prob.append("line %d: unknown record type %d" % (lineno, typ))
    if not eof_seen:
        prob.append("no end-of-file record")
    return res


# ---------------------------------------------------------------------------
# Motorola S-record

SREC_ADDR_BYTES = {0: 2, 1: 2, 2: 3, 3: 4, 5: 2, 6: 3, 7: 4, 8: 3, 9: 2}
SREC_TERMINATOR_OF = {1: 9, 2: 8, 3: 7}


def srec_record(typ, addr, data):
    """Reference encoder of one record (upper-case hex)."""
    n = SREC_ADDR_BYTES[typ]
    body = bytes([n + len(data) + 1]) + addr.to_bytes(n, "big") + bytes(data)
    return "S%d" % typ + (body + bytes([0xFF - (sum(body) & 0xFF)])).hex().upper()


def srec_read(text, skip_lines=0):
    """Decode an S-record text.

    ``skip_lines``: that many leading records are still checked for form,
    count and checksum but their content is not interpreted (see C19's avoid
    switch).  Returns dict: header (bytes or None), chunks [(address, bytes)]
    of the data records in file order, data_types (set of 1/2/3 seen),
    terminator ((type, address) or None), count_records [(type, value)],
    problems [str], records {type: n}, skipped [(type, address, data)].
    """
    res = {"header": None, "chunks": [], "data_types": [], "terminator": None, "count_records": [],
           "problems": [], "records": {}, "skipped": [], "lowercase": 0}
    prob = res["problems"]
    lineno = 0
    nrec = 0
    for raw in text.split("\n"):
        lineno += 1
        line = raw.rstrip("\r")
        if line == "":
            continue
        nrec += 1
        if res["terminator"] is not None:
            prob.append("line %d: record after the termination record" % lineno)
        if len(line) < 2 or line[0] != "S" or line[1] not in "0123456789":
            prob.append("line %d: does not start with S<digit>" % lineno)
            continue
        typ = int(line[1])
        body = line[2:]
        if len(body) % 2 or not body or set(body) - HEXDIGITS:
            prob.append("line %d: not an even number of hex digits" % lineno)
            continue
        if body != body.upper():
            res["lowercase"] += 1
        b = bytes.fromhex(body)
        if typ not in SREC_ADDR_BYTES:
            prob.append("line %d: reserved record type S%d" % (lineno, typ))
            continue
        n = SREC_ADDR_BYTES[typ]
        if b[0] != len(b) - 1:
            prob.append("line %d: count field %d but %d bytes follow" % (lineno, b[0], len(b) - 1))
            continue
        if len(b) < 1 + n + 1:
            prob.append("line %d: S%d record too short for its address field" % (lineno, typ))
            continue
        if (sum(b[:-1]) + b[-1]) & 0xFF != 0xFF:
            prob.append("line %d: checksum %#04x, expected %#04x" % (lineno, b[-1], 0xFF - (sum(b[:-1]) & 0xFF)))
            continue
        addr = int.from_bytes(b[1:1 + n], "big")
        data = b[1 + n:-1]
        res["records"]["S%d" % typ] = res["records"].get("S%d" % typ, 0) + 1
        if nrec <= skip_lines:
            res["skipped"].append((typ, addr, data))
            continue
        if typ == 0:
            if res["header"] is not None:
                prob.append("line %d: second header record" % lineno)
            if res["chunks"]:
                prob.append("line %d: header record after data records" % lineno)
            if addr != 0:
                prob.append("line %d: header record with address %#x" % (lineno, addr))
            res["header"] = data
        elif typ in (1, 2, 3):
            if typ not in res["data_types"]:
                res["data_types"].append(typ)
            if addr + len(data) > 1 << (8 * n):
                prob.append("line %d: data record runs past the end of its %d-bit address space" % (lineno, 8 * n))
            res["chunks"].append((addr, data))
        elif typ in (5, 6):
            if data:
                prob.append("line %d: count record carries data" % lineno)
            res["count_records"].append((typ, addr))
            if addr != len(res["chunks"]):
                prob.append("line %d: count record says %d data records, %d seen" % (lineno, addr, len(res["chunks"])))
        else:  # 7, 8, 9
            if data:
                prob.append("line %d: termination record carries data" % lineno)
            res["terminator"] = (typ, addr)
    return res


# ---------------------------------------------------------------------------
# GNU objdump as a reader

_FILE_RE = re.compile(r"^(.*):\s+file format (\S+)\s*$")
_START_RE = re.compile(r"^start address 0x([0-9a-fA-F]+)\s*$")
_DUMP_RE = re.compile(r"^ ([0-9a-f]+) (.{35})  ")


def have_objdump():
    return shutil.which("objdump")


def objdump_version():
    try:
        out = subprocess.run(["objdump", "--version"], capture_output=True, text=True, timeout=30).stdout
        return out.splitlines()[0].strip()
    except Exception as e:  # noqa
        return "unavailable (%s)" % type(e).__name__


def objdump_parse(stdout):
    """Parse ``objdump -s -f`` output of one or more files.

    -> {file name: {"sections": [(address, bytes)], "start": int or None}}
    The hex area of a dump line is 4 groups of 8 digits, each followed by one
    blank (35 columns without the last blank); it is taken by position so the
    ASCII column can never be mistaken for data.
    """
    files = {}
    cur = None
    sec = None
    for line in stdout.split("\n"):
        m = _FILE_RE.match(line)
        if m and not line.startswith(" "):
            cur = files.setdefault(m.group(1), {"sections": [], "start": None, "format": m.group(2)})
            sec = None
            continue
        if cur is None:
            continue
        m = _START_RE.match(line)
        if m:
            cur["start"] = int(m.group(1), 16)
            continue
        if line.startswith("Contents of section "):
            sec = [None, bytearray()]
            cur["sections"].append(sec)
            continue
        m = _DUMP_RE.match(line)
        if m and sec is not None:
            addr = int(m.group(1), 16)
            data = bytes.fromhex(m.group(2).replace(" ", ""))
            if sec[0] is None:
                sec[0] = addr
            elif sec[0] + len(sec[1]) != addr:
                # cannot happen inside one section; keep it visible
                sec = [addr, bytearray()]
                cur["sections"].append(sec)
            sec[1].extend(data)
    for f in files.values():
        f["sections"] = [(a, bytes(d)) for a, d in f["sections"] if a is not None]
    return files


def objdump_read(fmt, paths, cwd, timeout=600):
    """Run objdump once over ``paths`` (relative to cwd).

    -> ({path: parsed or None when objdump refused the file}, stderr text).
    Raises OSError/subprocess.TimeoutExpired to the caller (inconclusive).
    """
    p = subprocess.run(["objdump", "-s", "-f", "-b", fmt] + list(paths), cwd=cwd, capture_output=True,
                       text=True, errors="replace", timeout=timeout, stdin=subprocess.DEVNULL,
                       env=dict(os.environ, LC_ALL="C", LANG="C"))
    parsed = objdump_parse(p.stdout)
    return {path: parsed.get(path) for path in paths}, p.stderr
