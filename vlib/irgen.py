"""Seeded generator of well-formed ppci IR modules (DESIGN 2.4 'irgen.py').

Two shapes:
  * ``ssa``  structured control flow built directly in SSA form: phis at
    if-joins, loop headers, loop exits (breaks) and latches (continues),
    critical edges, do-while loops, early returns, fuel-bounded loops;
  * ``mem``  arbitrary (also irreducible) CFGs in memory form: values live in
    stack slots, every block is guarded by a fuel counter so every run
    terminates; this is what mem2reg has to turn into phis.

gen_module(r, cfg) -> (module, info)   info: {"tags": [...], "functions": {name: [param ty names]}}
gen_args(r, module, fname, n) -> list of argument vectors (boundary biased)

cfg keys (all optional): types (names), ptr_size, n_funcs, size, shape,
float (bool), calls (bool), externals (bool), globals (bool), blobs (bool),
fptr (bool), undefined (bool: sprinkle dead ``undefined`` values),
volatile (bool), init_globals (bool), features to avoid: no_ops (set of binop names).

Kind coverage (C15/C16; all off by default, no random draw is made for them
unless switched on, so every older cfg generates exactly what it did before):
  kinds (bool)       sprinkle "kind" statements: constants of every class
                     (0, +-1, min, max, > 2^63, out-of-range, tiny / huge /
                     negative / exponent-notation floats, inf, nan, -0.0, ptr
                     constants), literal data, a *used* ``undefined``, loads
                     from an external variable, a global initialised by a
                     tuple of bytes and pointer relocations (data pointer and
                     function pointer, both loaded and used), a never-called
                     procedure holding inline assembly, forced rol/ror, unary
                     operators, volatile accesses and memcpy when their own
                     dials are on;
  kinds_off (names)  kind statements to leave out: "float-exp", "float-inf",
                     "float-nan", "literal", "undefined-used", "extern-var",
                     "reloc-global", "inline-asm", "const-out-of-range",
                     "unop~";
  blob_params (bool) add helper subroutines hbA/hbB/hbC (and, with externals,
                     ext_blobs) whose parameters are blob types of EQUAL SIZE
                     and DIFFERENT ALIGNMENT (blob<8:4> and blob<8:1> ...), as
                     the C front-end produces for structs passed by value;
                     "blob-call" kind statements call them with initialised
                     allocs of exactly those types (needs kinds);
  rpo (bool)         list the blocks of every function in reverse post-order,
                     so that no non-phi operand is defined textually after
                     its use.
"""
from ppci import ir

INT_TYPES = ["i8", "u8", "i16", "u16", "i32", "u32", "i64", "u64"]
CONDS = ["==", "!=", "<", ">", "<=", ">="]


def T(name):
    return ir.ptr if name == "ptr" else ir.get_ty(name)


def int_range(ty):
    if ty.signed:
        return -(1 << (ty.bits - 1)), (1 << (ty.bits - 1)) - 1
    return 0, (1 << ty.bits) - 1


def boundary_int(r, ty):
    lo, hi = int_range(ty)
    k = r.random()
    if k < 0.35:
        return r.choice([0, 1, 2, 3, 5, 7, 8, 10, 16, 31, 32, 63, 64, 100, 127])  % (hi + 1)
    if k < 0.55:
        return r.choice([lo, lo + 1, hi, hi - 1, hi // 2, hi // 2 + 1, -1 if lo < 0 else hi, -2 if lo < 0 else hi - 2])
    if k < 0.7 and lo < 0:
        return -r.choice([1, 2, 3, 7, 8, 100, 128])  if lo <= -128 else -1
    if k < 0.8:
        b = r.randrange(ty.bits)
        v = (1 << b) + r.choice([-1, 0, 1])
        if lo <= v <= hi:
            return v
    return r.randint(lo, hi)


class Cfg(dict):
    def __getattr__(self, k):
        return self[k]


def norm_cfg(cfg):
    c = Cfg(types=INT_TYPES + ["f32", "f64"], ptr_size=8, n_funcs=3, size=14, shape="ssa", float=True,
            calls=True, externals=True, globals=True, blobs=True, fptr=True, undefined=False,
            volatile=False, init_globals=True, no_ops=(), rotates=False, tailcall=True,
            float_to_int=True, ptr_compare=True, unops=True, unsafe=False, kinds=False, kinds_off=(), rpo=False, blob_params=False)
    c.update(cfg or {})
    c["types"] = [t for t in c["types"] if c["float"] or not t.startswith("f")]
    return c


class ModGen:
    def __init__(self, r, cfg):
        self.r = r
        self.cfg = norm_cfg(cfg)
        self.tags = set()
        self.m = ir.Module("gen")
        self.int_types = [T(t) for t in self.cfg.types if not t.startswith("f")]
        self.float_types = [T(t) for t in self.cfg.types if t.startswith("f")]
        self.val_types = self.int_types + self.float_types
        self.funcs = []      # (ir function, param types, ret ty or None, pure?)
        self.globals = []    # (variable, [(offset, ty)] typed cells)
        self.ext_p = self.ext_f = None
        self.ext_v = None
        self.blob_helpers = []   # (subroutine or external, [param types], ret ty or None)
        self.reloc = None    # (variable, offset of data pointer, (target variable, cells), offset of function pointer)

    def koff(self, name):
        return name in self.cfg.kinds_off

    def build(self):
        r, cfg = self.r, self.cfg
        if cfg.externals:
            aty = r.choice(self.int_types)
            self.ext_p = ir.ExternalProcedure("ext_report", [aty])
            self.m.add_external(self.ext_p)
            bty = r.choice(self.int_types)
            rty = r.choice(self.int_types)
            self.ext_f = ir.ExternalFunction("ext_get", [bty], rty)
            self.m.add_external(self.ext_f)
        if cfg.kinds and not self.koff("extern-var"):
            self.ext_v = ir.ExternalVariable("ext_v")
            self.m.add_external(self.ext_v)
        if cfg.globals:
            for gi in range(r.randint(1, 3)):
                self.add_global(gi)
            if cfg.kinds and cfg.init_globals and not self.koff("reloc-global"):
                self.add_reloc_global()
        if cfg.kinds and cfg.blob_params:
            self.add_blob_helpers()
        n = r.randint(1, cfg.n_funcs)
        for fi in range(n):
            last = fi == n - 1
            FuncGen(self, fi, last).build()
        if cfg.kinds and not self.koff("inline-asm") and r.random() < 0.5:
            self.add_asm_procedure()
        if cfg.rpo:
            for f in self.m.functions:
                rpo_blocks(f)
        info = {"tags": sorted(self.tags),
                "functions": {f.name: [p.ty.name for p in f.arguments] for f, _, _ in self.funcs}}
        return self.m, info

    def add_global(self, gi):
        r = self.r
        cells = []
        off = 0
        data = bytearray()
        for _ in range(r.randint(1, 4)):
            ty = r.choice(self.val_types)
            size = ty.size
            while off % size:
                off += 1
                data.append(0)
            cells.append((off, ty))
            if ty.is_integer:
                v = boundary_int(r, ty)
                data += (v & ((1 << ty.bits) - 1)).to_bytes(size, "little")
            else:
                import struct
                data += struct.pack("<f" if size == 4 else "<d", r.choice([0.0, 1.5, -2.25, 100.0, 0.1]))
            off += size
        amount = off
        align = max(c[1].size for c in cells)
        while amount % align:
            amount += 1
            data.append(0)
        init = bytes(data) if (self.cfg.init_globals and r.random() < 0.7) else None
        if init is not None:
            self.tags.add("initialized-global")
        v = ir.Variable("g%d" % gi, ir.Binding.GLOBAL, amount, align, value=init)
        self.m.add_variable(v)
        self.globals.append((v, cells))


    def add_reloc_global(self):
        """global initialised by (bytes, (ptr, data symbol), (ptr, function symbol), bytes)"""
        ps = self.cfg.ptr_size
        target = self.globals[0]
        head = self.r.choice([b"\x2a", b"\xff\x00\x80\x7f", b"rel"]).ljust(ps, b"\x00")
        value = (head, (ir.ptr, target[0].name), (ir.ptr, "f0"), bytes(range(1, ps + 1)))
        v = ir.Variable("grel", ir.Binding.LOCAL if self.r.random() < 0.3 else ir.Binding.GLOBAL, 4 * ps, ps, value=value)
        self.m.add_variable(v)
        self.reloc = (v, ps, target, 2 * ps)
        self.tags.add("reloc-initialized-global")

    def add_blob_helpers(self):
        """hbA(blob<S:A1>, i32) -> i32, hbB(blob<S:A2>, i32) -> i32, hbC(blob<S:A1>, blob<S:A2>) procedure,
        optionally external ext_blobs(blob<S:A2>, blob<S:A1>): two blob types of one size, two alignments."""
        r = self.r
        size = r.choice([4, 8, 8, 16])
        a1, a2 = r.sample([a for a in (1, 2, 4, 8) if a <= size], 2)
        t1, t2 = ir.BlobDataTyp(size, a1), ir.BlobDataTyp(size, a2)
        wty = T("u32") if T("u32") in self.int_types else self.int_types[0]
        ity = T("i32") if T("i32") in self.int_types else self.int_types[0]
        self.blob_word = wty
        for name, bt in (("hbA", t1), ("hbB", t2)):
            f = ir.Function(name, ir.Binding.LOCAL if r.random() < 0.3 else ir.Binding.GLOBAL, ity)
            self.m.add_function(f)
            p, k = ir.Parameter("box", bt), ir.Parameter("k", ity)
            f.add_parameter(p)
            f.add_parameter(k)
            b = ir.Block(name + "_entry")
            f.add_block(b)
            f.entry = b
            ad = ir.AddressOf(p, "boxp")
            b.add_instruction(ad)
            w = ir.Load(ad, "w", wty)
            b.add_instruction(w)
            c = ir.Cast(w, "wc", ity)
            b.add_instruction(c)
            s = ir.Binop(c, "+", k, "s", ity)
            b.add_instruction(s)
            b.add_instruction(ir.Return(s))
            self.blob_helpers.append((f, [bt, ity], ity))
        f = ir.Procedure("hbC", ir.Binding.GLOBAL)
        self.m.add_function(f)
        p1, p2 = ir.Parameter("first", t1), ir.Parameter("second", t2)
        f.add_parameter(p1)
        f.add_parameter(p2)
        b = ir.Block("hbC_entry")
        f.add_block(b)
        f.entry = b
        if self.globals:
            g, cells = self.globals[0]
            cands = [c for c in cells if c[1] is wty]
            if cands:
                ad = ir.AddressOf(p2, "secondp")
                b.add_instruction(ad)
                w = ir.Load(ad, "w", wty)
                b.add_instruction(w)
                go = ir.Const(cands[0][0], "go", ir.ptr)
                b.add_instruction(go)
                ga = ir.Binop(g, "+", go, "ga", ir.ptr)
                b.add_instruction(ga)
                b.add_instruction(ir.Store(w, ga))
        b.add_instruction(ir.Exit())
        self.blob_helpers.append((f, [t1, t2], None))
        if self.cfg.externals:
            e = ir.ExternalProcedure("ext_blobs", [t2, t1])
            self.m.add_external(e)
            self.blob_helpers.append((e, [t2, t1], None))
        self.tags.add("blob-params")

    def add_asm_procedure(self):
        """never called (the reference interpreter cannot run inline assembly)"""
        f = ir.Procedure("fasm", ir.Binding.GLOBAL)
        self.m.add_function(f)
        p = ir.Parameter("p0", T("i32") if T("i32") in self.int_types else self.int_types[0])
        f.add_parameter(p)
        b = ir.Block("fasm_entry")
        f.add_block(b)
        f.entry = b
        a = ir.Alloc("asm_al", 4, 4)
        b.add_instruction(a)
        ad = ir.AddressOf(a, "asm_ad")
        b.add_instruction(ad)
        asm = ir.InlineAsm(self.r.choice(["nop", "mov %0, %1", "add %0, %1, 1; nop"]), self.r.choice([[], ["r0"], ["r1", "memory"]]))
        asm.add_input_variable(p)
        if self.r.random() < 0.6:
            asm.add_output_variable(ad)
        b.add_instruction(asm)
        b.add_instruction(ir.Exit())
        self.tags.add("inline-asm")


class Env:
    """Values available (dominating) at the current point, by type."""

    def __init__(self, by=None):
        self.by = {k: list(v) for k, v in by.items()} if by else {}

    def copy(self):
        return Env(self.by)

    def add(self, v):
        self.by.setdefault(v.ty, []).append(v)

    def get(self, ty):
        return self.by.get(ty, [])


class FuncGen:
    def __init__(self, mg, index, last):
        self.mg = mg
        self.r = mg.r
        self.cfg = mg.cfg
        self.index = index
        r = self.r
        nparams = r.randint(1, 4)
        self.ptys = [r.choice(mg.val_types) for _ in range(nparams)]
        self.recursive = self.cfg.tailcall and self.cfg.calls and r.random() < 0.25
        if self.recursive:
            self.ptys[0] = T("i32") if T("i32") in mg.int_types else mg.int_types[0]
        self.ret = r.choice(mg.val_types) if (last or r.random() < 0.8) else None
        name = "f%d" % index
        if self.ret is not None:
            self.f = ir.Function(name, ir.Binding.GLOBAL, self.ret)
        else:
            self.f = ir.Procedure(name, ir.Binding.GLOBAL)
        mg.m.add_function(self.f)
        self.params = []
        for i, ty in enumerate(self.ptys):
            p = ir.Parameter("p%d" % i, ty)
            self.f.add_parameter(p)
            self.params.append(p)
        self.n = 0
        self.cur = None
        self.budget = self.cfg.size + r.randint(0, self.cfg.size)
        self.slots = []   # (addr value (ptr), ty) initialised stack cells
        self.blobs = []   # (alloc, addr, size)
        self.depth = 0
        self.selfcalled = False

    # ---- plumbing
    def name(self, base):
        self.n += 1
        return "%s%d" % (base, self.n)

    def block(self, base="b"):
        b = ir.Block(self.name(self.f.name + "_" + base))
        self.f.add_block(b)
        return b

    def emit(self, ins):
        self.cur.add_instruction(ins)
        return ins

    def tag(self, t):
        self.mg.tags.add(t)

    def const(self, ty, v=None):
        r = self.r
        if v is None:
            if ty.is_integer:
                v = boundary_int(r, ty)
            elif ty is ir.ptr:
                v = r.choice([0, 1, 4, 8])
            else:
                v = r.choice([0.0, 1.0, -1.0, 0.5, 2.0, 3.25, -7.75, 100.0, 1e10, 0.1, 1e-3, 255.0, -128.0])
        return self.emit(ir.Const(v, self.name("c"), ty))

    def pick(self, env, ty, fresh=0.25):
        vals = env.get(ty)
        if vals and self.r.random() > fresh:
            # bias to recent values
            if self.r.random() < 0.5:
                return vals[-1 - min(len(vals) - 1, int(self.r.expovariate(0.7)))]
            return self.r.choice(vals)
        c = self.const(ty)
        env.add(c)
        return c

    # ---- build
    def build(self):
        r, mg = self.r, self.mg
        self.cur = entry = self.block("entry")
        self.f.entry = entry
        env = Env()
        for p in self.params:
            env.add(p)
        # stack slots, all initialised in the entry block
        for _ in range(r.randint(1, 4)):
            ty = r.choice(mg.val_types)
            a = self.emit(ir.Alloc(self.name("al"), ty.size, ty.size))
            addr = self.emit(ir.AddressOf(a, self.name("ad")))
            init = self.pick(env, ty, fresh=0.6)
            self.emit(ir.Store(init, addr))
            self.slots.append((addr, ty))
        if self.cfg.blobs and r.random() < 0.5:
            size = r.choice([4, 8, 12, 16, 24])
            for _ in range(2):
                a = self.emit(ir.Alloc(self.name("bl"), size, 4))
                addr = self.emit(ir.AddressOf(a, self.name("bad")))
                self.blobs.append((a, addr, size))
                # initialise every word
                wty = T("u32") if T("u32") in mg.int_types else mg.int_types[0]
                for off in range(0, size, wty.size):
                    if off + wty.size > size:
                        break
                    o = self.emit(ir.Const(off, self.name("o"), ir.ptr))
                    p = self.emit(ir.Binop(addr, "+", o, self.name("pp"), ir.ptr))
                    self.emit(ir.Store(self.const(wty), p))
            self.tag("blob")
        if self.cfg.shape == "mem":
            self.build_mem(env)
        else:
            if self.recursive:
                self.build_recursive_prologue(env)
            alive = self.stmts(env, self.budget)
            if alive:
                self.finish(env)
        mg.funcs.append((self.f, self.ptys, self.ret))

    def finish(self, env):
        r = self.r
        # make results observable
        if self.mg.globals and r.random() < 0.7:
            self.stmt_global_store(env)
        if self.mg.ext_p is not None and r.random() < 0.6:
            self.stmt_ext_report(env)
        if self.ret is None:
            self.emit(ir.Exit())
        else:
            self.emit(ir.Return(self.pick(env, self.ret, fresh=0.05)))

    def build_recursive_prologue(self, env):
        """if (p0 <= 0) return base; -- the tail of the function calls itself
        with p0 - 1 (see stmt_call), so recursion depth is bounded by p0,
        which gen_args keeps small."""
        p0 = self.params[0]
        zero = self.const(p0.ty, 0)
        limit = self.const(p0.ty, 6)
        base, cont, cont2 = self.block("base"), self.block("rec"), self.block("rec")
        self.emit(ir.CJump(p0, "<=", zero, base, cont))
        self.cur = base
        e2 = env.copy()
        self.finish(e2)
        self.cur = cont
        self.emit(ir.CJump(p0, ">", limit, base, cont2))   # large fuel: also the base case
        self.cur = cont2
        self.tag("self-recursion")

    # ---- statements; return False when control does not continue
    def stmts(self, env, budget):
        r = self.r
        while budget > 0:
            budget -= 1
            if self.cfg.kinds and r.random() < 0.22:
                self.stmt_kind(env)
                continue
            k = r.random()
            if k < 0.42:
                self.stmt_expr(env)
            elif k < 0.50:
                self.stmt_slot_store(env)
            elif k < 0.57:
                self.stmt_slot_load(env)
            elif k < 0.61 and self.mg.globals:
                self.stmt_global_store(env)
            elif k < 0.65 and self.mg.globals:
                self.stmt_global_load(env)
            elif k < 0.70 and self.cfg.calls:
                if not self.stmt_call(env):
                    return False
            elif k < 0.72 and self.slots:
                self.stmt_ptr(env)
            elif k < 0.73 and self.mg.ext_p is not None:
                self.stmt_ext_report(env)
            elif k < 0.75 and self.blobs:
                self.stmt_blob(env)
            elif k < 0.77 and self.cfg.undefined:
                u = self.emit(ir.Undefined(self.name("und"), r.choice(self.mg.val_types)))
                self.tag("undefined-dead")
                del u
            elif k < 0.87 and self.depth < 3 and budget >= 2:
                sub = r.randint(1, max(1, budget // 2))
                budget -= sub
                if not self.stmt_if(env, sub):
                    return False
            elif k < 0.96 and self.depth < 3 and budget >= 2:
                sub = r.randint(1, max(1, budget // 2))
                budget -= sub
                if not self.stmt_loop(env, sub):
                    return False
            elif k < 0.975 and self.depth > 0 and self.ret is not None:
                # early return
                self.finish(env)
                self.tag("early-return")
                return False
            else:
                self.stmt_expr(env)
        return True

    # ---- kind coverage (cfg.kinds)
    FLOAT_CLASSES = {
        "float-tiny": [5e-324, 2.2250738585072014e-308, 1e-300, 2.5e-10],
        "float-huge": [1.7976931348623157e308, 1e300, 3.4028234663852886e38, 1e22],
        "float-exp": [1e16, 1.5e-05, 1.2345678901234568e+20, -4e-07, 1e+100],
        "float-plain": [0.0, 1.0, 0.5, 1234.5678, 9007199254740993.0, 0.1, 0.30000000000000004, 3.141592653589793,
                        1234567.890123, 0.000123456789012],
        "float-negative": [-3.5, -0.001, -1e25, -123456.789, -2.718281828459045],
        "float-negzero": [-0.0],
        "float-inf": [float("inf"), float("-inf")],
        "float-nan": [float("nan")],
    }

    def stmt_kind(self, env):
        r, mg, cfg = self.r, self.mg, self.cfg
        acts = ["int-const", "ptr-const"]
        if mg.float_types:
            acts += ["float-const", "float-const"]
        if not mg.koff("literal"):
            acts.append("literal")
        if not mg.koff("undefined-used"):
            acts.append("undefined-used")
        if mg.ext_v is not None:
            acts.append("extern-var")
        if mg.reloc is not None:
            acts += ["reloc-data", "reloc-func"]
        if cfg.rotates and mg.int_types:
            acts.append("rotate")
        if cfg.unops:
            acts.append("unop")
        if cfg.volatile and self.slots:
            acts.append("volatile")
        if self.blobs:
            acts.append("memcpy")
        if mg.blob_helpers:
            acts += ["blob-call", "blob-call"]
        a = r.choice(acts)
        if a == "int-const":
            ty = r.choice(mg.int_types)
            lo, hi = int_range(ty)
            cls = r.choice(["zero", "one", "minus-one", "min", "max", "above-2^63", "out-of-range"])
            if cls == "above-2^63" and T("u64") in mg.int_types:
                ty = T("u64")
                v = r.choice([1 << 63, (1 << 63) + 1, (1 << 64) - 1, 0xFEDCBA9876543210])
            elif cls == "out-of-range" and not mg.koff("const-out-of-range"):
                v = r.choice([hi + 1, lo - 1, hi + 200, -(1 << 70), 1 << 70])
            else:
                v = {"zero": 0, "one": 1, "minus-one": -1 if lo < 0 else hi, "min": lo, "max": hi}.get(cls, hi)
            c = self.const(ty, v)
            if lo <= v <= hi:
                env.add(c)
            self.tag("kind-int-const")
        elif a == "ptr-const":
            c = self.const(ir.ptr, r.choice([0, 1, 8, 4096, 0xFFFF]))
            self.tag("kind-ptr-const")
        elif a == "float-const":
            ty = r.choice(mg.float_types)
            noexp = mg.koff("float-exp")
            classes = {}
            for k in sorted(self.FLOAT_CLASSES):
                vals = [x for x in self.FLOAT_CLASSES[k]
                        if not mg.koff(k) and not (noexp and "e" in repr(x))]
                if vals:
                    classes[k] = vals
            cls = r.choice(sorted(classes))
            v = r.choice(classes[cls])
            if r.random() < 0.15:
                v = int(v) if v == v and abs(v) < 1e15 else 3    # an int spelled constant of float type
                cls = "float-int-spelled"
            c = self.const(ty, v)
            if cls in ("float-plain", "float-negative", "float-negzero", "float-int-spelled") or r.random() < 0.3:
                env.add(c)
            if self.slots and r.random() < 0.5:
                cands = [s for s in self.slots if s[1] is ty]
                if cands:
                    self.emit(ir.Store(c, r.choice(cands)[0]))
            self.tag("kind-" + cls)
        elif a == "literal":
            data = bytes(r.randrange(256) for _ in range(r.randint(1, 12)))
            lit = self.emit(ir.LiteralData(data, self.name("lit")))
            ad = self.emit(ir.AddressOf(lit, self.name("lita")))
            p = self.cell_addr(ad, r.randrange(len(data)))
            bty = T("u8") if T("u8") in mg.int_types else None
            if bty is not None:
                env.add(self.emit(ir.Load(p, self.name("litb"), bty)))
            self.tag("literal-data")
        elif a == "undefined-used":
            ty = r.choice(mg.val_types)
            u = self.emit(ir.Undefined(self.name("und"), ty))
            if r.random() < 0.5:
                self.emit(ir.Binop(u, "+", self.pick(env, ty), self.name("udead"), ty))
            else:
                self.emit(ir.Cast(u, self.name("udead"), r.choice(mg.val_types)))
            self.tag("undefined-used")
        elif a == "extern-var":
            bty = T("u8") if T("u8") in mg.int_types else mg.int_types[0]
            env.add(self.emit(ir.Load(mg.ext_v, self.name("xv"), bty)))
            self.tag("external-variable")
        elif a == "reloc-data":
            v, off, (tv, cells), _ = mg.reloc
            q = self.emit(ir.Load(self.cell_addr(v, off), self.name("rq"), ir.ptr))
            coff, cty = r.choice(cells)
            env.add(self.emit(ir.Load(self.cell_addr(q, coff), self.name("rv"), cty)))
            self.tag("pointer-from-initializer")
        elif a == "reloc-func":
            v, _, _, off = mg.reloc
            q = self.emit(ir.Load(self.cell_addr(v, off), self.name("rf"), ir.ptr))
            if self.index > 0 and mg.funcs and mg.funcs[0][0].name == "f0":
                f, ptys, ret = mg.funcs[0]
                args = [self.pick(env, t) for t in ptys]
                if ret is None:
                    self.emit(ir.ProcedureCall(q, args))
                else:
                    env.add(self.emit(ir.FunctionCall(q, args, self.name("rfr"), ret)))
                self.tag("function-pointer-from-initializer")
        elif a == "rotate":
            ty = r.choice(mg.int_types)
            op = r.choice(["rol", "ror"])
            env.add(self.emit(ir.Binop(self.pick(env, ty), op, self.safe_count(env, ty), self.name("rot"), ty)))
            self.tag("rotate")
        elif a == "unop":
            ty = r.choice(mg.val_types)
            op = "-" if (not ty.is_integer or mg.koff("unop~")) else r.choice("-~")
            env.add(self.emit(ir.Unop(op, self.pick(env, ty), self.name("u"), ty)))
            self.tag("unop" + op)
        elif a == "volatile":
            addr, ty = r.choice(self.slots)
            if r.random() < 0.5:
                env.add(self.emit(ir.Load(addr, self.name("vld"), ty, volatile=True)))
                self.tag("volatile-load")
            else:
                self.emit(ir.Store(self.pick(env, ty), addr, volatile=True))
                self.tag("volatile-store")
        elif a == "blob-call":
            callee, ptys, ret = r.choice(mg.blob_helpers)
            args = []
            for t in ptys:
                if isinstance(t, ir.BlobDataTyp):
                    al = self.emit(ir.Alloc(self.name("bx"), t.size, t.alignment))
                    ad = self.emit(ir.AddressOf(al, self.name("bxa")))
                    for off in range(0, t.size, mg.blob_word.size):
                        self.emit(ir.Store(self.const(mg.blob_word), self.cell_addr(ad, off)))
                    args.append(al)
                else:
                    args.append(self.pick(env, t))
            if ret is None:
                self.emit(ir.ProcedureCall(callee, args))
            else:
                env.add(self.emit(ir.FunctionCall(callee, args, self.name("bcr"), ret)))
            self.tag("blob-call")
        elif a == "memcpy":
            (a1, ad1, s1), (a2, ad2, s2) = self.blobs[0], self.blobs[1]
            if r.random() < 0.5:
                self.emit(ir.CopyBlob(ad1, ad2, s1))
            else:
                self.emit(ir.CopyBlob(ad2, a1, s1))     # a blob value names its own storage
            self.tag("memcpy")

    def stmt_expr(self, env):
        r, mg = self.r, self.mg
        ty = r.choice(mg.val_types)
        k = r.random()
        if k < 0.18:
            self.gen_cast(env, ty)
            return
        if k < 0.24 and self.cfg.unops:
            a = self.pick(env, ty)
            op = "-" if not ty.is_integer else r.choice("-~")
            if op == "~" and "unop~" in self.cfg.kinds_off:
                op = "-"
            env.add(self.emit(ir.Unop(op, a, self.name("u"), ty)))
            self.tag("unop" + op)
            return
        if ty.is_integer:
            ops = ["+", "-", "*", "/", "%", "|", "&", "^", "<<", ">>"]
            if self.cfg.rotates:
                ops += ["rol", "ror"]
            ops = [o for o in ops if o not in self.cfg.no_ops]
            op = r.choice(ops)
            a = self.pick(env, ty)
            if op in ("/", "%"):
                b = self.safe_divisor(env, ty)
            elif op in ("<<", ">>", "rol", "ror"):
                b = self.safe_count(env, ty)
            else:
                b = self.pick(env, ty)
            env.add(self.emit(ir.Binop(a, op, b, self.name("t"), ty)))
        else:
            op = r.choice(["+", "-", "*", "/"])
            if op in self.cfg.no_ops:
                op = "+"
            a, b = self.pick(env, ty), self.pick(env, ty)
            if op == "/":
                # divisor: a non-zero constant (float division by zero is outside the defined semantics)
                b = self.const(ty, r.choice([1.0, -1.0, 0.5, 2.0, 3.25, -7.75, 100.0, 0.1, 1e-3, 255.0]))
            env.add(self.emit(ir.Binop(a, op, b, self.name("ft"), ty)))
            self.tag("float-arith")

    def safe_divisor(self, env, ty):
        r = self.r
        if self.cfg.unsafe and r.random() < 0.3:
            self.tag("unsafe-const-operand")
            return self.const(ty, r.choice([0, -1 if ty.signed else 0, 1]))
        if r.random() < 0.4:
            lo, hi = int_range(ty)
            v = r.choice([1, 2, 3, 5, 7, 10, hi, -2 if lo < 0 else 4, -3 if lo < 0 else 6, lo if lo < 0 else 9])
            return self.const(ty, v)
        # (x & 7) + 1  : never 0, never -1
        x = self.pick(env, ty)
        seven = self.const(ty, 7)
        one = self.const(ty, 1)
        m = self.emit(ir.Binop(x, "&", seven, self.name("dm"), ty))
        return self.emit(ir.Binop(m, "+", one, self.name("dv"), ty))

    def safe_count(self, env, ty):
        r = self.r
        if self.cfg.unsafe and r.random() < 0.3:
            self.tag("unsafe-const-operand")
            lo, hi = int_range(ty)
            return self.const(ty, r.choice([ty.bits, ty.bits + 1, hi, lo, hi // 2 + 1, -1 if ty.signed else hi]))
        if r.random() < 0.5:
            return self.const(ty, r.choice([0, 1, 2, ty.bits // 2, ty.bits - 1, r.randrange(ty.bits)]))
        x = self.pick(env, ty)
        mask = self.const(ty, ty.bits - 1)
        return self.emit(ir.Binop(x, "&", mask, self.name("sc"), ty))

    def gen_cast(self, env, ty):
        r, mg = self.r, self.mg
        if ty.is_integer:
            src_ty = r.choice(mg.int_types)
            if self.cfg.float_to_int and mg.float_types and r.random() < 0.2 and ty.bits >= 32:
                # float -> int only from a value known to be small: cast of a narrow int
                narrow = [t for t in mg.int_types if t.bits <= 16 and (ty.signed or not t.signed)]
                if narrow:
                    nty = r.choice(narrow)
                    fty = r.choice(mg.float_types)
                    n = self.pick(env, nty)
                    fv = self.emit(ir.Cast(n, self.name("cf"), fty))
                    half = self.emit(ir.Const(r.choice([0.5, 0.25, 0.75, 1.5]), self.name("c"), fty))
                    fv2 = self.emit(ir.Binop(fv, r.choice("+*") if ty.signed or True else "+", half, self.name("cf"), fty))
                    if not ty.signed:
                        # keep it non-negative: narrow source is unsigned here
                        pass
                    env.add(self.emit(ir.Cast(fv2, self.name("ci"), ty)))
                    self.tag("float-to-int")
                    return
            a = self.pick(env, src_ty)
            env.add(self.emit(ir.Cast(a, self.name("ci"), ty)))
            self.tag("int-cast")
        else:
            src_ty = r.choice(mg.val_types)
            a = self.pick(env, src_ty)
            env.add(self.emit(ir.Cast(a, self.name("cf"), ty)))
            self.tag("to-float-cast")

    def cell_addr(self, base, off):
        if off == 0 and self.r.random() < 0.5:
            return base
        o = self.emit(ir.Const(off, self.name("o"), ir.ptr))
        return self.emit(ir.Binop(base, "+", o, self.name("pa"), ir.ptr))

    def stmt_slot_store(self, env):
        addr, ty = self.r.choice(self.slots)
        vol = self.cfg.volatile and self.r.random() < 0.3
        self.emit(ir.Store(self.pick(env, ty), addr, volatile=vol))

    def stmt_slot_load(self, env):
        addr, ty = self.r.choice(self.slots)
        vol = self.cfg.volatile and self.r.random() < 0.3
        env.add(self.emit(ir.Load(addr, self.name("ld"), ty, volatile=vol)))

    def stmt_global_store(self, env):
        g, cells = self.r.choice(self.mg.globals)
        off, ty = self.r.choice(cells)
        self.emit(ir.Store(self.pick(env, ty, fresh=0.05), self.cell_addr(g, off)))
        self.tag("global-store")

    def stmt_global_load(self, env):
        g, cells = self.r.choice(self.mg.globals)
        off, ty = self.r.choice(cells)
        env.add(self.emit(ir.Load(self.cell_addr(g, off), self.name("gl"), ty)))

    def stmt_ext_report(self, env):
        p = self.mg.ext_p
        ty = p.argument_types[0]
        self.emit(ir.ProcedureCall(p, [self.pick(env, ty, fresh=0.05)]))
        self.tag("external-call")
        if self.r.random() < 0.3:
            f = self.mg.ext_f
            a = self.pick(env, f.argument_types[0])
            env.add(self.emit(ir.FunctionCall(f, [a], self.name("eg"), f.return_ty)))

    def stmt_blob(self, env):
        r = self.r
        (a1, ad1, s1), (a2, ad2, s2) = self.blobs[0], self.blobs[1]
        k = r.random()
        if k < 0.4:
            self.emit(ir.CopyBlob(ad1, ad2, s1))
            self.tag("memcpy")
        elif k < 0.6:
            self.emit(ir.Store(a2, ad1))
            self.tag("blob-store")
        else:
            wty = T("u32") if T("u32") in self.mg.int_types else self.mg.int_types[0]
            off = r.randrange(0, s1 - wty.size + 1, wty.size)
            base = r.choice([ad1, ad2])
            p = self.cell_addr(base, off)
            if r.random() < 0.5:
                env.add(self.emit(ir.Load(p, self.name("bw"), wty)))
            else:
                self.emit(ir.Store(self.pick(env, wty), p))

    def stmt_call(self, env):
        r, mg = self.r, self.mg
        cands = [x for x in mg.funcs]
        if self.recursive and not self.selfcalled and r.random() < 0.5 and self.ret is not None and self.depth == 0:
            self.selfcalled = True
            # self tail call:  return f(p0 - 1, ...)
            p0 = self.params[0]
            one = self.const(p0.ty, 1)
            dec = self.emit(ir.Binop(p0, "-", one, self.name("fuel"), p0.ty))
            args = [dec] + [self.pick(env, t) for t in self.ptys[1:]]
            res = self.emit(ir.FunctionCall(self.f, args, self.name("rc"), self.ret))
            env.add(res)
            if r.random() < 0.7:
                self.tag("tail-call")
                # returned immediately: exactly the pattern the tail-call pass rewrites
                self.emit(ir.Return(res))
                return False
            return True
        if not cands:
            return True
        f, ptys, ret = r.choice(cands)
        args = []
        for i, t in enumerate(ptys):
            args.append(self.pick(env, t))
        callee = f
        if self.cfg.fptr and r.random() < 0.25:
            # indirect call through a pointer kept in a stack cell
            a = self.emit(ir.Alloc(self.name("fp"), self.cfg.ptr_size, self.cfg.ptr_size))
            ad = self.emit(ir.AddressOf(a, self.name("fpa")))
            self.emit(ir.Store(f, ad))
            callee = self.emit(ir.Load(ad, self.name("fpl"), ir.ptr))
            self.tag("indirect-call")
        if ret is None:
            self.emit(ir.ProcedureCall(callee, args))
        else:
            env.add(self.emit(ir.FunctionCall(callee, args, self.name("cr"), ret)))
        self.tag("call")
        return True

    def stmt_ptr(self, env):
        """pointer kept in memory: store &slot, load it back, access through it"""
        r = self.r
        addr, ty = r.choice(self.slots)
        ps = self.cfg.ptr_size
        a = self.emit(ir.Alloc(self.name("pc"), ps, ps))
        ad = self.emit(ir.AddressOf(a, self.name("pca")))
        self.emit(ir.Store(addr, ad))
        q = self.emit(ir.Load(ad, self.name("pq"), ir.ptr))
        if r.random() < 0.5:
            env.add(self.emit(ir.Load(q, self.name("pv"), ty)))
        else:
            self.emit(ir.Store(self.pick(env, ty), q))
        env.add(q)
        self.tag("pointer-in-memory")

    def cond(self, env):
        r = self.r
        if self.cfg.ptr_compare and len(self.slots) >= 2 and r.random() < 0.06:
            a, b = r.choice(self.slots)[0], r.choice(self.slots)[0]
            self.tag("pointer-compare")
            return a, r.choice(["==", "!="]), b
        ty = r.choice(self.mg.val_types)
        a = self.pick(env, ty, fresh=0.1)
        b = self.pick(env, ty, fresh=0.5)
        return a, r.choice(CONDS), b

    def join(self, block, preds, base_env, nphi=None, types=()):
        """Make ``block`` the current block; preds = [(pred block, env at its end)].
        Adds phis merging values of the predecessors."""
        r = self.r
        self.cur = block
        env = base_env.copy()
        if len(preds) < 1:
            return env
        if len(preds) == 1 and r.random() < 0.7:
            # single predecessor: everything available there dominates this block
            return preds[0][1].copy()
        nphi = r.randint(0, 3) if nphi is None else nphi
        want = list(types) + [r.choice(self.mg.val_types) for _ in range(nphi)]
        for ty in want:
            ins = []
            for pb, penv in preds:
                vals = penv.get(ty)
                if not vals:
                    ins = None
                    break
                ins.append((pb, vals[-1] if r.random() < 0.6 else r.choice(vals)))
            if not ins:
                continue
            phi = ir.Phi(self.name("phi"), ty)
            self.emit(phi)
            for pb, v in ins:
                phi.set_incoming(pb, v)
            env.add(phi)
            self.tag("phi")
        return env

    def stmt_if(self, env, budget):
        r = self.r
        self.depth += 1
        a, c, b = self.cond(env)
        head = self.cur
        then_b = self.block("then")
        join_b = self.block("join")
        preds = []
        if r.random() < 0.35:
            # no else: critical edge head -> join when join has 2 preds
            if r.random() < 0.5:
                self.emit(ir.CJump(a, c, b, then_b, join_b))
            else:
                neg = {"==": "!=", "!=": "==", "<": ">=", ">=": "<", ">": "<=", "<=": ">"}[c]
                self.emit(ir.CJump(a, neg, b, join_b, then_b))
            preds.append((head, env.copy()))
            self.tag("if-without-else")
        else:
            else_b = self.block("else")
            self.emit(ir.CJump(a, c, b, then_b, else_b))
            self.cur = else_b
            e2 = env.copy()
            if self.stmts(e2, max(1, budget // 2)):
                preds.append((self.cur, e2))
                self.emit(ir.Jump(join_b))
            self.tag("diamond")
        self.cur = then_b
        e1 = env.copy()
        if self.stmts(e1, max(1, budget // 2)):
            preds.append((self.cur, e1))
            self.emit(ir.Jump(join_b))
        self.depth -= 1
        if not preds:
            self.f.remove_block(join_b)
            return False
        new = self.join(join_b, preds, env)
        env.by = new.by
        return True

    def stmt_loop(self, env, budget):
        r, mg = self.r, self.mg
        self.depth += 1
        cty = r.choice([t for t in mg.int_types if t.bits >= 8])
        trip = r.randint(0, 5)
        pre = self.cur
        zero = self.const(cty, 0)
        one_pre = self.const(cty, 1)
        limit = self.const(cty, trip)
        # initial values of loop-carried accumulators
        accs = []
        for _ in range(r.randint(0, 2)):
            ty = r.choice(mg.val_types)
            accs.append((ty, self.pick(env, ty)))
        head = self.block("head")
        body = self.block("body")
        latch = self.block("latch")
        exit_b = self.block("exit")
        dowhile = r.random() < 0.3
        self.emit(ir.Jump(head))
        self.cur = head
        henv = env.copy()
        i = self.emit(ir.Phi(self.name("i"), cty))
        i.set_incoming(pre, zero)
        henv.add(i)
        acc_phis = []
        for ty, init in accs:
            p = self.emit(ir.Phi(self.name("acc"), ty))
            p.set_incoming(pre, init)
            henv.add(p)
            acc_phis.append(p)
        exit_preds = []
        if dowhile:
            self.emit(ir.Jump(body))
            self.tag("do-while")
        else:
            self.emit(ir.CJump(i, "<", limit, body, exit_b))
            exit_preds.append((head, henv.copy()))
            self.tag("while-loop")
        # body with breaks / continues
        self.cur = body
        benv = henv.copy()
        latch_preds = []
        alive = True
        nb = max(1, budget)
        parts = r.randint(1, 3)
        for part in range(parts):
            if not self.stmts(benv, max(1, nb // parts)):
                alive = False
                break
            if part < parts - 1 and r.random() < 0.5:
                a, c, b = self.cond(benv)
                cont = self.block("cont")
                if r.random() < 0.6:
                    self.emit(ir.CJump(a, c, b, exit_b, cont))
                    exit_preds.append((self.cur, benv.copy()))
                    self.tag("break")
                else:
                    self.emit(ir.CJump(a, c, b, latch, cont))
                    latch_preds.append((self.cur, benv.copy()))
                    self.tag("continue")
                self.cur = cont
        if alive:
            latch_preds.append((self.cur, benv.copy()))
            self.emit(ir.Jump(latch))
        if not latch_preds:
            # the loop never iterates: drop the latch, head keeps a single predecessor
            self.f.remove_block(latch)
            self.depth -= 1
            if not exit_preds:
                self.f.remove_block(exit_b)
                return False
            new = self.join(exit_b, exit_preds, env)
            env.by = new.by
            return True
        # dedupe: a block can be predecessor only once for phi purposes
        lenv = self.join(latch, self.dedupe(latch_preds), henv, types=[p.ty for p in acc_phis])
        i2 = self.emit(ir.Binop(i, "+", one_pre, self.name("inc"), cty))
        i.set_incoming(latch, i2)
        for p in acc_phis:
            vals = lenv.get(p.ty)
            p.set_incoming(latch, (vals[-1] if r.random() < 0.7 else r.choice(vals)) if vals else p)
        if dowhile:
            self.emit(ir.CJump(i2, "<", limit, head, exit_b))
            lenv.add(i2)
            exit_preds.append((latch, lenv.copy()))
        else:
            self.emit(ir.Jump(head))
        self.depth -= 1
        new = self.join(exit_b, self.dedupe(exit_preds), env)
        env.by = new.by
        self.tag("loop-carried-phi" if acc_phis else "loop")
        return True

    @staticmethod
    def dedupe(preds):
        seen, out = set(), []
        for pb, e in preds:
            if id(pb) not in seen:
                seen.add(id(pb))
                out.append((pb, e))
        return out

    # ---- memory-form arbitrary CFG
    def build_mem(self, env):
        r, mg = self.r, self.mg
        self.tag("mem-cfg")
        fty = T("i32") if T("i32") in mg.int_types else mg.int_types[0]
        fa = self.emit(ir.Alloc(self.name("fuel"), fty.size, fty.size))
        fuel = self.emit(ir.AddressOf(fa, self.name("fuelp")))
        self.emit(ir.Store(self.const(fty, r.randint(3, 14)), fuel))
        # store params to extra slots so that blocks can use them
        for p in self.params:
            a = self.emit(ir.Alloc(self.name("ps"), p.ty.size, p.ty.size))
            ad = self.emit(ir.AddressOf(a, self.name("psa")))
            self.emit(ir.Store(p, ad))
            self.slots.append((ad, p.ty))
        n = r.randint(2, max(3, self.cfg.size // 2))
        guards = [self.block("g") for _ in range(n)]
        bodies = [self.block("n") for _ in range(n)]
        out = self.block("out")
        self.emit(ir.Jump(guards[0]))
        base = Env()
        base.add(fuel)
        for k in range(n):
            self.cur = guards[k]
            f0 = self.emit(ir.Load(fuel, self.name("fl"), fty))
            one = self.const(fty, 1)
            f1 = self.emit(ir.Binop(f0, "-", one, self.name("fd"), fty))
            self.emit(ir.Store(f1, fuel))
            zero = self.const(fty, 0)
            self.emit(ir.CJump(f1, "<", zero, out, bodies[k]))
            self.cur = bodies[k]
            e = Env()
            for _ in range(r.randint(1, 5)):
                if self.cfg.kinds and r.random() < 0.25:
                    self.stmt_kind(e)
                    continue
                kk = r.random()
                if kk < 0.45:
                    self.stmt_slot_load(e)
                elif kk < 0.75:
                    self.stmt_expr(e)
                elif kk < 0.9:
                    self.stmt_slot_store(e)
                elif mg.globals:
                    self.stmt_global_store(e)
            self.stmt_slot_store(e)
            kk = r.random()
            if kk < 0.3:
                self.emit(ir.Jump(r.choice(guards)))
            elif kk < 0.9:
                a, c, b = self.cond(e)
                self.emit(ir.CJump(a, c, b, r.choice(guards), r.choice(guards + [out])))
            else:
                self.emit(ir.Jump(out))
        self.cur = out
        e = Env()
        for _ in range(2):
            self.stmt_slot_load(e)
        self.finish(e)
        # prune unreachable blocks (well-formedness requires reachability)
        prune_unreachable(self.f)


def prune_unreachable(f):
    """Own pruning (ppci's delete_unreachable raises KeyError on a cjmp whose
    two targets are the same block)."""
    reach, work = set(), [f.entry]
    while work:
        b = work.pop()
        if b in reach:
            continue
        reach.add(b)
        last = b.instructions[-1]
        if isinstance(last, ir.Jump):
            work.append(last.target)
        elif isinstance(last, ir.CJump):
            work += [last.lab_yes, last.lab_no]
    dead = [b for b in f.blocks if b not in reach]
    for b in dead:
        for ins in list(b.instructions):
            for u in list(ins.uses):
                ins.del_use(u)
            if isinstance(ins, ir.JumpBase):
                for t in set(ins._block_map.values()):
                    if ins in t.references:
                        t.references.remove(ins)
                ins._block_map.clear()
    for b in dead:
        f.remove_block(b)


def rpo_blocks(f):
    """Reorder f.blocks into reverse post-order of the CFG (entry first)."""
    seen, post = set(), []
    stack = [(f.entry, iter(_succ(f.entry)))]
    seen.add(f.entry)
    while stack:
        b, it = stack[-1]
        for s in it:
            if s not in seen:
                seen.add(s)
                stack.append((s, iter(_succ(s))))
                break
        else:
            post.append(b)
            stack.pop()
    order = post[::-1]
    rest = [b for b in f.blocks if b not in seen]
    f.blocks[:] = order + rest


def _succ(b):
    last = b.instructions[-1]
    if isinstance(last, ir.Jump):
        return [last.target]
    if isinstance(last, ir.CJump):
        return [last.lab_yes, last.lab_no]
    return []


def gen_module(r, cfg=None):
    mg = ModGen(r, cfg)
    # patch: tail position handling
    m, info = mg.build()
    return m, info


def gen_args(r, module, fname, n=4):
    f = module.get_function(fname)
    out = []
    for k in range(n):
        vec = []
        for idx, p in enumerate(f.arguments):
            ty = p.ty
            if idx == 0 and ty.is_integer and ty.bits == 32 and ty.signed:
                # possible recursion fuel: keep small in most vectors
                vec.append(r.choice([0, 1, 2, 3, 5, -1]) if r.random() < 0.7 else boundary_int(r, ty))
            elif ty.is_integer:
                vec.append(boundary_int(r, ty) if k else r.choice([0, 1, 2, 3]))
            else:
                v = r.choice([0.0, 1.0, -1.5, 2.5, 100.25, -0.0, 1e6, 3.0e-2])
                if ty.bits == 32:
                    import struct
                    v = struct.unpack("<f", struct.pack("<f", v))[0]
                vec.append(v)
        out.append(vec)
    return out
