"""Seeded generator of UB-free C programs in ppci's C subset (DESIGN 2.4 'cgen.py').

A program is one translation unit:

    globals (scalars, arrays, structs, pointers with initialisers)
    void report(long);                     /* the only external: observable */
    static helper functions f0..fk         (may read/write globals, call report,
                                            call earlier helpers, bounded recursion)
    long entry(long a0, long a1, long a2)  /* called once per argument vector */

Observable behaviour = ordered sequence of report() arguments + entry's
return value (entry ends by reporting every global element).

UB-free by construction (LP64, gcc x86-64 conventions):
  * signed + - * of rank >= int only on operands reduced with ``% 10007``;
    unsigned arithmetic is unrestricted (wraps);
  * divisors are ``((x & 0x7f) + 1)`` or non-zero, non -1 constants;
  * shift counts masked below the promoted width; ``<<`` only on unsigned or
    small non-negative left operands; ``>>`` of signed only on non-negative;
  * array indices reduced modulo the bound (as unsigned); pointers only to
    array elements / variables in scope, dereferenced in bounds;
  * every local initialised at its declaration;
  * at most one side effect per full expression; calls only as the whole right
    hand side of an assignment, with side-effect-free arguments;
  * loops bounded by constant trip counts or fuel; recursion depth <= 7;
  * plain ``char`` is never used (signedness is implementation-defined).
Programs are additionally filtered by gcc -fsanitize=undefined by the checks.

gen_program(r, cfg) -> (source text, info)   info: tags, n_statements
cfg dials: size, floats, structs, pointers, switch, goto, recursion, fptr,
avoid (set of known-finding keys: see AVOID below).
"""

SC, UC, SS, US, SI, UI, SL, UL, SLL, ULL = range(10)


class CT:
    def __init__(self, idx, name, bits, signed, rank):
        self.idx, self.name, self.bits, self.signed, self.rank = idx, name, bits, signed, rank

    def __repr__(self):
        return self.name

    @property
    def lo(self):
        return -(1 << (self.bits - 1)) if self.signed else 0

    @property
    def hi(self):
        return (1 << (self.bits - 1)) - 1 if self.signed else (1 << self.bits) - 1


TYPES = [
    CT(SC, "signed char", 8, True, 1), CT(UC, "unsigned char", 8, False, 1),
    CT(SS, "short", 16, True, 2), CT(US, "unsigned short", 16, False, 2),
    CT(SI, "int", 32, True, 3), CT(UI, "unsigned int", 32, False, 3),
    CT(SL, "long", 64, True, 4), CT(UL, "unsigned long", 64, False, 4),
    CT(SLL, "long long", 64, True, 5), CT(ULL, "unsigned long long", 64, False, 5),
]
T_INT, T_UINT, T_LONG, T_ULONG = TYPES[SI], TYPES[UI], TYPES[SL], TYPES[UL]


def promote(t):
    if t.rank < 3:
        return T_INT  # every narrower type fits in int
    return t


def common(a, b):
    a, b = promote(a), promote(b)
    if a is b:
        return a
    if a.signed == b.signed:
        return a if a.rank > b.rank else b
    u, s = (a, b) if not a.signed else (b, a)
    if u.rank >= s.rank:
        return u
    if s.bits > u.bits:
        return s
    return TYPES[s.idx + 1]  # unsigned counterpart of the signed type


def lit(v, t):
    """C literal of value v with exactly type t (by cast where needed)."""
    if t.idx == SI and -2147483647 <= v <= 2147483647:
        return "(%d)" % v if v < 0 else "%d" % v
    if t.idx == UI:
        return "%uu" % v if False else "%du" % v
    if t.idx == SL and -(2 ** 63) < v:
        return "(%dl)" % v if v < 0 else "%dl" % v
    if t.idx == UL:
        return "%dul" % v
    if t.idx == SLL and -(2 ** 63) < v:
        return "(%dll)" % v if v < 0 else "%dll" % v
    if t.idx == ULL:
        return "%dull" % v
    if v == t.lo and t.signed and t.bits >= 32:
        return "((%s)(%d - 1))" % (t.name, v + 1) if t.bits == 32 else "((%s)(%dl - 1))" % (t.name, v + 1)
    return "((%s)%d)" % (t.name, v)


def boundary(r, t):
    k = r.random()
    if k < 0.4:
        v = r.choice([0, 1, 2, 3, 4, 5, 7, 8, 9, 10, 15, 16, 31, 32, 33, 63, 64, 100, 127, 128, 255, 256, 1000])
        return v if v <= t.hi else v % (t.hi + 1)
    if k < 0.6:
        c = [t.lo, t.lo + 1, t.hi, t.hi - 1, t.hi // 2, t.hi // 2 + 1]
        if t.bits == 64:
            # around the 32 bit immediate limits of 64 bit instructions
            c += [0x7fffffff, 0x80000000, 0x90000000, 0xffffffff, 0x100000000]
            if t.signed:
                c += [-0x80000000, -0x80000001]
        return r.choice(c)
    if k < 0.75 and t.signed:
        return -r.choice([1, 2, 3, 4, 7, 8, 9, 100, 127, 128])
    if k < 0.85:
        b = r.randrange(t.bits)
        v = (1 << b) + r.choice([-1, 0, 1])
        if t.lo <= v <= t.hi:
            return v
    return r.randint(t.lo, t.hi)


class Var:
    def __init__(self, name, t, kind="scalar", n=0, fields=None, struct=None):
        self.name, self.t, self.kind, self.n, self.fields, self.struct = name, t, kind, n, fields, struct


class Struct:
    def __init__(self, name, fields):
        self.name, self.fields = name, fields  # [(fname, CT, array_len or 0)]


class Func:
    def __init__(self, name, ret, params, pure):
        self.name, self.ret, self.params, self.pure = name, ret, params, pure


DEFAULT = dict(size=26, floats=False, structs=True, pointers=True, switch=True, goto=True, recursion=True,
               fptr=True, avoid=(), nfuncs=3, raw_ops=0.0)


class Gen:
    def __init__(self, r, cfg):
        self.r = r
        self.cfg = dict(DEFAULT)
        self.cfg.update(cfg or {})
        self.avoid = set(self.cfg["avoid"])
        self.tags = set()
        self.out = []
        self.n = 0
        self.globals = []
        self.structs = []
        self.funcs = []
        self.nstmt = 0
        self.types = list(TYPES)

    # ---------------------------------------------------------------- util
    def name(self, base):
        self.n += 1
        return "%s%d" % (base, self.n)

    def tag(self, t):
        self.tags.add(t)

    def anytype(self):
        r = self.r
        return r.choice(self.types) if r.random() < 0.7 else r.choice([T_INT, T_UINT, T_LONG, TYPES[UC], TYPES[SC]])

    # ---------------------------------------------------------------- program
    def program(self):
        r = self.r
        cfg = self.cfg
        lines = ["void report(long);", ""]
        if cfg["structs"]:
            for i in range(r.randint(1, 2)):
                fields = []
                for k in range(r.randint(2, 4)):
                    ft = self.anytype()
                    alen = r.choice([0, 0, 0, 2, 3])
                    fields.append(("m%d" % k, ft, alen))
                st = Struct("S%d" % i, fields)
                self.structs.append(st)
                body = " ".join("%s %s%s;" % (ft.name, fn, "[%d]" % al if al else "") for fn, ft, al in fields)
                lines.append("struct %s { %s };" % (st.name, body))
        for i in range(r.randint(2, 5)):
            t = self.anytype()
            k = r.random()
            if k < 0.45:
                v = Var("g%d" % i, t)
                lines.append("%s %s = %s;" % (t.name, v.name, self.init_lit(t)))
            elif k < 0.8:
                n = r.randint(2, 6)
                v = Var("g%d" % i, t, "array", n)
                lines.append("%s %s[%d] = {%s};" % (t.name, v.name, n, ", ".join(self.init_lit(t) for _ in range(r.randint(1, n)))))
                self.tag("global-array")
            elif self.structs:
                st = r.choice(self.structs)
                v = Var("g%d" % i, None, "struct", struct=st)
                inits = []
                for fn, ft, al in st.fields:
                    if al:
                        inits.append("{%s}" % ", ".join(self.init_lit(ft) for _ in range(al)))
                    else:
                        inits.append(self.init_lit(ft))
                lines.append("struct %s %s = {%s};" % (st.name, v.name, ", ".join(inits[: r.randint(1, len(inits))])))
                self.tag("global-struct")
            else:
                v = Var("g%d" % i, t)
                lines.append("%s %s;" % (t.name, v.name))
            self.globals.append(v)
        arrs = [g for g in self.globals if g.kind == "array"]
        if cfg["pointers"] and arrs and r.random() < 0.6:
            a = r.choice(arrs)
            v = Var("gp", a.t, "pointer", n=a.n)
            v.target = a
            lines.append("%s *gp = &%s[%d];" % (a.t.name, a.name, 0) if "c-global-init-address-of-element" in self.avoid
                         else "%s *gp = %s;" % (a.t.name, a.name))
            self.globals.append(v)
            self.tag("global-pointer")
        lines.append("")
        # functions taking / returning structs by value
        self.sfuncs = []
        self.sfunc_lines = []
        self.sfunc_at = len(lines)
        if cfg["structs"] and cfg.get("struct_by_value", True):
            for st in self.structs:
                if r.random() < 0.6:
                    self.struct_functions(st)
        nf = r.randint(1, cfg["nfuncs"])
        for i in range(nf):
            lines += self.function(i)
            lines.append("")
        lines = lines[:self.sfunc_at] + self.sfunc_lines + lines[self.sfunc_at:]
        lines += self.entry()
        info = {"tags": sorted(self.tags), "n_statements": self.nstmt}
        return "\n".join(lines) + "\n", info

    def init_lit(self, t):
        v = boundary(self.r, t)
        if t.signed and v < 0:
            return "-%d" % -v if v != t.lo else "(-%d - 1)" % (-(v + 1))
        if v > 2147483647:
            return "%d%s" % (v, "ul" if v > 9223372036854775807 or not t.signed else "l")
        return "%d" % v

    # ---------------------------------------------------------------- functions
    def function(self, i):
        r = self.r
        ret = self.anytype()
        params = [Var("p%d" % k, self.anytype()) for k in range(r.randint(1, 4))]
        if self.cfg.get("many_params", True) and r.random() < 0.25:
            # more integer parameters than argument registers: some are passed on the stack
            n = r.randint(7, 10)
            wide = [TYPES[SI], TYPES[UI], TYPES[SL], TYPES[UL], TYPES[SLL], TYPES[ULL]]
            params = []
            for k in range(n):
                if k >= 6 and not self.cfg.get("narrow_stack_args", True):
                    # char/short stack arguments hit NotImplementedError in the x86-64 backend
                    # (open finding of C40/C29); int and wider are generated
                    t = r.choice(wide)
                else:
                    t = self.anytype()
                params.append(Var("p%d" % k, t))
            self.tag("stack-passed-arguments")
        rec = self.cfg["recursion"] and r.random() < 0.2
        if rec:
            params[0] = Var("p0", T_INT)
            params[0].ro = True   # the recursion fuel must not be assigned
            ret = r.choice([T_UINT, T_ULONG, TYPES[UC], TYPES[US]])
        f = Func("f%d" % i, ret, params, pure=False)
        sc = Scope(self, f, params)
        lines = ["static %s %s(%s) {" % (ret.name, f.name, ", ".join("%s %s" % (p.t.name, p.name) for p in params))]
        body = []
        if rec:
            body.append("if (p0 <= 0) return %s;" % self.expr(sc, ret, 1))
            self.tag("recursion")
        self.block(sc, body, self.r.randint(2, max(3, self.cfg["size"] // 3)), 1)
        if rec:
            args = ["p0 - 1"] + [self.expr(sc, p.t, 1) for p in params[1:]]
            tmp = self.name("rv")
            body.append("%s %s = %s(%s);" % (ret.name, tmp, f.name, ", ".join(args)))
            sc.locals.append(Var(tmp, ret))
        body.append("return %s;" % self.expr(sc, ret, 2))
        lines += ["  " + b for b in body]
        lines.append("}")
        f.rec = rec
        self.funcs.append(f)
        return lines

    def struct_functions(self, st):
        """mkS(a, b): builds a struct from scalars and returns it by value;
        useS(s, k): takes one by value, modifies its own copy, returns a digest."""
        r = self.r
        mk = "mk%s" % st.name
        f = Func(mk, None, [Var("a", T_LONG), Var("b", T_INT)], False)
        sc = Scope(self, f, f.params)
        L = ["static struct %s %s(long a, int b) {" % (st.name, mk), "  struct %s r;" % st.name]
        for fn, ft, al in st.fields:
            if al:
                for k in range(al):
                    L.append("  r.%s[%d] = %s;" % (fn, k, self.expr(sc, ft, 1)))
            else:
                L.append("  r.%s = %s;" % (fn, self.expr(sc, ft, 1)))
        L += ["  return r;", "}", ""]
        use = "use%s" % st.name
        f2 = Func(use, T_LONG, [Var("k", T_INT)], False)
        sv = Var("s", None, "struct", struct=st)
        sc2 = Scope(self, f2, [Var("k", T_INT), sv])
        L.append("static long %s(struct %s s, int k) {" % (use, st.name))
        body = []
        for _ in range(r.randint(1, 3)):
            lv, t = self.access(sc2, sv)
            body.append("%s = %s;" % (lv, self.expr(sc2, t, 2)))
        body.append("return %s;" % self.expr(sc2, T_LONG, 2))
        L += ["  " + b for b in body] + ["}", ""]
        self.sfunc_lines += L
        self.sfuncs.append((st, mk, use))
        self.tag("struct-by-value")

    def s_structcall(self, sc, out):
        r = self.r
        st, mk, use = r.choice(self.sfuncs)
        gs = [v for v in sc.visible() if v.kind == "struct" and v.struct is st]
        self.flush(sc, out)
        k = r.random()
        if k < 0.4 or not gs:
            v = Var(self.name("s"), None, "struct", struct=st)
            out.append("struct %s %s = %s(%s, %s);" % (st.name, v.name, mk, self.expr(sc, T_LONG, 1), self.expr(sc, T_INT, 1)))
            sc.locals.append(v)
        elif k < 0.6:
            out.append("%s = %s(%s, %s);" % (r.choice(gs).name, mk, self.expr(sc, T_LONG, 1), self.expr(sc, T_INT, 1)))
        else:
            v = Var(self.name("u"), T_LONG)
            out.append("long %s = %s(%s, %s);" % (v.name, use, r.choice(gs).name, self.expr(sc, T_INT, 1)))
            sc.locals.append(v)

    def entry(self):
        r = self.r
        params = [Var("a%d" % k, T_LONG) for k in range(3)]
        f = Func("entry", T_LONG, params, False)
        sc = Scope(self, f, params)
        body = []
        self.block(sc, body, self.cfg["size"], 1)
        # report every global element
        for g in self.globals:
            if g.kind == "scalar":
                body.append("report((long)%s);" % g.name)
            elif g.kind == "array":
                for k in range(g.n):
                    body.append("report((long)%s[%d]);" % (g.name, k))
            elif g.kind == "struct":
                for fn, ft, al in g.struct.fields:
                    if al:
                        for k in range(al):
                            body.append("report((long)%s.%s[%d]);" % (g.name, fn, k))
                    else:
                        body.append("report((long)%s.%s);" % (g.name, fn))
            elif g.kind == "pointer":
                body.append("report((long)(gp - %s));" % g.target.name)
                self.tag("pointer-difference")
        body.append("return %s;" % self.expr(sc, T_LONG, 2))
        return ["long entry(long a0, long a1, long a2) {"] + ["  " + b for b in body] + ["}"]

    # ---------------------------------------------------------------- statements
    def block(self, sc, out, budget, depth):
        r = self.r
        while budget > 0:
            budget -= 1
            self.nstmt += 1
            k = r.random()
            if k < 0.18:
                self.s_decl(sc, out)
            elif k < 0.40:
                self.s_assign(sc, out)
            elif k < 0.47:
                self.s_compound(sc, out)
            elif k < 0.52:
                self.s_incdec(sc, out)
            elif k < 0.60:
                out.append("report((long)(%s));" % self.expr(sc, self.anytype(), 2))
            elif k < 0.68 and self.funcs:
                self.s_call(sc, out)
            elif k < 0.76 and depth < 3 and budget >= 1:
                sub = r.randint(1, max(1, budget // 2)); budget -= sub
                self.s_if(sc, out, sub, depth)
            elif k < 0.84 and depth < 3 and budget >= 1:
                sub = r.randint(1, max(1, budget // 2)); budget -= sub
                self.s_loop(sc, out, sub, depth)
            elif k < 0.88 and self.cfg["switch"] and depth < 3 and budget >= 1:
                sub = r.randint(1, max(1, budget // 2)); budget -= sub
                self.s_switch(sc, out, sub, depth)
            elif k < 0.92 and self.cfg["pointers"]:
                self.s_pointer(sc, out)
            elif k < 0.935 and self.cfg["structs"] and getattr(self, "sfuncs", None) and sc.func.name not in ("",) and not sc.func.name.startswith(("mk", "use")):
                self.s_structcall(sc, out)
            elif k < 0.95 and self.cfg["structs"] and self.structs:
                self.s_struct(sc, out)
            elif k < 0.97 and self.cfg["goto"] and depth < 3 and budget >= 1:
                sub = r.randint(1, max(1, budget // 2)); budget -= sub
                self.s_goto(sc, out, sub, depth)
            elif k < 0.98 and sc.in_loop and not sc.in_switch_only:
                c = self.cond(sc)
                out.append("if (%s) %s;" % (c, r.choice(["break", "continue"]) if sc.loop_can_continue else "break"))
                self.tag("break-continue")
            else:
                self.s_assign(sc, out)

    def s_decl(self, sc, out):
        r = self.r
        t = self.anytype()
        if r.random() < 0.25:
            n = r.randint(2, 5)
            v = Var(self.name("la"), t, "array", n)
            out.append("%s %s[%d] = {%s};" % (t.name, v.name, n, ", ".join(self.expr(sc, t, 1) for _ in range(n))))
            self.tag("local-array")
        else:
            v = Var(self.name("l"), t)
            out.append("%s %s = %s;" % (t.name, v.name, self.expr(sc, t, 2)))
        sc.locals.append(v)

    def lvalue(self, sc, want=None):
        """-> (text, type) of an assignable scalar object"""
        r = self.r
        cands = [v for v in sc.visible() if v.kind in ("scalar", "array", "struct") and not getattr(v, "ro", False)]
        if not cands:
            v = Var(self.name("l"), want or self.anytype())
            sc.pending.append("%s %s = 0;" % (v.t.name, v.name))
            sc.locals.append(v)
            cands = [v]
        v = r.choice(cands)
        return self.access(sc, v)

    def access(self, sc, v):
        r = self.r
        if v.kind == "scalar":
            return v.name, v.t
        if v.kind == "array":
            return "%s[%s]" % (v.name, self.index(sc, v.n)), v.t
        if v.kind == "struct":
            fn, ft, al = r.choice(v.struct.fields)
            self.tag("struct-member")
            if al:
                return "%s.%s[%s]" % (v.name, fn, self.index(sc, al)), ft
            return "%s.%s" % (v.name, fn), ft
        raise AssertionError(v.kind)

    def index(self, sc, n):
        r = self.r
        if r.random() < 0.5:
            return str(r.randrange(n))
        return "(unsigned int)(%s) %% %du" % (self.expr(sc, self.anytype(), 1), n)

    def s_assign(self, sc, out):
        self.flush(sc, out)
        lv, t = self.lvalue(sc)
        e = self.expr(sc, t, 3)
        self.flush(sc, out)
        out.append("%s = %s;" % (lv, e))

    def s_compound(self, sc, out):
        r = self.r
        lv, t = self.lvalue(sc)
        self.flush(sc, out)
        op = r.choice(["+=", "-=", "*=", "&=", "|=", "^=", "<<=", ">>=", "/=", "%="])
        pt = promote(t)
        if op in ("/=", "%=") and "c-compound-div-mod-shr-in-lhs-type" in self.avoid:
            op = "+="
        if op == ">>=" and "c-compound-div-mod-shr-in-lhs-type" in self.avoid:
            op = "&="
        if op in ("/=", "%="):
            rhs = self.divisor(sc, "(%s)" % self.expr(sc, self.anytype(), 1))[0]
        elif op in ("<<=", ">>="):
            # keep the left operand unsigned or small: only use on unsigned lvalues
            if t.signed:
                op = "^="
                rhs = self.expr(sc, t, 1)
            else:
                rhs = "(%s & %d)" % (self.expr(sc, self.anytype(), 1), min(pt.bits, 32) // 2 - 1 if t.rank < 3 else pt.bits - 1)
        elif op in ("+=", "-=", "*=") and self.arith_type_signed(t):
            # signed arithmetic of rank >= int: reduce both sides first
            out.append("%s = (%s)(%s %% 10007);" % (lv, t.name, lv))
            rhs = "(%s %% 10007)" % self.expr(sc, T_INT, 1)
        else:
            rhs = self.expr(sc, t if r.random() < 0.6 else self.anytype(), 2)
            if op in ("+=", "-=", "*=") and promote(t).signed:
                # narrow lvalue: the arithmetic happens in int; keep the other operand tiny
                rhs = "(unsigned char)(%s)" % rhs
        out.append("%s %s %s;" % (lv, op, rhs))
        self.tag("compound-assign")

    def arith_type_signed(self, t):
        return promote(t).signed and t.rank >= 3

    def unsigned_arith(self, t, rhs):
        # rhs type unknown here: only safe when lhs promoted type is unsigned of rank >= int,
        # or lhs is narrow (then arithmetic is in int on small values, cannot overflow for + -)
        return not promote(t).signed

    def s_incdec(self, sc, out):
        r = self.r
        lv, t = self.lvalue(sc)
        self.flush(sc, out)
        if self.arith_type_signed(t):
            out.append("%s = (%s)(%s %% 10007);" % (lv, t.name, lv))
        op = r.choice(["++", "--"])
        out.append("%s%s;" % ((op + lv) if r.random() < 0.5 else (lv + op), ""))
        self.tag("incdec")

    def s_call(self, sc, out):
        r = self.r
        f = r.choice(self.funcs)
        args = []
        for k, p in enumerate(f.params):
            if k == 0 and getattr(f, "rec", False):
                args.append("(int)(%s & 7)" % self.expr(sc, self.anytype(), 1))
            else:
                args.append(self.expr(sc, p.t if r.random() < 0.6 else self.anytype(), 2))
        self.flush(sc, out)
        call = "%s(%s)" % (f.name, ", ".join(args))
        if self.cfg["fptr"] and r.random() < 0.2:
            fp = self.name("fp")
            out.append("%s (*%s)(%s) = %s;" % (f.ret.name, fp, ", ".join(p.t.name for p in f.params), f.name))
            call = "%s(%s)" % (fp, ", ".join(args))
            self.tag("function-pointer")
        # the call result always goes to a fresh temporary first: the order in
        # which an lvalue's index expression and the call are evaluated is unspecified
        v = Var(self.name("c"), f.ret)
        out.append("%s %s = %s;" % (f.ret.name, v.name, call))
        if r.random() < 0.7:
            lv, t = self.lvalue(sc)
            self.flush(sc, out)
            out.append("%s = %s;" % (lv, v.name))
        sc.locals.append(v)
        self.tag("call")

    def s_if(self, sc, out, budget, depth):
        r = self.r
        c = self.cond(sc)
        self.flush(sc, out)
        out.append("if (%s) {" % c)
        inner = sc.child()
        body = []
        self.block(inner, body, max(1, budget // 2), depth + 1)
        out += ["  " + b for b in body]
        if r.random() < 0.6:
            out.append("} else {")
            inner = sc.child()
            body = []
            self.block(inner, body, max(1, budget // 2), depth + 1)
            out += ["  " + b for b in body]
        out.append("}")
        self.tag("if")

    def s_loop(self, sc, out, budget, depth):
        r = self.r
        k = r.random()
        i = self.name("i")
        trip = r.randint(0, 6)
        it = r.choice([T_INT, T_UINT, TYPES[UC], TYPES[SS], T_LONG])
        inner = sc.child()
        inner.in_loop = True
        inner.in_switch_only = False
        iv = Var(i, it)
        iv.ro = True
        body = []
        self.flush(sc, out)
        if k < 0.5:
            inner.loop_can_continue = True
            inner.locals.append(iv)
            self.block(inner, body, budget, depth + 1)
            out.append("for (%s %s = 0; %s < %d; %s++) {" % (it.name, i, i, trip, i) if "c-for-decl" not in self.avoid
                       else "{ %s %s; for (%s = 0; %s < %d; %s++) {" % (it.name, i, i, i, trip, i))
            out += ["  " + b for b in body]
            out.append("}" if "c-for-decl" not in self.avoid else "} }")
            self.tag("for")
        elif k < 0.8:
            inner.loop_can_continue = False  # continue would skip the decrement
            out.append("%s %s = %d;" % (it.name, i, trip))
            inner.locals.append(iv)
            self.block(inner, body, budget, depth + 1)
            out.append("while (%s > 0) {" % i)
            out.append("  %s--;" % i)
            out += ["  " + b for b in body]
            out.append("}")
            sc.locals.append(iv)
            self.tag("while")
        else:
            inner.loop_can_continue = False
            out.append("%s %s = %d;" % (it.name, i, trip))
            inner.locals.append(iv)
            self.block(inner, body, budget, depth + 1)
            out.append("do {")
            out += ["  " + b for b in body]
            out.append("} while (%s-- > 1);" % i if not it.signed else "} while (--%s > 0);" % i)
            sc.locals.append(iv)
            self.tag("do-while")

    def s_switch(self, sc, out, budget, depth):
        r = self.r
        t = self.anytype()
        e = self.expr(sc, t, 2)
        self.flush(sc, out)
        pt = promote(t)
        labels = set()
        while len(labels) < r.randint(2, 4):
            v = r.choice([0, 1, 2, 3, 5, 100, -1, -2, 127, 255, 65535, pt.hi, pt.lo + 1])
            if pt.lo <= v <= pt.hi:
                labels.add(v)
        mod = r.random() < 0.6
        out.append("switch (%s) {" % ("(%s) %% 6" % e if mod and not pt.signed else e))
        for v in sorted(labels):
            out.append("case %s:" % (str(v) if -2147483647 <= v <= 2147483647 else lit(v, pt)))
            inner = sc.child()
            inner.in_switch_only = not sc.in_loop or True
            inner.in_loop = sc.in_loop
            inner.loop_can_continue = False
            body = []
            self.block(inner, body, max(1, budget // 3), depth + 1)
            # declarations directly under a case label need a block
            out.append("  {")
            out += ["    " + b for b in body]
            out.append("  }")
            if r.random() < 0.75:
                out.append("  break;")
            else:
                self.tag("switch-fallthrough")
        if r.random() < 0.7:
            out.append("default:")
            inner = sc.child()
            body = []
            self.block(inner, body, 1, depth + 1)
            out.append("  {")
            out += ["    " + b for b in body]
            out.append("  }")
        out.append("}")
        self.tag("switch")

    def s_goto(self, sc, out, budget, depth):
        lab = self.name("L")
        c = self.cond(sc)
        self.flush(sc, out)
        out.append("if (%s) goto %s;" % (c, lab))
        inner = sc.child()
        body = []
        self.block(inner, body, budget, depth + 1)
        out.append("{")
        out += ["  " + b for b in body]
        out.append("}")
        out.append("%s: ;" % lab)
        self.tag("goto")

    def s_pointer(self, sc, out):
        r = self.r
        arrs = [v for v in sc.visible() if v.kind == "array"]
        scal = [v for v in sc.visible() if v.kind == "scalar" and not getattr(v, "ro", False)]
        self.flush(sc, out)
        if arrs and r.random() < 0.6:
            a = r.choice(arrs)
            p = self.name("pt")
            k = r.randrange(a.n)
            out.append("%s *%s = &%s[%d];" % (a.t.name, p, a.name, k))
            j = r.randrange(a.n)
            how = r.random()
            if how < 0.3:
                out.append("%s = %s + (%d);" % (p, p, j - k))
                k = j
            elif how < 0.5 and k + 1 < a.n:
                out.append("%s++;" % p)
                k += 1
            if r.random() < 0.5:
                out.append("*%s = %s;" % (p, self.expr(sc, a.t, 2)))
            else:
                off = r.randrange(-k, a.n - k)
                out.append("report((long)%s[%d]);" % (p, off))
            if r.random() < 0.4:
                out.append("report((long)(%s - %s));" % (p, a.name))
                self.tag("pointer-difference")
            self.tag("pointer-to-array")
        elif scal:
            v = r.choice(scal)
            p = self.name("pt")
            out.append("%s *%s = &%s;" % (v.t.name, p, v.name))
            out.append("*%s = %s;" % (p, self.expr(sc, v.t, 2)))
            self.tag("pointer-to-scalar")

    def s_struct(self, sc, out):
        r = self.r
        st = r.choice(self.structs)
        gs = [v for v in sc.visible() if v.kind == "struct" and v.struct is st]
        self.flush(sc, out)
        k = r.random()
        if k < 0.4 or not gs:
            v = Var(self.name("s"), None, "struct", struct=st)
            if gs and r.random() < 0.5:
                out.append("struct %s %s = %s;" % (st.name, v.name, r.choice(gs).name))
                self.tag("struct-copy")
            else:
                inits = []
                for fn, ft, al in st.fields:
                    inits.append("{%s}" % ", ".join(self.expr(sc, ft, 1) for _ in range(al)) if al else self.expr(sc, ft, 1))
                out.append("struct %s %s = {%s};" % (st.name, v.name, ", ".join(inits)))
                self.tag("struct-local-init")
            sc.locals.append(v)
        elif k < 0.7 and len(gs) >= 2:
            a, b = r.sample(gs, 2)
            out.append("%s = %s;" % (a.name, b.name))
            self.tag("struct-assign")
        else:
            v = r.choice(gs)
            p = self.name("sp")
            out.append("struct %s *%s = &%s;" % (st.name, p, v.name))
            fn, ft, al = r.choice(st.fields)
            if al:
                out.append("%s->%s[%d] = %s;" % (p, fn, r.randrange(al), self.expr(sc, ft, 2)))
            else:
                out.append("%s->%s = %s;" % (p, fn, self.expr(sc, ft, 2)))
            self.tag("struct-arrow")

    def flush(self, sc, out):
        while sc.pending:
            out.append(sc.pending.pop(0))

    # ---------------------------------------------------------------- expressions (side-effect free)
    def cond(self, sc):
        r = self.r
        k = r.random()
        if k < 0.6:
            return self.compare(sc, 2)
        if k < 0.8:
            op = r.choice(["&&", "||"])
            self.tag("short-circuit")
            return "(%s) %s (%s)" % (self.compare(sc, 1), op, self.compare(sc, 1))
        if k < 0.9:
            return "!(%s)" % self.compare(sc, 1)
        t = self.anytype()
        if "c-condition-coerced-to-int" in self.avoid and t.bits > 32:
            t = T_INT
        self.tag("scalar-condition")
        return self.expr(sc, t, 2)

    def compare(self, sc, depth):
        r = self.r
        a_t, b_t = self.anytype(), self.anytype()
        if r.random() < 0.5:
            b_t = a_t
        a = self.expr(sc, a_t, depth)
        b = self.expr(sc, b_t, depth)
        if "c-comparison-no-promotion" in self.avoid:
            ct = common(a_t, b_t)
            a, b = "(%s)%s" % (ct.name, a), "(%s)%s" % (ct.name, b)
        self.tag("compare")
        return "%s %s %s" % (a, r.choice(["==", "!=", "<", ">", "<=", ">="]), b)

    def leaf(self, sc, t):
        """(text, actual type)"""
        r = self.r
        vs = [v for v in sc.visible() if v.kind in ("scalar", "array", "struct")]
        if vs and r.random() < 0.7:
            v = r.choice(vs)
            return self.access(sc, v)
        ct = t if r.random() < 0.7 else self.anytype()
        return lit(boundary(r, ct), ct), ct

    def expr(self, sc, t, depth):
        """Expression text whose value is converted to type t (explicit cast)."""
        txt, et = self.subexpr(sc, depth)
        if et is t and self.r.random() < 0.5:
            return txt
        self.tag("cast")
        return "(%s)(%s)" % (t.name, txt)

    def subexpr(self, sc, depth):
        """-> (text (parenthesised as needed), static C type)"""
        r = self.r
        if depth <= 0 or r.random() < 0.25:
            return self.leaf(sc, self.anytype())
        k = r.random()
        if k < 0.55:
            return self.binary(sc, depth)
        if k < 0.65:
            return self.unary(sc, depth)
        if k < 0.75:
            c = self.compare(sc, depth - 1)
            return "(%s)" % c, T_INT
        if k < 0.85:
            # ternary
            c = self.compare(sc, depth - 1)
            a, at = self.subexpr(sc, depth - 1)
            b, bt = self.subexpr(sc, depth - 1)
            self.tag("ternary")
            if "c-ternary-arms-not-converted" in self.avoid:
                ct = common(at, bt)
                return "((%s) ? (%s)%s : (%s)%s)" % (c, ct.name, a, ct.name, b), ct
            return "((%s) ? %s : %s)" % (c, a, b), common(at, bt)
        if k < 0.92:
            t = self.anytype()
            a, at = self.subexpr(sc, depth - 1)
            self.tag("cast")
            return "((%s)%s)" % (t.name, a), t
        op = r.choice(["&&", "||"])
        self.tag("short-circuit")
        return "((%s) %s (%s))" % (self.compare(sc, depth - 1), op, self.compare(sc, depth - 1)), T_INT

    def divisor(self, sc, b):
        """A divisor that is never 0 and never -1, of a randomly chosen type
        (also narrow and negative ones, so that the conversions applied to the
        right operand of / % /= %= matter). -> (text, type)"""
        r = self.r
        if r.random() < 0.5:
            return "((%s & 0x7f) + 1)" % b, T_INT if True else None
        t = self.anytype()
        mag = "((%s & 0x3f) + 2)" % b          # 2..65 fits every type
        if t.signed and r.random() < 0.5:
            self.tag("negative-divisor")
            return "((%s)(-%s))" % (t.name, mag), t
        self.tag("typed-divisor")
        return "((%s)%s)" % (t.name, mag), t

    def unary(self, sc, depth):
        r = self.r
        a, at = self.subexpr(sc, depth - 1)
        op = r.choice(["-", "~", "!", "+"])
        pt = promote(at)
        if op == "!":
            if "c-condition-coerced-to-int" in self.avoid and at.bits > 32:
                a, at = "(int)(%s %% 10007)" % a, T_INT
            return "(!%s)" % a, T_INT
        if "c-unary-no-promotion" in self.avoid and at.rank < 3:
            a = "(int)%s" % a
        if op == "-" and pt.signed:
            # -INT_MIN overflows: reduce first when the operand can be the minimum
            if at.rank >= 3:
                a = "(%s %% 10007)" % a
        self.tag("unary" + op)
        return "(%s%s)" % (op, a), pt

    def binary(self, sc, depth):
        r = self.r
        a, at = self.subexpr(sc, depth - 1)
        b, bt = self.subexpr(sc, depth - 1)
        op = r.choice(["+", "-", "*", "/", "%", "&", "|", "^", "<<", ">>", "+", "-", "*"])
        self.tag("op" + op)
        if op in ("<<", ">>"):
            pt = promote(at)
            if "c-shift-uses-common-type" in self.avoid:
                # make both operands the same promoted type so either rule agrees
                b = "(%s)(%s & %d)" % (pt.name, b, 15)
                if pt.signed:
                    a = "(%s & 0x7fff)" % a
                return "(%s %s %s)" % (a, op, b), pt
            if pt.signed:
                a = "(%s & 0x7fff)" % a        # non-negative, small: no overflow for count <= 15
                cnt = "(%s & 15)" % b
            else:
                cnt = "(%s & %d)" % (b, pt.bits - 1)
            return "(%s %s %s)" % (a, op, cnt), pt
        ct = common(at, bt)
        if op in ("/", "%"):
            if r.random() < 0.35:
                v = r.choice([1, 2, 3, 5, 7, 10, 16, 100, 255, -2, -3, -7, -100])
                if v < 0 and not bt.signed:
                    v = -v
                cbt = bt if bt.rank >= 3 else T_INT
                b, bt = lit(v if cbt.signed or v > 0 else -v, cbt), cbt
            else:
                b, bt = self.divisor(sc, b)
            ct = common(at, bt)
            return "(%s %s %s)" % (a, op, b), ct
        if op in ("+", "-", "*") and ct.signed:
            # arithmetic in a signed type of rank >= int: keep the operands small.
            # (narrow operands are promoted to int and cannot overflow for + and -,
            #  and short*short fits; only reduce operands of rank >= int)
            if at.rank >= 3 or (op == "*" and at.idx == US):
                a = "(%s %% 10007)" % a
            if bt.rank >= 3 or (op == "*" and bt.idx == US):
                b = "(%s %% 10007)" % b
        return "(%s %s %s)" % (a, op, b), ct


class Scope:
    def __init__(self, gen, func, params, parent=None):
        self.gen, self.func, self.parent = gen, func, parent
        self.locals = list(params)
        self.pending = parent.pending if parent else []
        self.in_loop = parent.in_loop if parent else False
        self.in_switch_only = parent.in_switch_only if parent else False
        self.loop_can_continue = parent.loop_can_continue if parent else False

    def child(self):
        return Scope(self.gen, self.func, [], self)

    def visible(self):
        out = []
        s = self
        while s:
            out += s.locals
            s = s.parent
        return out + [g for g in self.gen.globals if g.kind != "pointer"]


def gen_program(r, cfg=None):
    g = Gen(r, cfg)
    return g.program()


def gen_args(r, n=3):
    out = [[0, 1, 2]]
    while len(out) < n:
        out.append([boundary(r, T_LONG) if r.random() < 0.7 else r.randint(-20, 20) for _ in range(3)])
    return out


DRIVER = r'''
#include <stdio.h>
#include <stdlib.h>
void report(long v) { printf("%ld\n", v); }
long entry(long, long, long);
int main(int argc, char **argv) {
  long r = entry(atol(argv[1]), atol(argv[2]), atol(argv[3]));
  printf("ret %ld\n", r);
  return 0;
}
'''
